#!/bin/bash
# tools/mutant_ws.sh <cXX> : create a scratch copy of /repo's working tree and a harness workspace
# pointing at it, under /tmp/mut/<cXX>/ — for trying out property-breaking changes without touching
# /repo. Edit /tmp/mut/<cXX>/repo/src/..., then:
#   cd /tmp/mut/<cXX>/mc && cargo build --release --offline -p <cXX> && /tmp/mut/<cXX>/target/release/<cXX> --no-evidence
# Remove /tmp/mut/<cXX> when done.
set -e
id="$1"; d="/tmp/mut/$id"
rm -rf "$d"; mkdir -p "$d/mc/props"
rsync -a --exclude target --exclude .git /repo/ "$d/repo/"
cp -r /verif/mc/Cargo.toml /verif/mc/Cargo.lock /verif/mc/.cargo /verif/mc/core /verif/mc/sc "$d/mc/"
ln -s "/verif/mc/props/$id" "$d/mc/props/$id"
sed -i "s#path = \"/repo\"#path = \"$d/repo\"#" "$d/mc/Cargo.toml"
sed -i "s#target-dir = .*#target-dir = \"$d/target\"#" "$d/mc/.cargo/config.toml"
echo "$d ready"
