#!/bin/bash
# tools/reverify_seeds.sh : re-confirm every stored seeded change against /repo's current HEAD in a scratch
# worktree (/tmp/rv): with the patch the repository's own lib tests pass and the demo fails; without it the
# demo passes. Appends one line per seed to /verif/seeded/<id>/reverify.log. Removes the worktree at the end.
set -u
rm -rf /tmp/rv; git -C /repo worktree prune; git -C /repo worktree add -q --detach /tmp/rv HEAD || exit 2
export CARGO_TARGET_DIR=/tmp/rv-target
head=$(git -C /repo rev-parse --short HEAD)
for d in /verif/seeded/*/; do
  n=$(basename $d); cd /tmp/rv; git checkout -q -- . ; rm -f tests/demo.rs
  feats=$(python3 -c "import json;print(json.load(open('$d/meta.json')).get('demo_features',''))")
  fa=""; [ -n "$feats" ] && fa="--features $feats"
  if ! git apply "$d/patch.diff" 2>/dev/null; then echo "$n head=$head PATCH-DOES-NOT-APPLY" | tee -a $d/reverify.log; continue; fi
  tw=$(cargo test --offline --lib 2>&1 | grep -E "^test result" | head -1 | sed -E 's/.* ([0-9]+) passed; ([0-9]+) failed.*/\1\/\2/')
  mkdir -p tests; cp "$d/demo.rs" tests/demo.rs
  if cargo test --offline --test demo $fa >/dev/null 2>&1; then dw=pass; else dw=fail; fi
  git checkout -q -- .
  if cargo test --offline --test demo $fa >/dev/null 2>&1; then dwo=pass; else dwo=fail; fi
  rm -f tests/demo.rs
  echo "$(date -u +%FT%TZ) $n head=$head tests_with=$tw demo_with=$dw demo_without=$dwo" | tee -a $d/reverify.log
done
cd /; git -C /repo worktree remove --force /tmp/rv; rm -rf /tmp/rv-target
