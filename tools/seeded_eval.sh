#!/bin/bash
# tools/seeded_eval.sh <seed-dir> [check ids...] : the recorded evaluation of one seeded change.
# Applies /verif/seeded/<seed-dir>/patch.diff to /repo (git apply), runs the quick tier of the given
# checks (default: the seed's own property), undoes the change (git checkout -- .), and appends the
# outcome to /verif/seeded/<seed-dir>/runs.log. /repo must be clean on entry. Never commits.
set -u
sd="/verif/seeded/$1"; shift
prop=$(python3 -c "import json;print(json.load(open('$sd/meta.json'))['property'])")
checks=("$@"); [ ${#checks[@]} -eq 0 ] && checks=("$prop")
if [ -n "$(git -C /repo status --porcelain --untracked-files=no)" ]; then echo "seeded_eval: /repo is not clean" >&2; exit 2; fi
git -C /repo apply "$sd/patch.diff" || { echo "seeded_eval: patch does not apply" >&2; exit 2; }
# undo the change and rebuild the checks that were run, so that no binary built from the changed tree stays behind
trap 'git -C /repo checkout -- . ; for c in "${checks[@]}"; do (cd /verif/mc && cargo build --release --offline -q -p "$(echo $c | tr A-Z a-z)" >/dev/null 2>&1); done' EXIT
for c in "${checks[@]}"; do
  out=$(cd /verif && ./check "$c" --tier quick --no-evidence ${SEEDED_ARGS:-} 2>&1); rc=$?
  sites=$(echo "$out" | grep -E "^  site=" | sed -E 's/^  site=([^ ]+).*/\1/' | tr '\n' ' ')
  echo "$(date -u +%FT%TZ) seed=$(basename $sd) check=$c exit=$rc sites=[$sites]" | tee -a "$sd/runs.log"
done
