#!/usr/bin/env python3
"""Prints the markdown table of DESIGN.md §8 from /verif/seeded/*/meta.json and runs.log (last run per check; an earlier miss is noted)."""
import json, os, re, glob
rows = []
for d in sorted(glob.glob("/verif/seeded/*/")):
    name = os.path.basename(d.rstrip("/"))
    meta = json.load(open(d + "meta.json"))
    runs = {}
    if os.path.exists(d + "runs.log"):
        for l in open(d + "runs.log"):
            m = re.search(r"check=(\S+) exit=(\d+) sites=\[(.*)\]", l)
            if m:
                first_missed = runs.get(m.group(1), (None, None, False))[2] or int(m.group(2)) == 0
                runs[m.group(1)] = (int(m.group(2)), m.group(3).split(), first_missed)
    notes = open(d + "notes.md").read()
    files = ", ".join(f.replace("src/", "") for f in meta["files_changed"])
    res = []
    for c, (rc, sites, was_missed) in sorted(runs.items()):
        if rc == 1:
            res.append((f"{c}: caught ({len(sites)} site(s), e.g. `{sites[0]}`)" if sites else f"{c}: caught") + (" — missed at first, caught after the harness family was widened" if was_missed else ""))
        elif rc == 0:
            res.append(f"{c}: **missed**")
        else:
            res.append(f"{c}: exit {rc}")
    extra = meta.get("remark", "")
    rows.append(f"| {name} | {files} | {'; '.join(res) or 'not run'} | {extra} |")
print("| seeded change | files | quick-tier result (recorded by tools/seeded_eval.sh on /repo) | remark |")
print("|---|---|---|---|")
print("\n".join(rows))
