#!/bin/bash
# tools/run_seeded_scratch.sh <patch.diff> <cXX> [tier] : run one property's check against a scratch copy of
# /repo's working tree with the patch applied (does not touch /repo). Development aid; the recorded
# seeded-change results come from tools/seeded_eval.sh, which applies the patch to /repo itself.
set -e
patch="$1"; crate="$2"; tier="${3:-quick}"
d="/tmp/mut/run-$crate-$$"
rm -rf "$d"; mkdir -p "$d/mc/props"
rsync -a --exclude target --exclude .git /repo/ "$d/repo/"
(cd "$d/repo" && patch -p1 -s < "$patch")
cp -r /verif/mc/Cargo.toml /verif/mc/Cargo.lock /verif/mc/.cargo /verif/mc/core /verif/mc/sc "$d/mc/"
ln -s "/verif/mc/props/$crate" "$d/mc/props/$crate"
sed -i "s#path = \"/repo\"#path = \"$d/repo\"#" "$d/mc/Cargo.toml"
# share the big dependency builds with the main target dir is not possible (different paths): use a per-crate cache dir
tgt="/tmp/mut/tgt-$crate"
sed -i "s#target-dir = .*#target-dir = \"$tgt\"#" "$d/mc/.cargo/config.toml"
set +e
(cd "$d/mc" && cargo build --release --offline -p "$crate" 2>&1 | grep -E "^error" -A8 | head -30)
"$tgt/release/$crate" --tier "$tier" --no-evidence ${SCRATCH_ARGS:-} 2>&1 | grep -E "^VIOLATION|^  site=|^KNOWN|^C[0-9]+ tier|MACHINERY|cap:" | cut -c1-400
echo "exit=${PIPESTATUS[0]}"
rm -rf "$d"
