#!/bin/bash
# tools/selftest.sh : checks that the driver maps injected faults of a toy harness to the right exit codes.
cd /verif/mc && cargo build --release --offline -p c00 2>&1 | grep -E "^error" -A8
fail=0
t() { want="$2"; out=$(MC_SELFTEST="$1" MC_KF=/dev/null /verif/target/release/c00 --no-evidence --workers 4 2>&1); rc=$?; line=$(echo "$out" | grep -E "VIOLATION|MACHINERY" | head -2 | tr '\n' ' ' | cut -c1-200); if [ $rc -eq $want ]; then echo "ok   $1 -> exit $rc   $line"; else echo "FAIL $1 -> exit $rc (want $want)  $out"; fail=1; fi; }
t ok 0; t viol 1; t hang 1; t abort 1; t oom 1; t diverge 2; t vacuous 2; t flaky 1; t ghost 2
exit $fail
