#!/bin/bash
# tools/verify_seed.sh <CXX> <k> : confirm a seeded change in its scratch worktree /tmp/seed/<CXX>:
#  with the patch: the repository's own lib tests pass (161) and the demo fails; without: the demo passes.
# Prints one line: "<CXX>/<k> tests_with=<passed>/<failed> demo_with=<fail|pass> demo_without=<pass|fail> features=<..>"
id="$1"; k="$2"; R="${SEEDROOT:-/tmp/seed}"; wt="$R/$id"; out="$R/out/$id/$k"
cd "$wt" || exit 2
git checkout -q -- . ; rm -f tests/demo.rs
feats=""
grep -qi "serde" "$out/notes.md" "$out/demo.rs" 2>/dev/null && feats="serde"
grep -qi "ndarray" "$out/demo.rs" 2>/dev/null && feats="$feats,ndarray-bindings"
grep -qi "nalgebra" "$out/demo.rs" 2>/dev/null && feats="$feats,nalgebra-bindings"
feats="${feats#,}"
fa=""; [ -n "$feats" ] && fa="--features $feats"
git apply "$out/patch.diff" || { echo "$id/$k PATCH-DOES-NOT-APPLY"; exit 1; }
tw=$(cargo test --offline --lib 2>&1 | grep -E "^test result" | head -1 | sed -E 's/.* ([0-9]+) passed; ([0-9]+) failed.*/\1\/\2/')
mkdir -p tests; cp "$out/demo.rs" tests/demo.rs
if cargo test --offline --test demo $fa >$out/demo_with.log 2>&1; then dw=pass; else dw=fail; fi
grep -q "error\[" $out/demo_with.log && dw="compile-error"
git checkout -q -- .
if cargo test --offline --test demo $fa >$out/demo_without.log 2>&1; then dwo=pass; else dwo=fail; fi
rm -f tests/demo.rs
echo "$id/$k tests_with=$tw demo_with=$dw demo_without=$dwo features=$feats"
