#!/usr/bin/env python3
"""Regenerates /verif/MANIFEST.json from the table below (kept next to the code so that the manifest
never lists a check that does not exist). Run after adding / changing a check."""
import json, subprocess, os

V = "/verif"
props = [json.loads(l) for l in open(f"{V}/properties.jsonl")]
hook_commits = subprocess.run(["git", "-C", "/repo", "log", "--format=%H", "--grep=^verif-hooks"], capture_output=True, text=True).stdout.split()

# id -> (technique, level text, level note, design ref)
CHECKS = {}
exec(open(f"{V}/tools/checks_table.py").read())

checks, na = [], []
for p in props:
    i = p["id"]
    if i in CHECKS and os.path.isdir(f"{V}/mc/props/{i.lower()}"):
        c = CHECKS[i]
        checks.append({
            "property_id": i,
            "quick_cmd": f"./check {i} --tier quick",
            "thorough_cmd": f"./check {i} --tier thorough",
            "evidence_file": f"/verif/evidence/{i}.json",
            "replay_cmd_template": f"./check {i} --replay {{path}}",
            "engine": c.get("engine", "E1"),
            "level_claimed": {"category": "model_checking", "text": c["text"], "design_ref": f"DESIGN.md §4 {i}"},
            "level_note": c["note"],
            "technique": c["technique"],
        })
    else:
        na.append({"property_id": i, "reason": NOT_APPLICABLE.get(i, "check not built yet in this round (planned: bounded exhaustive exploration, see DESIGN.md §4)")})

m = {
    "version": 1,
    "setup_cmd": "cd /verif/mc && CARGO_NET_OFFLINE=true cargo build --release --offline --workspace",
    "hooks": {
        "guard": "cargo feature `verif-hooks` of the smartcore crate (off by default)",
        "enable": "the harness workspace /verif/mc depends on smartcore by path (/repo) with features [serde, ndarray-bindings, nalgebra-bindings, verif-hooks]; ./check rebuilds it from /repo's working tree on every invocation",
        "baseline_off_cmd": "cd /repo && cargo test --workspace --no-fail-fast --offline",
        "source_commits": hook_commits,
        "add_only": True,
    },
    "engines": [
        {"name": "E1", "path": "/verif/mc/core/src/explore.rs", "serves_properties": [c["property_id"] for c in checks],
         "kind_free_text": "stateless choice-tree model checker over the real library code: prefix replay, depth-first enumeration of every input/configuration choice and every RNG answer (verif-hooks seam), optional deviation bounding, 16 worker processes with a watchdog that attributes hangs/aborts to an exact case"},
        {"name": "E2", "path": "/verif/mc/core/src/bfs.rs", "serves_properties": [c["property_id"] for c in checks if "E2" in c.get("engine", "")],
         "kind_free_text": "explicit-state breadth-first search over real objects (state = canonical snapshot, transition = real method call), invariant = agreement with a reference model in every state"},
    ],
    "checks": checks,
    "not_applicable": na,
    "notes": "All checks are bounded exhaustive explorations of the real code (model checking); none samples. Known genuine defects are listed in /verif/known_findings.txt (known:/fixed: lines). See DESIGN.md.",
}
json.dump(m, open(f"{V}/MANIFEST.json", "w"), indent=1)
print(f"{len(checks)} checks, {len(na)} not claimed")
