#!/usr/bin/env python3
"""tools/store_seed.py <CXX> <k> '<verify line>' : copy a confirmed seeded change from the sub-agent's
output directory into /verif/seeded/<CXX>-<k>/ with a meta.json."""
import json, os, shutil, sys, re
pid, k, verify = sys.argv[1], sys.argv[2], sys.argv[3]
import os as _os
root = _os.environ.get("SEEDROOT", "/tmp/seed")
src = f"{root}/out/{pid}/{k}"
dst = f"/verif/seeded/{pid}-{int(k) + int(_os.environ.get('SEEDOFFSET', '0'))}"
os.makedirs(dst, exist_ok=True)
for f in ("patch.diff", "demo.rs", "notes.md"):
    shutil.copy(f"{src}/{f}", f"{dst}/{f}")
notes = open(f"{src}/notes.md").read()
files = sorted(set(re.findall(r"^\+\+\+ b/(\S+)", open(f"{src}/patch.diff").read(), re.M)))
meta = {
    "property": pid,
    "origin": "written by a fresh sub-agent that was given only the property text and a scratch worktree (nothing from /verif)",
    "files_changed": files,
    "needs_to_manifest": "see notes.md (the sub-agent's own description of the trigger)",
    "confirmed": {
        "how": "tools/verify_seed.sh in the scratch worktree: patch applied -> `cargo test --offline --lib` (repository's own tests) and the demo as tests/demo.rs; patch reverted -> demo again",
        "result": verify,
    },
    "demo_features": (re.search(r"features=(\S*)", verify).group(1) if re.search(r"features=(\S*)", verify) else ""),
}
json.dump(meta, open(f"{dst}/meta.json", "w"), indent=1)
print(dst)
