NOT_APPLICABLE = {}
CHECKS["C16"] = dict(
    engine="E1",
    technique="exhaustive enumeration of (n, k / test_size, shuffle schedule) executions of the real splitting code; RNG owned through the verif-hooks seam; deviation-bounded schedules above n=6",
    text="Every (n,k) with 2<=k<=n<=64 unshuffled, every permutation the shuffle can draw for n<=7 (n<=9 thorough) and every schedule with <=2 non-identity Fisher-Yates steps up to n=16 (32), each judged by the partition / complement / balance / leak oracle with a spy estimator. This is a complete enumeration of the stated bounds, which is the right level for index bookkeeping code whose defects are off-by-one and misplacement errors that show on small n.",
    note="Assumes the chooser-driven Fisher-Yates enumerates exactly the permutations rand's shuffle can produce; rows identified by content; n>64 and non-listed test sizes not explored.",
)
CHECKS["C12"] = dict(
    engine="E1",
    technique="exhaustive enumeration of (lattice point sequence, k, max_iter, complete k-means++ answer sequence) executions of the real fit, and of (point sequence, centroid multiset) for the BBD-tree assignment step; RNG owned through the verif-hooks seam (64-point cutoff grid covering every selectable index, plus edge answers)",
    text="Every seeding schedule of every small lattice data set is executed and judged against the definition (centroid = mean of last-assigned rows, sizes = counts, predict = nearest centroid, BBD assignment = exhaustive search). Completeness over the RNG is exactly what repeated unseeded fits cannot give; the bounded lattice is where ties, duplicates, coincident and far centroids, and empty clusters all occur.",
    note="Cutoff draws restricted to 64 grid mid-points (+ the two edge values): sufficient to reach every index of positive weight on the integer lattices used. Larger data only through 4 structured families with deviation-bounded seeding.",
)
CHECKS["C10"] = dict(
    engine="E1",
    technique="exhaustive enumeration of SVC fits over every visiting order ((n!)^(1+epochs) Fisher-Yates answer sequences via the verif-hooks seam) of every small lattice training set x labelling x kernel x (C,tol); exhaustive SVR and kernel enumeration; KKT / feasibility / kernel-expansion oracle",
    text="All schedules of the unseeded sample order are explored for n=4 (n=5 thorough) and deviation-bounded for n=6..8; each fitted model is read back through serde and checked for box feasibility in the direction of its sample's class, zero sum, equality of the decision function with the closed-form kernel expansion and the sign rule. SVR: epsilon-insensitive KKT within tol at every training point. This is the level at which 'for every visiting order' can be decided at all.",
    note="Support vectors matched to rows by value (any consistent matching accepted); KKT slack tol+1e-9; sigmoid kernel excluded from SVR optimality as the property states.",
)
CHECKS["C06"] = dict(
    engine="E1",
    technique="exhaustive enumeration of forest configurations (data catalogue x seed block x n_trees x m x limits x keep_samples x criterion) with the real seeded RNG, plus EVERY bootstrap / feature-shuffle outcome of tiny forests through the verif-hooks seam; aggregation oracle against the forest's own deserialised member trees",
    text="Each fit is repeated and compared bit for bit (seed reproducibility); the forest prediction and the out-of-bag prediction are recomputed from the deserialised member trees and the stored in-bag masks (plurality / mean, ties in the library's favour); stratification, label values, target range and tree count are checked. For n=4 all bootstrap samples of 1-2 trees are enumerated, so the in-bag masks themselves are validated against the draws.",
    note="Seeds outside the enumerated block are not explored; member trees are trusted to survive serde (C19). OOB rows with no out-of-bag tree are skipped.",
)
