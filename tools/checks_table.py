NOT_APPLICABLE = {}
CHECKS["C16"] = dict(
    engine="E1",
    technique="exhaustive enumeration of (n, k / test_size, shuffle schedule) executions of the real splitting code; RNG owned through the verif-hooks seam; deviation-bounded schedules above n=6",
    text="Every (n,k) with 2<=k<=n<=64 unshuffled, every permutation the shuffle can draw for n<=7 (n<=9 thorough) and every schedule with <=2 non-identity Fisher-Yates steps up to n=16 (24; <=3 steps up to n=13 in the thorough tier), fold counts around 256/512 and leave-one-out on up to 513 rows, each judged by the partition / complement / balance / leak oracle with a spy estimator. This is a complete enumeration of the stated bounds, which is the right level for index bookkeeping code whose defects are off-by-one and misplacement errors that show on small n.",
    note="Assumes the chooser-driven Fisher-Yates enumerates exactly the permutations rand's shuffle can produce; rows identified by content; n>64 and non-listed test sizes not explored.",
)
CHECKS["C12"] = dict(
    engine="E1",
    technique="exhaustive enumeration of (lattice point sequence, k, max_iter, complete k-means++ answer sequence) executions of the real fit, and of (point sequence, centroid multiset) for the BBD-tree assignment step; RNG owned through the verif-hooks seam (64-point cutoff grid covering every selectable index, plus edge answers); assignment step also on structured sets of 36..200 rows in 1..3 dimensions",
    text="Every seeding schedule of every small lattice data set is executed and judged against the definition (centroid = mean of last-assigned rows, sizes = counts, predict = nearest centroid, BBD assignment = exhaustive search). Completeness over the RNG is exactly what repeated unseeded fits cannot give; the bounded lattice is where ties, duplicates, coincident and far centroids, and empty clusters all occur.",
    note="Cutoff draws restricted to 64 grid mid-points (+ the two edge values): sufficient to reach every index of positive weight on the integer lattices used. Larger data only through 4 structured families with deviation-bounded seeding.",
)
CHECKS["C10"] = dict(
    engine="E1",
    technique="exhaustive enumeration of SVC fits over every visiting order ((n!)^(1+epochs) Fisher-Yates answer sequences via the verif-hooks seam) of every small lattice training set x labelling x kernel x (C,tol); exhaustive SVR (lattice sets n<=4 (5), structured sets n in {8,20,72} (40,80)) and kernel enumeration; KKT / feasibility / kernel-expansion oracle",
    text="All schedules of the unseeded sample order are explored for n=4 (n=5 thorough) and deviation-bounded for n=6..8; each fitted model is read back through serde and checked for box feasibility in the direction of its sample's class, zero sum, equality of the decision function with the closed-form kernel expansion and the sign rule. SVR: epsilon-insensitive KKT within tol at every training point. This is the level at which 'for every visiting order' can be decided at all.",
    note="Support vectors matched to rows by value (any consistent matching accepted); KKT slack tol+1e-9; sigmoid kernel excluded from SVR optimality as the property states.",
)
CHECKS["C06"] = dict(
    engine="E1",
    technique="exhaustive enumeration of forest configurations (data catalogue x seed block x n_trees x m x limits x keep_samples x criterion) with the real seeded RNG, plus EVERY bootstrap / feature-shuffle outcome of tiny forests through the verif-hooks seam; aggregation oracle against the forest's own deserialised member trees, in-bag-mask consistency (a member tree only predicts values its stored in-bag rows can produce)",
    text="Each fit is repeated and compared bit for bit (seed reproducibility); the forest prediction and the out-of-bag prediction are recomputed from the deserialised member trees and the stored in-bag masks (plurality / mean, ties in the library's favour); stratification, label values, target range and tree count are checked. For n=4 all bootstrap samples of 1-2 trees are enumerated, so the in-bag masks themselves are validated against the draws.",
    note="Seeds outside the enumerated block are not explored; member trees are trusted to survive serde (C19). OOB rows with no out-of-bag tree are skipped.",
)
CHECKS["C18"] = dict(
    engine="E1+E2",
    technique="exhaustive enumeration of one-hot layouts (every subset of categorical columns for p<=6 (8,9,10 thorough), 1..3 categories per column, index list in every order, 4 matrix backends, every first-appearance pattern, every unseen / fractional cell for the error clauses) against a reference encoder; explicit-state BFS over every category stream of length <=6 (7) on the real CategoryMapper",
    text="The property itself says 'exhaustively all subsets ... for p <= 6'; the check enumerates exactly that space (and more) with an exact reference encoder (no tolerances), plus a breadth-first search of the CategoryMapper state machine checking that its four maps stay mutually inverse in every reachable state.",
    note="p>10, more than 6 categories per column and category streams longer than 7 are not reached; fit accepts values within 0.001 of an integer (counted, not flagged).",
)
CHECKS["C13"] = dict(
    engine="E1",
    technique="exhaustive enumeration of ordered point sequences on small 1-D/2-D/3-D/4-D lattices x eps x min_samples x metric x float width, both neighbour-search backends, each labelling judged clause by clause against a definition-level oracle (eps-graph, core points, union-find) and predict against a brute-force vote",
    text="Order matters for DBSCAN (scan order numbers the clusters, border points go to the first core that reaches them), so sequences rather than sets are enumerated; lattice data make distances exactly equal to eps the norm. The oracle accepts any labelling the definition allows (border points: any adjacent core's cluster). Structured chains/blobs/Kronecker sets reach 50 (150) points.",
    note="No tolerances (exact lattice arithmetic). Larger random clouds are not reached.",
)
CHECKS["C15"] = dict(
    engine="E1",
    technique="exhaustive enumeration of label/score vector pairs (all binary pairs n<=6, all score vectors over a 4-letter alphabet n<=7 and 3-letter n=8..10 for AUC, all real-target pairs n<=4 at three scales, all labelling pairs over {0,1,2}^n n<=6 plus product/identical layouts up to 8 classes) judged by exact rational reference definitions",
    text="Every metric is compared with its textbook definition computed in exact rational arithmetic (AUC by pair counting with ties one half; entropies from the contingency table), including range, swap and renaming invariance for the cluster scores and the length-mismatch rejection. n=8..10 reaches the partition code of the quick-sort used for mid-ranks.",
    note="f64 vectors of the built-in Vec type only (backend vectors are C20's subject); entropy-based scores compared at 1e-12.",
)
CHECKS["C17"] = dict(
    engine="E1",
    technique="exhaustive enumeration of ordered vector pairs and, for the triangle inequality, every ordered triple of finite vector catalogues (lattice alphabets^len at three scales, structured vectors of every length 1..30, f64 and f32) x 13 metrics; Mahalanobis over every small integer SPD covariance and every full-rank lattice data set; double-double closed-form oracle",
    text="Metric axioms are universally quantified over pairs and triples, so the check enumerates all of them over finite catalogues and measures each result in ulps of a ~106-bit reference; coincidences (Minkowski 1/2 vs Manhattan/Euclid, identity Mahalanobis vs Euclid) and the rejection of mismatched lengths are decided on the same cases.",
    note="Tolerances (8+n) eps relative, (8+2n^2) cond eps for Mahalanobis, with >=4x measured headroom; vectors longer than 30 and covariance orders >12 not reached.",
)
CHECKS["C01"] = dict(
    engine="E1",
    technique="exhaustive enumeration of small lattice matrices (every m x n matrix with m,n<=3 over {0,1,-1,2} (5-letter thorough), symmetric lattices to 4x4 (5x5), 4xk/kx4, binary 4x4; all 3^16 ternary 4x4 in thorough) x power-of-two scales x {f64,f32} x right-hand-side catalogue, plus 18 structured families to n=12 (40) in six aspects; exact-arithmetic (Bareiss) classification and residual / orthogonality / triangularity / least-squares / minimum-norm oracle",
    text="Every data-selected branch of the four factorizations (pivoting, sign choice, zero-scale, deflation, wide path, rank deficiency) is reached by some small lattice matrix; exact integer arithmetic decides singularity, rank, definiteness, conditioning and the null space, so the oracle never relies on the code under test. Residual tolerances are c*n*eps*norm with >=4x measured headroom.",
    note="Dense random 40x40 inputs are not reached (only structured families up to n=40); tolerances calibrated on the tree with the D1-D3 defects repaired.",
)
CHECKS["C02"] = dict(
    engine="E1",
    technique="exhaustive enumeration of symmetric and general lattice matrices (n<=3 over a 5-letter alphabet, n=4 ternary, n=5 in thorough) x scales x {f64,f32}, plus structured families to n=12 (30): diagonal, block-diagonal, repeated eigenvalues, Toeplitz, cyclic-shift permutations, companion, rotation blocks, badly balanced, circulants; trace / trace-of-square / eigenpair-residual / orthonormality / closed-form-spectrum oracle",
    text="Deflation, exceptional shifts, complex-pair back-substitution and balancing are reached by specific small or structured matrices (cyclic permutations, nilpotent and defective lattice matrices) that a random test never produces; the oracle uses only backward-stable identities (traces are exact for integer inputs) so defective matrices are judged fairly.",
    note="General-solver eigenvector bound 256*n*eps*max(1,(n/4)^2) (non-normal growth of elmhes); dense random n=30 not reached.",
)
CHECKS["C03"] = dict(
    engine="E1+E2",
    technique="exhaustive enumeration of every BaseMatrix/BaseVector/stats/high-order operation over all shapes <=8x8 (12x12) x 20 structured fills + every ternary fill up to 9 (14) cells, every ordered pair of shapes for binary operations, every slice/reshape/take argument, softmax and offset-variance alphabets, against a row-major reference model; explicit-state BFS over operation chains (18 actions, depth 4 (5)) on the real matrix object",
    text="Index-coded entries make any row/column-major mix-up, swapped dimension or wrong transpose flag visible; the chain search starts operations from non-initial states (reshape after transpose, stack after slice) and checks the logical view and in-place vs copying variants in every reachable state.",
    note="Shapes above 12x12 and chains longer than 5 are not reached; argmax ties accept any maximiser.",
)
CHECKS["C11"] = dict(
    engine="E1",
    technique="exhaustive enumeration of naive-Bayes training sets over each variant's small alphabet (n<=4 (5) rows, p<=2, every labelling, 4 label-value maps, alpha in {0.01,1,5}, priors on/off, binarisation thresholds incl. a negative one; a tight-well-separated-clusters Gaussian alphabet), structured families to 120 rows / 8 features / 5 classes, and offset lattices; closed-form sufficient-statistics and MAP oracle",
    text="Fitted statistics are compared with closed forms written from the statement (exact rational, then ln); predictions must be in the arg-max set of the reference MAP score (ties: any). Non-contiguous and negative label values, empty categorical classes, skewed priors and user priors are all enumerated.",
    note="Rows with values unseen in training are compared but not judged (outside the statement); Gaussian instances with zero within-class variance are outside 'valid training set'.",
)
CHECKS["C04"] = dict(
    engine="E1+E2",
    technique="exhaustive enumeration of every point sequence of 1..5 (6) points on the 3x3 lattice and the 1-D lattice (plus scale-boundary and structured sets to n=200) x every query on the half-step grid x every k x every realised radius and its neighbours x 4 metrics x {cover tree, linear scan}, judged against brute force with the same distance object; k-NN estimators over every small labelled data set; explicit-state BFS over the real HeapSelection",
    text="Construction order matters for the cover tree (element 0 is the root), so sequences are enumerated; lattices make exact ties and duplicates the norm. Results must be exactly k entries with true index/distance/point and the k smallest distances (ties in the library's favour); radius results must be exactly the points within r; estimators must predict a weighted plurality / mean over SOME valid k-nearest set.",
    note="Continuous random clouds are reached only through structured families; the 'boundary-rounding' input class is reserved for misses within 32 eps of the pruning bound on non-dyadic distances.",
)
CHECKS["C05"] = dict(
    engine="E1",
    technique="exhaustive enumeration of training sets (p=1: all x in {0,1,2}^n x all labels/targets, n<=5 (6); p=2: n<=3 (4); all permutations of distinct values; adjacent-double and scaled variants; structured sets of 8..150 rows, n=150 also in the quick tier) x 3 criteria x max_depth x min_samples_leaf x min_samples_split; tree read back through serde and judged by a brute-force greedy-optimality / routing / leaf-content oracle; every vector over {0..3}^n n<=10 for the arg-sort",
    text="Every clause of the statement is checked on every tree: routing reproduces predict, each leaf's output is a majority / mean of exactly the rows routed to it, leaf sizes and depth respect the limits, every regression split attains the brute-force best SSE reduction among admissible thresholds (ties by gain), growth is complete, classification optimality under msl=1 and distinct values, determinism and power-of-two scaling invariance.",
    note="Quantifier sizes (150 rows, 6 features) are reached only through structured families; gain comparisons at relative 1e-9.",
)
CHECKS["C20"] = dict(
    engine="E1+E2",
    technique="one generic evaluator instantiated at DenseMatrix, ndarray::Array2 and nalgebra::DMatrix: exhaustive enumeration of every BaseMatrix/BaseVector/stats/high-order method over all shapes <=4x4 (8x8) x 4 value alphabets x {fresh, transposed-layout} operands x every compatible and incompatible operand-shape pair, compared with a row-major reference model and across backends; lock-step explicit-state BFS over operation chains (16 actions, depth 3 (5)); 22 estimators and 6 decompositions on lattice catalogues across the three backends with a CPU-time termination guard",
    text="Backend equivalence is a differential property: the same finite set of operations and inputs is executed on all three backends and every result is compared with the reference model and with the other backends (panic/no-panic must agree). Transposed operands exercise non-standard memory layouts; all-negative / all-positive alphabets exercise the reductions the statement names.",
    note="Lasso / elastic-net fits on the two bindings run in a child process with a 0.25 s CPU deadline (they hang on the unchanged tree: known findings). Tolerances as in the owning properties; logistic regression 1e-5.",
)
CHECKS["C14"] = dict(
    engine="E1",
    technique="exhaustive enumeration of data matrices (n in 2..4 (5), p in 1..3 (4) over small alphabets incl. non-dyadic {0,0.1},{0,1/3}; both n>p and n<=p) x every k x {covariance, correlation}, truncated SVD for every k<p and k=p -> Err, plus structured families to n=80, p=8; Jacobi-eigenvalue oracle for captured variance, orthonormality, decorrelation, ordering and affinity of the transforms",
    text="Both code paths (SVD for n>p, symmetric EVD otherwise) and exact rank deficiency are reached by small lattice matrices; the captured variance of the first k components is compared with the k largest eigenvalues of the sample covariance computed by an independent cyclic Jacobi method, which is the optimality statement itself.",
    note="Tolerances 1e-9*trace with >=10x measured headroom; the covariance divisor convention in correlation mode is not pinned by the statement.",
)
CHECKS["C09"] = dict(
    engine="E1",
    technique="exhaustive enumeration of logistic-regression training sets (p=1: sorted multisets of 6 (x,label) pairs over a 4-letter alphabet, 2 and 3 classes, all orders for n=4; p=2 on a 2x2 lattice; feature maps a*x+b; alpha in {0,1e-2,1,10}; ugly label bijections; structured sets to n=100, p=6, 4 classes) with a harness-side gradient/objective oracle (stable log-sum-exp), and of SPD quadratics (diagonal / rotated / tridiagonal spectra, cond<=1e4, dimension 1..12, all lattice starts for d<=3) driven through the re-exported L-BFGS with recording closures",
    text="Stationarity is checked against the gradient recomputed independently at the returned parameters relative to its size at the all-zero start; monotonicity against the starting objective; predictions against the arg-max of the harness's own linear scores. For the minimiser, the accepted iterates are exactly the points handed to the gradient closure, so the harness records them and checks the objective never increases and the gradient drops by >=1e6.",
    note="Stationarity threshold 1e-3 relative (calibrated worst case 3.2e-5 on the plain lattice); quadratics normalised to smallest eigenvalue >= 1 (g_atol is absolute).",
)
CHECKS["C07"] = dict(
    engine="E1",
    technique="exhaustive enumeration of design matrices (every X over {0,1,-1,2} for p=1,n=2..4 and p=2,n=3; ternary p=2,n=4; larger in thorough; exact-rank domain decision) x every y over {0,-1,2}^n x 9 model configurations (OLS QR/SVD; ridge alpha in {1e-3,.1,1,100} x normalise on/off, Cholesky/SVD) x {f64,f32}, plus Chebyshev-Vandermonde / indicator / ramp designs for p=1..8, n up to 80, 6 scale x 6 mean patterns; residual-orthogonality / objective-gradient / solver-agreement / predict oracle in compensated f64",
    text="The minimiser claims are first-order conditions, so the check recomputes the gradient of the stated objective (standardised columns and free intercept, or raw columns with b=0) at the reported (w,b) for every fit, compares the two solvers, and checks predict row by row on the training matrix and on a probe matrix of another size. Backward-error tolerances with >=6.5x measured headroom.",
    note="Condition-number domain (<=1e6 f64, <=1e3 f32) decided by the oracle's own Jacobi singular values; dense random designs not reached.",
)
CHECKS["C19"] = dict(
    engine="E1",
    technique="exhaustive enumeration of a finite catalogue: 162 serialisable type configurations x {f64,f32} x 6 lattice data sets x value variants x {bincode, JSON}; every DenseMatrix shape x 5 value patterns x 9 serial forms (incl. the JSON map form in all 6 field orders); every unordered pair of 5 'twin' data sets per subject for inequality; every small n x p matrix x every two-class labelling ('micro'); round-trip / equality / answer-identity oracle",
    text="Catalogue enumeration is the weakest use of the family in this document, but it is a complete enumeration of a stated finite space judged by a differential oracle: restored == original, Debug rendering unchanged (catches private fields), re-serialisation byte-identical, answers bit-identical on the whole query lattice (JSON: unless decimal rounding changed a bit), m == m, m == refit, m != model fitted on different rows and targets. Randomised estimators are fitted under the owned RNG.",
    note="Lasso/ElasticNet left out of the micro families (termination belongs to C08); iterative solvers without extreme-scale variants.",
)
CHECKS["C08"] = dict(
    engine="E1",
    technique="exhaustive enumeration of Lasso / elastic-net problems (p in {1,2} (3), n=p+1..p+3, every X over {0,1,-1,2} without / with a constant column, every y over {-2,0,1,3}^n, alpha in {1e-3,.1,1,10}, l1_ratio in {.25,.5,1}, target shifts {0,10,1e4}, tol in {1e-3,1e-4,1e-6}, normalise on/off, every invalid setting) judged against the EXACT minimum of the stated objective obtained by enumerating all 3^p sign patterns; per-case termination guard",
    text="The statement is 'within a small multiple of tol of the true minimum', so the oracle computes the true minimum (restricted least squares per sign pattern, minimum over all patterns) rather than trusting KKT bookkeeping; mapping back of coefficients and intercept, predict = Xw+b, l1_ratio=1 equals Lasso, target-shift invariance and every invalid setting returning Err are checked on the same cases; a fit that does not return is a violation of 'terminates'.",
    note="Slack 4*tol (calibrated worst case 1.0*tol over 277 M Lasso fits); designs with condition number > 1e4 are counted, not fitted; classes in which the unchanged library loops run under a 500 ms CPU-time guard on a helper thread.",
)

# ---- families added after rounds 3 and 4 of independently seeded changes (DESIGN.md §8)
_BUILD = " Parameter-builder family (shared mc-sc::builders): every subset x every order of the with_* calls of this property's parameter types, type-changing with_distance/with_kernel at every position, each resulting value compared field by field with the request."
_ENTRY = " Entry-path family (shared mc-sc::entry): trait fit/predict/transform entry points, a second matrix object with the same rows and the training rows in a larger query matrix must agree bit for bit with the inherent path on every 4-row data set over a 6-point lattice."
EXT = {
    "C03": " Every binary operation is also run with the very same object as both operands (aliasing).",
    "C04": " Ring / annulus layouts (up to 16 points around data[0], two radii, three orders) reach cover-tree nodes whose child radius exceeds the parent's (counted, with a floor)." + _BUILD + _ENTRY,
    "C05": _BUILD + _ENTRY,
    "C06": " Class-size family: every n = 4..120 x every two-class split and singleton-class layouts (the stratified bootstrap block sizes depend only on these)." + _BUILD + _ENTRY,
    "C07": " Parameters are also assembled through every order of builder calls and the struct literal; the built struct must carry the requested fields." + _BUILD + _ENTRY,
    "C08": _BUILD + _ENTRY,
    "C09": _BUILD + _ENTRY,
    "C10": " Kernels and Gram matrices are checked at 6 (offset, spacing) placements in f64 and f32 and for polynomial degrees 2, 3, 2.5 and 0.5." + _BUILD + _ENTRY,
    "C11": " Bernoulli thresholds >= 1 and < 0 on 0/1 data and a mixed alphabet containing exact 0 and 1." + _BUILD + _ENTRY,
    "C12": " The assignment and fit families are repeated translated by 2^27 and 1.7e9 (decisions are translation invariant)." + _BUILD + _ENTRY,
    "C13": _BUILD + _ENTRY,
    "C14": _BUILD + _ENTRY,
    "C15": " Length sweep n = 1..200 x k = 1..8 x constant / identical labellings for the cluster scores' special values.",
    "C16": _BUILD,
    "C17": " From-data Mahalanobis families shifted by up to 1e8 (f64) / 4096 (f32) with a translation-invariance check.",
    "C19": " Edge-model family (no support vectors, zero priors, alpha = 0, single-leaf trees, k = n, all-noise DBSCAN, exactly-zero coefficients) and a sixth inequality twin whose label set overlaps the original's partly.",
}
for _k, _v in EXT.items():
    CHECKS[_k]["text"] += _v

# ---- families added after seeded rounds 5-7
EXT2 = {
    "C01": " Quick structured families also at n = 16..40; every 3x3 matrix over {0,1,-1,t} / {0,1,2,-t} with a tiny entry t = 2^-30 (f32: 2^-12) and permuted 4x4 variants, with the clause max|L_ij| <= 1 (partial pivoting really picks a largest entry).",
    "C03": " 'Adjacent floats' fill family ({x, next_up(x), next_down(x)}) for unique / max / min / argmax / binarize / equality.",
    "C04": " Real-valued class-label tables (span = k-1 but not unit-spaced, fractional offsets, large adjacent integers) and offset regression targets.",
    "C05": " Real-valued class-label tables and regression targets with a large common offset (gains judged from centred targets).",
    "C06": " Fractional labels sharing integer parts, regressor row-count family n = 4..120 predicted in one call, OOB labels must be original labels even without an out-of-bag tree, identical fits are also compared with the library's `==` on a centred data set (thresholds exactly 0).",
    "C07": " Size grid p in {1,2,3,5,6,7,8} x n in {p+1,18,23,33,47,64,65,67,79,80} for OLS and all ridge configurations.",
    "C09": " Nearly separable (1-2 flipped samples) and clustered layouts for k = 2..4 at scale 1e2; non-dyadic label table.",
    "C10": " Stiff SVR problems needing 1e5..1e6 SMO steps; SVR with near-duplicate rows at large norms (termination: two inputs on which the unchanged library loops for ever are recorded as known findings, thorough tier only); kernel pairs also mirrored (b -> -b) and a second sigmoid parameter set.",
    "C11": " Decimal user priors (every ordered vector of positive tenths, k = 2..5); large adjacent integer labels beyond f32 resolution; Gaussian features with a large offset and tiny spread.",
    "C12": " Small-scale (2^-13, 2^-20) families with tolerances scaled to the data.",
    "C15": " AUC on scores one ulp apart and on scores scaled by 1e-17 / 2^-60; R^2 / MSE / MAE at scales 2^-30, 2^-13 and on targets 5 + k*1e-9; signed-zero labels in the length sweep.",
    "C16": " Call sequences (a shuffled split / cross-validation followed on the same thread by an unshuffled one) and deviation-bounded shuffles of large folds (n = 32..64).",
    "C17": " Mahalanobis at orders 12..30 with small variances (f32 and f64), from data with 17..113 rows, and vectors whose components differ by many orders of magnitude.",
    "C18": " Parameters also filled through the public field; extreme pass-through values (signed zeros, subnormals, sub-epsilon, largest magnitudes) compared bit for bit; invalid values next to the legal extreme codes 0 and 65535.",
    "C19": " Class-size family (4..7 classes, every size vector) for the count-based naive-Bayes subjects.",
    "C20": " Off-centre value alphabet (1e6 / 1e8 + code) for the statistics operations and the estimators consuming them; nearly-equal value alphabet {0.3, 0.1+0.2, 1, 1+eps} for unique / max / min / argmax / equality and as class labels.",
}
for _k, _v in EXT2.items():
    CHECKS[_k]["text"] += _v

# ---- families added after the hold-out round 9
EXT3 = {
    "C04": " f32 estimator spaces also at lattice steps 2^29 and 2^-24.",
    "C12": " All-schedule 1-D / 2-D fits also at scale 2^-30 (squared distances below machine epsilon).",
    "C13": " On a tie between unclustered neighbours and a cluster, predict must answer the cluster (noise only when unclustered points dominate).",
    "C14": " Correlation-mode column-scale profile with standard deviations 2^57 apart.",
    "C16": " cross_validate / cross_val_predict driven by a user-written splitter with listed, purged and reordered folds.",
    "C20": " Norm orders 0.5 and -1 next to 1, 2, 3, +-inf.",
}
for _k, _v in EXT3.items():
    CHECKS[_k]["text"] += _v
