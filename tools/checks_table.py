NOT_APPLICABLE = {}
CHECKS["C16"] = dict(
    engine="E1",
    technique="exhaustive enumeration of (n, k / test_size, shuffle schedule) executions of the real splitting code; RNG owned through the verif-hooks seam; deviation-bounded schedules above n=6",
    text="Every (n,k) with 2<=k<=n<=64 unshuffled, every permutation the shuffle can draw for n<=6 (n<=8 thorough) and every schedule with <=2 non-identity Fisher-Yates steps up to n=16, each judged by the partition / complement / block / leak oracle with a spy estimator. This is a complete enumeration of the stated bounds, which is the right level for index bookkeeping code whose defects are off-by-one and misplacement errors that show on small n.",
    note="Assumes the chooser-driven Fisher-Yates enumerates exactly the permutations rand's shuffle can produce; rows identified by content; n>64 and non-listed test sizes not explored.",
)
