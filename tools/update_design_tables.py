#!/usr/bin/env python3
"""Regenerates the two generated tables of DESIGN.md (tier results from the evidence files, seeded-change
results from seeded/*/runs.log)."""
import json, glob, os, re, subprocess
V = "/verif"
def ev(p):
    try: return json.load(open(p))
    except Exception: return None
rows = ["| id | quick: executions (+E2 states) | wall | known | thorough: executions (+E2 states) | wall | complete | known |", "|---|---|---|---|---|---|---|---|"]
for i in range(1, 21):
    c = f"C{i:02d}"
    q, t = ev(f"{V}/evidence/{c}.json"), ev(f"{V}/evidence/thorough/{c}.json")
    def cell(e):
        if not e: return ("-", "-", "-", "-")
        cv = e["coverage"]
        e2 = sum(x["states"] for x in cv.get("e2_searches", []))
        return (f"{cv['e1_executions']:,}" + (f" (+{e2:,})" if e2 else ""), f"{e['wall_s']:.0f} s", "yes" if cv.get("exhaustive") else "capped", str(len(cv.get("known_findings_seen", []))))
    qc, tc = cell(q), cell(t)
    rows.append(f"| {c} | {qc[0]} | {qc[1]} | {qc[3]} | {tc[0]} | {tc[1]} | {tc[2]} | {tc[3]} |")
tier = "\n".join(rows)
det = subprocess.run(["python3", f"{V}/tools/gen_detection_table.py"], capture_output=True, text=True).stdout
s = open(f"{V}/DESIGN.md").read()
s = re.sub(r"<!-- TIER-TABLE-BEGIN -->.*?<!-- TIER-TABLE-END -->", "<!-- TIER-TABLE-BEGIN -->\n" + tier.replace("\\", "\\\\") + "\n<!-- TIER-TABLE-END -->", s, flags=re.S)
s = re.sub(r"<!-- DETECTION-TABLE-BEGIN -->.*?<!-- DETECTION-TABLE-END -->", "<!-- DETECTION-TABLE-BEGIN -->\n" + det.replace("\\", "\\\\") + "<!-- DETECTION-TABLE-END -->", s, flags=re.S)
open(f"{V}/DESIGN.md", "w").write(s)
print("tables updated")
