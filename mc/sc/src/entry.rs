//! Entry points as a dimension of the input space.
//!
//! The library offers several public ways to reach the same functionality: the inherent
//! `Estimator::fit(&x, &y, params)` / `model.predict(&x)` / `model.transform(&x)`, the trait entry
//! points of `smartcore::api` (`SupervisedEstimator::fit`, `UnsupervisedEstimator::fit`,
//! `Predictor::predict`, `Transformer::transform`), copies of a model, and prediction on the very
//! matrix object the model was fitted on vs. on another matrix holding the same rows. The properties
//! quantify over all of them, while the main families of the harnesses use the inherent path. A
//! trait impl that forwards to the wrong inner method, drops the caller's parameters, or a copy that
//! forgets a field breaks a property for every caller of that entry point although the inherent
//! path (and each property's main family) is unaffected.
//!
//! `run(prop)` enumerates, for every estimator behind property `prop`, a small complete family of
//! (configuration, target pattern, data set) and demands that every other path gives results that
//! are bit-identical to the inherent path:
//!
//! | path key            | compared                                                                   |
//! |---------------------|----------------------------------------------------------------------------|
//! | `fit-result`        | `Ok` / `Err(msg)` / panic status of trait `fit` vs inherent `fit`          |
//! | `trait-fit`         | inherent predict of the trait-fitted model vs of the inherent-fitted model |
//! | `trait-fit-model`   | `trait_fitted == inherent_fitted` (when the model type has `PartialEq` and the inherent-fitted model equals itself) |
//! | `predictor-trait`   | `Predictor::predict(&m, &q)` vs `m.predict(&q)`                            |
//! | `transformer-trait` | `Transformer::transform(&m, &q)` vs `m.transform(&q)` (PCA, SVD)           |
//! | `clone`             | `m.clone().predict(&q)` vs `m.predict(&q)` (only when the model type has `Clone`; detected at compile time, counted as `entry_clone_not_implemented` otherwise) |
//! | `fresh-matrix`      | predict on a second matrix object built by another constructor from the same rows vs on the original object — for the query matrix and for the training matrix object itself |
//! | `single-row`        | each query row predicted alone in a 1 x p matrix vs inside the batch |
//! | `row-context`       | prediction of the training rows inside the training matrix vs inside the larger query matrix |
//!
//! Site keys are `entry.<Estimator>:<path>-differs`. Nothing here has an opinion on WHAT the
//! predictions should be (that is the job of each property's own oracle); an `Err` or a panic that
//! all paths share is not reported here (counted as `entry_both_paths_reject` /
//! `entry_inherent_path_panics`), one that only some paths show is.
//!
//! Fits that draw random numbers (SVC, KMeans) are made repeatable by answering every draw of the
//! `verif-hooks` seam with its default answer during both fits; the forests use their `seed`.

use mc_core as mc;
use mc_core::json;
use smartcore::error::Failed;
use smartcore::linalg::naive::dense_matrix::DenseMatrix;
use smartcore::verif_hooks as vh;

type DM = DenseMatrix<f64>;

// ---------------------------------------------------------------------------------------------
// compile-time detection of Clone / PartialEq on a concrete model type (autoref specialisation:
// works because the macros below name concrete types)

pub struct CloneProbe<'a, T>(pub &'a T);
pub trait ViaClone<T> {
    fn try_clone(&self) -> Option<T>;
}
impl<'a, T: Clone> ViaClone<T> for CloneProbe<'a, T> {
    fn try_clone(&self) -> Option<T> {
        Some(self.0.clone())
    }
}
pub trait ViaNoClone<T> {
    fn try_clone(&self) -> Option<T>;
}
impl<'a, T> ViaNoClone<T> for &CloneProbe<'a, T> {
    fn try_clone(&self) -> Option<T> {
        None
    }
}

pub struct EqProbe<'a, T>(pub &'a T, pub &'a T);
pub trait ViaEq {
    fn try_eq(&self) -> Option<bool>;
}
impl<'a, T: PartialEq> ViaEq for EqProbe<'a, T> {
    fn try_eq(&self) -> Option<bool> {
        Some(self.0 == self.1)
    }
}
pub trait ViaNoEq {
    fn try_eq(&self) -> Option<bool>;
}
impl<'a, T> ViaNoEq for &EqProbe<'a, T> {
    fn try_eq(&self) -> Option<bool> {
        None
    }
}

// ---------------------------------------------------------------------------------------------
// what a path returned

#[derive(Clone, PartialEq, Debug)]
enum Out {
    /// bit patterns (all NaNs identified; -0.0 and 0.0 are different)
    Ok(Vec<u64>),
    Err(String),
    Panic(String),
}

fn bits(x: f64) -> u64 {
    if x.is_nan() {
        0x7ff8_0000_0000_0000
    } else {
        x.to_bits()
    }
}

fn out_of(r: Result<Result<Vec<f64>, Failed>, mc::PanicInfo>) -> Out {
    match r {
        Ok(Ok(v)) => Out::Ok(v.iter().map(|x| bits(*x)).collect()),
        Ok(Err(e)) => Out::Err(format!("{}", e)),
        Err(p) => Out::Panic(p.brief()),
    }
}

fn show(o: &Out) -> String {
    match o {
        Out::Ok(v) => format!("{:?}", v.iter().map(|b| f64::from_bits(*b)).collect::<Vec<_>>()),
        Out::Err(e) => format!("Err({})", e),
        Out::Panic(p) => format!("PANIC({})", p),
    }
}

fn first_difference(a: &Out, b: &Out) -> String {
    if let (Out::Ok(x), Out::Ok(y)) = (a, b) {
        if x.len() != y.len() {
            return format!("lengths {} vs {}", x.len(), y.len());
        }
        if let Some(i) = (0..x.len()).find(|i| x[*i] != y[*i]) {
            return format!("first at index {}: {:e} vs {:e}", i, f64::from_bits(x[i]), f64::from_bits(y[i]));
        }
    }
    "different kind of result".into()
}

fn hash_out(o: &Out) -> u64 {
    match o {
        Out::Ok(v) => mc::hash::h_u64s(v),
        Out::Err(e) => mc::hash::mix(1, mc::hash::h_str(e)),
        Out::Panic(p) => mc::hash::mix(2, mc::hash::h_str(p)),
    }
}

/// a transformed matrix as a flat vector: [rows, cols, row-major values]
fn flat(m: DM) -> Vec<f64> {
    let r = crate::rows_of(&m);
    let mut v = vec![r.len() as f64, r.first().map(|x| x.len()).unwrap_or(0) as f64];
    v.extend(r.into_iter().flatten());
    v
}

// ---------------------------------------------------------------------------------------------
// the data family

/// The lattices training rows are drawn from and the lattices of extra query rows.
#[derive(Clone, Copy, Debug)]
enum Data {
    /// training rows from {0,1,2}x{0,1}, queries {0,1,2}^2
    L6,
    /// training rows from {0,1}^2, queries {0,1}^2
    B4,
    /// training rows from {0,1,3}x{0,2}, queries {0,1,2,3}^2
    W6,
    /// like L6, followed by the three fixed rows (3,0), (4,1), (8,0): with them k-means needs more
    /// than one pass on most of the sets, so that `max_iter` matters
    L6X,
}

impl Data {
    fn train_points(self) -> Vec<Vec<f64>> {
        match self {
            Data::L6 | Data::L6X => (0..6).map(|i| vec![(i % 3) as f64, (i / 3) as f64]).collect(),
            Data::B4 => (0..4).map(|i| vec![(i % 2) as f64, (i / 2) as f64]).collect(),
            Data::W6 => (0..6).map(|i| vec![[0.0, 1.0, 3.0][i % 3], [0.0, 2.0][i / 3]]).collect(),
        }
    }
    fn fixed_rows(self) -> Vec<Vec<f64>> {
        match self {
            Data::L6X => vec![vec![3.0, 0.0], vec![4.0, 1.0], vec![8.0, 0.0]],
            _ => Vec::new(),
        }
    }
    fn query_points(self) -> Vec<Vec<f64>> {
        let side = match self {
            Data::L6 | Data::L6X => 3,
            Data::B4 => 2,
            Data::W6 => 4,
        };
        (0..side * side).map(|i| vec![(i % side) as f64, (i / side) as f64]).collect()
    }
}

/// number of chosen training rows
const N_ROWS: usize = 4;

/// class labels: two classes in blocks, two classes with negative / unsorted labels, three classes
const CLASS: &[[f64; 4]] = &[[0.0, 0.0, 1.0, 1.0], [5.0, -3.0, 5.0, -3.0], [2.0, 0.0, 1.0, 0.0]];
/// class labels that are valid category codes (CategoricalNB takes them as indices)
const CODES: &[[f64; 4]] = &[[0.0, 0.0, 1.0, 1.0], [1.0, 0.0, 1.0, 0.0], [2.0, 0.0, 1.0, 0.0]];
/// two-class label patterns only (SVC, class priors of length 2)
const BINARY: &[[f64; 4]] = &[[0.0, 0.0, 1.0, 1.0], [1.0, 0.0, 1.0, 0.0], [5.0, -3.0, 5.0, -3.0]];
/// real targets
const REAL: &[[f64; 4]] = &[[0.0, 1.0, 3.0, 2.0], [-2.5, 0.5, 4.0, 0.25]];
/// no target (unsupervised estimators)
const NONE: &[[f64; 4]] = &[[0.0; 4]];

struct Case {
    data: Data,
    rows: Vec<Vec<f64>>,
    y: Vec<f64>,
    queries: Vec<Vec<f64>>,
    supervised: bool,
}

/// One (target pattern, data set) of the family: the target pattern and each of the four rows are
/// explorer choices, so every combination is visited.
fn draw_case(data: Data, targets: &[[f64; 4]], supervised: bool) -> Case {
    let y = targets[mc::choose(targets.len())].to_vec();
    let pts = data.train_points();
    let mut rows: Vec<Vec<f64>> = (0..N_ROWS).map(|_| pts[mc::choose(pts.len())].clone()).collect();
    rows.extend(data.fixed_rows());
    let mut queries = data.query_points();
    queries.extend(rows.iter().cloned());
    Case { data, rows, y, queries, supervised }
}

// ---------------------------------------------------------------------------------------------
// the check

type FitFn<'a, M> = &'a dyn Fn(&DM, &Vec<f64>) -> Result<M, Failed>;
type PredFn<'a, M> = &'a dyn Fn(&M, &DM) -> Result<Vec<f64>, Failed>;

struct Paths<'a, M> {
    est: &'static str,
    /// answer the library's random draws with the default schedule during fit
    own_rng: bool,
    /// the prediction-like operation is `transform`
    transform: bool,
    fit: FitFn<'a, M>,
    fit_trait: FitFn<'a, M>,
    predict: PredFn<'a, M>,
    predict_trait: PredFn<'a, M>,
    try_clone: &'a dyn Fn(&M) -> Option<M>,
    try_eq: &'a dyn Fn(&M, &M) -> Option<bool>,
}

enum Fit<M> {
    Model(M),
    Err(String),
    Panic(String),
}

fn guarded_fit<M>(own_rng: bool, f: FitFn<M>, x: &DM, y: &Vec<f64>) -> Fit<M> {
    if own_rng {
        vh::install(Box::new(|_site, _n| 0));
    }
    let r = mc::guard(|| f(x, y));
    if own_rng {
        vh::clear();
    }
    match r {
        Ok(Ok(m)) => Fit::Model(m),
        Ok(Err(e)) => Fit::Err(format!("{}", e)),
        Err(p) => Fit::Panic(p.brief()),
    }
}

fn fit_kind<M>(f: &Fit<M>) -> String {
    match f {
        Fit::Model(_) => "Ok(model)".into(),
        Fit::Err(e) => format!("Err({})", e),
        Fit::Panic(p) => format!("PANIC({})", p),
    }
}

fn check<M>(p: &Paths<M>, config: &str, case: &Case) {
    let op = if p.transform { "transform" } else { "predict" };
    let x: DM = crate::dm(&case.rows);
    let q: DM = crate::dm(&case.queries);
    // the same rows in other matrix objects, built by another constructor
    let x_fresh: DM = DenseMatrix::from_2d_vec(&case.rows);
    let q_fresh: DM = DenseMatrix::from_2d_vec(&case.queries);
    let context = || {
        format!(
            "{} {} fitted on rows {:?}{}",
            p.est,
            config,
            case.rows,
            if case.supervised { format!(" y {:?}", case.y) } else { String::new() }
        )
    };
    mc::count("entry_cases");

    // (1) the two fit entry points
    let a = guarded_fit(p.own_rng, p.fit, &x, &case.y);
    let b = guarded_fit(p.own_rng, p.fit_trait, &x, &case.y);
    let (ka, kb) = (fit_kind(&a), fit_kind(&b));
    if ka != kb {
        mc::violation(format!("entry.{}:fit-result-differs", p.est), format!("{}: inherent fit gives {} but the trait entry point gives {}", context(), ka, kb));
    }
    mc::describe(|| json!({"op": "entry points", "estimator": p.est, "config": config, "data_family": format!("{:?}", case.data), "rows": case.rows, "y": if case.supervised { json!(case.y) } else { json!(null) }, "queries": case.queries, "inherent_fit": ka, "trait_fit": kb}));
    let ma = match a {
        Fit::Model(m) => m,
        Fit::Err(e) => {
            if ka == kb {
                mc::count("entry_both_paths_reject");
            }
            mc::outcome(mc::hash::mix(3, mc::hash::h_str(&e)));
            return;
        }
        Fit::Panic(e) => {
            mc::count("entry_inherent_path_panics");
            mc::outcome(mc::hash::mix(4, mc::hash::h_str(&e)));
            return;
        }
    };
    let pred = |m: &M, on: &DM, f: PredFn<M>| out_of(mc::guard(|| f(m, on)));
    let base = pred(&ma, &q, p.predict);
    mc::outcome(hash_out(&base));
    mc::nontrivial();
    match &base {
        Out::Ok(_) => mc::count("entry_inherent_predict_ok"),
        Out::Err(_) => mc::count("entry_inherent_predict_err"),
        Out::Panic(_) => mc::count("entry_inherent_path_panics"),
    }
    let differs = |path: &str, what: &str, got: &Out, want: &Out| {
        mc::violation(
            format!("entry.{}:{}-differs", p.est, path),
            format!("{}: {} gives {} but the inherent path gives {} ({}); query rows {:?}", context(), what, show(got), show(want), first_difference(got, want), case.queries),
        );
    };

    // (1) + (5): the trait-fitted model
    if let Fit::Model(mb) = &b {
        mc::count("entry_cases_trait_fit");
        let via = pred(mb, &q, p.predict);
        if via != base {
            differs("trait-fit", &format!("the model fitted through the trait entry point, inherent {}", op), &via, &base);
        }
        match ((p.try_eq)(&ma, &ma), mc::guard(|| (p.try_eq)(mb, &ma))) {
            (Some(true), Ok(Some(eq))) => {
                mc::count("entry_cases_model_eq");
                if !eq {
                    mc::violation(format!("entry.{}:trait-fit-model-differs", p.est), format!("{}: the model fitted through the trait entry point != the model fitted through the inherent one (which equals itself)", context()));
                }
            }
            (Some(false), _) => mc::count("entry_model_not_equal_to_itself"),
            (None, _) | (_, Ok(None)) => mc::count("entry_eq_not_implemented"),
            (_, Err(pi)) => mc::violation(format!("entry.{}:trait-fit-model-differs", p.est), format!("{}: comparing the two fitted models panics: {}", context(), pi.brief())),
        }
    }

    // (2) the trait prediction entry point
    mc::count("entry_cases_predictor_trait");
    let via = pred(&ma, &q, p.predict_trait);
    if via != base {
        let (path, name) = if p.transform { ("transformer-trait", "Transformer::transform") } else { ("predictor-trait", "Predictor::predict") };
        differs(path, name, &via, &base);
    }

    // (3) a copy of the model
    match mc::guard(|| (p.try_clone)(&ma)) {
        Ok(Some(mc_)) => {
            mc::count("entry_cases_clone");
            let via = pred(&mc_, &q, p.predict);
            if via != base {
                differs("clone", &format!("model.clone().{}", op), &via, &base);
            }
            if let (Some(true), Some(false)) = ((p.try_eq)(&ma, &ma), (p.try_eq)(&mc_, &ma)) {
                mc::violation(format!("entry.{}:clone-differs", p.est), format!("{}: model.clone() != model (which equals itself)", context()));
            }
        }
        Ok(None) => mc::count("entry_clone_not_implemented"),
        Err(pi) => mc::violation(format!("entry.{}:clone-differs", p.est), format!("{}: model.clone() panics: {}", context(), pi.brief())),
    }

    // (4) other matrix objects holding the same rows
    mc::count("entry_cases_fresh_matrix");
    let via = pred(&ma, &q_fresh, p.predict);
    if via != base {
        differs("fresh-matrix", &format!("{} on a second matrix object with the same query rows", op), &via, &base);
    }
    let on_train = pred(&ma, &x, p.predict);
    let on_train_fresh = pred(&ma, &x_fresh, p.predict);
    if on_train_fresh != on_train {
        mc::violation(
            format!("entry.{}:fresh-matrix-differs", p.est),
            format!("{}: {} on the training matrix object gives {} but on another matrix with the same rows {} ({})", context(), op, show(&on_train), show(&on_train_fresh), first_difference(&on_train_fresh, &on_train)),
        );
    }
    // (6) a ONE-ROW query matrix: every query row predicted alone must get the value it gets in the
    // batch (fast paths for single-row operands must not change results)
    if !p.transform {
        if let Out::Ok(all) = &base {
            if all.len() == case.queries.len() {
                mc::count("entry_cases_single_row");
                for (i, row) in case.queries.iter().enumerate() {
                    let one: DM = crate::dm(std::slice::from_ref(row));
                    match pred(&ma, &one, p.predict) {
                        Out::Ok(v) if v.len() == 1 && v[0] == all[i] => {}
                        other => {
                            mc::violation(
                                format!("entry.{}:single-row-differs", p.est),
                                format!("{}: {} of the single row {:?} gives {} but inside the batch of {} query rows it gets {}", context(), op, row, show(&other), case.queries.len(), show(&Out::Ok(vec![all[i]]))),
                            );
                            break;
                        }
                    }
                }
            }
        }
    }
    // the training rows are the last rows of the query matrix
    if let (Out::Ok(t), Out::Ok(all)) = (&on_train, &base) {
        mc::count("entry_cases_row_context");
        let n_train = case.rows.len();
        let same = if p.transform {
            // [rows, cols, values...]
            let cols = t.get(1).map(|b| f64::from_bits(*b) as usize).unwrap_or(0);
            all.len() >= 2 && t.len() >= 2 && all[1] == t[1] && t[2..] == all[all.len() - n_train * cols..]
        } else {
            t.len() == n_train && all.len() == case.queries.len() && t[..] == all[all.len() - n_train..]
        };
        if !same {
            mc::violation(
                format!("entry.{}:row-context-differs", p.est),
                format!("{}: {} of the training matrix gives {} but the same rows at the end of the query matrix {:?} give {}", context(), op, show(&on_train), case.queries, show(&base)),
            );
        }
    }
}

// ---------------------------------------------------------------------------------------------
// binding the paths of one concrete estimator type (the trait paths are named explicitly and the
// traits are NOT imported, so `m.predict(..)` / `<M>::fit(..)` can only be the inherent items)

macro_rules! supervised {
    ($est:literal, $M:ty, $P:ty, $params:expr, own_rng = $rng:expr, $data:expr, $targets:expr) => {{
        let p: $P = $params;
        let config = format!("{:?}", p);
        let (p1, p2) = (p.clone(), p);
        let case = draw_case($data, $targets, true);
        check::<$M>(
            &Paths {
                est: $est,
                own_rng: $rng,
                transform: false,
                fit: &move |x, y| <$M>::fit(x, y, p1.clone()),
                fit_trait: &move |x, y| <$M as smartcore::api::SupervisedEstimator<DM, Vec<f64>, $P>>::fit(x, y, p2.clone()),
                predict: &|m, x| m.predict(x),
                predict_trait: &|m, x| <$M as smartcore::api::Predictor<DM, Vec<f64>>>::predict(m, x),
                try_clone: &|m| (&CloneProbe(m)).try_clone(),
                try_eq: &|a, b| (&EqProbe(a, b)).try_eq(),
            },
            &config,
            &case,
        )
    }};
}

macro_rules! clusterer {
    ($est:literal, $M:ty, $P:ty, $params:expr, own_rng = $rng:expr, $data:expr) => {{
        let p: $P = $params;
        let config = format!("{:?}", p);
        let (p1, p2) = (p.clone(), p);
        let case = draw_case($data, NONE, false);
        check::<$M>(
            &Paths {
                est: $est,
                own_rng: $rng,
                transform: false,
                fit: &move |x, _y| <$M>::fit(x, p1.clone()),
                fit_trait: &move |x, _y| <$M as smartcore::api::UnsupervisedEstimator<DM, $P>>::fit(x, p2.clone()),
                predict: &|m, x| m.predict(x),
                predict_trait: &|m, x| <$M as smartcore::api::Predictor<DM, Vec<f64>>>::predict(m, x),
                try_clone: &|m| (&CloneProbe(m)).try_clone(),
                try_eq: &|a, b| (&EqProbe(a, b)).try_eq(),
            },
            &config,
            &case,
        )
    }};
}

macro_rules! transformer {
    ($est:literal, $M:ty, $P:ty, $params:expr, $data:expr) => {{
        let p: $P = $params;
        let config = format!("{:?}", p);
        let (p1, p2) = (p.clone(), p);
        let case = draw_case($data, NONE, false);
        check::<$M>(
            &Paths {
                est: $est,
                own_rng: false,
                transform: true,
                fit: &move |x, _y| <$M>::fit(x, p1.clone()),
                fit_trait: &move |x, _y| <$M as smartcore::api::UnsupervisedEstimator<DM, $P>>::fit(x, p2.clone()),
                predict: &|m, x| m.transform(x).map(flat),
                predict_trait: &|m, x| <$M as smartcore::api::Transformer<DM>>::transform(m, x).map(flat),
                try_clone: &|m| (&CloneProbe(m)).try_clone(),
                try_eq: &|a, b| (&EqProbe(a, b)).try_eq(),
            },
            &config,
            &case,
        )
    }};
}

// ---------------------------------------------------------------------------------------------
// the estimators and configurations of each property. Every configuration differs from
// `Default::default()` in a field that changes the result on this data family (except where a
// second configuration of the same estimator does), so that an entry point that drops the caller's
// parameters cannot go unnoticed.

const C04_PARTS: usize = 16;
fn c04(part: usize) {
    use smartcore::algorithm::neighbour::KNNAlgorithmName as A;
    use smartcore::math::distance::euclidian::Euclidian;
    use smartcore::neighbors::knn_classifier::{KNNClassifier, KNNClassifierParameters};
    use smartcore::neighbors::knn_regressor::{KNNRegressor, KNNRegressorParameters};
    use smartcore::neighbors::KNNWeightFunction as W;
    let algorithm = if part & 1 == 0 { A::LinearSearch } else { A::CoverTree };
    let weight = if part & 2 == 0 { W::Uniform } else { W::Distance };
    // (k = 1 is rejected by both estimators)
    let k = if part & 4 == 0 { 2 } else { 3 };
    if part & 8 == 0 {
        type P = KNNClassifierParameters<f64, Euclidian>;
        let mut p = P::default();
        p.algorithm = algorithm;
        p.weight = weight;
        p.k = k;
        supervised!("KNNClassifier", KNNClassifier<f64, Euclidian>, P, p, own_rng = false, Data::L6, CLASS)
    } else {
        type P = KNNRegressorParameters<f64, Euclidian>;
        let mut p = P::default();
        p.algorithm = algorithm;
        p.weight = weight;
        p.k = k;
        supervised!("KNNRegressor", KNNRegressor<f64, Euclidian>, P, p, own_rng = false, Data::L6, REAL)
    }
}

const C05_PARTS: usize = 5;
fn c05(part: usize) {
    use smartcore::tree::decision_tree_classifier::{DecisionTreeClassifier, DecisionTreeClassifierParameters as CP, SplitCriterion};
    use smartcore::tree::decision_tree_regressor::{DecisionTreeRegressor, DecisionTreeRegressorParameters as RP};
    match part {
        0..=2 => {
            let mut p = CP::default();
            match part {
                0 => p.criterion = SplitCriterion::Entropy,
                1 => p.max_depth = Some(1),
                _ => {
                    p.criterion = SplitCriterion::ClassificationError;
                    p.min_samples_leaf = 2;
                }
            }
            supervised!("DecisionTreeClassifier", DecisionTreeClassifier<f64>, CP, p, own_rng = false, Data::L6, CLASS)
        }
        _ => {
            let mut p = RP::default();
            if part == 3 {
                p.max_depth = Some(1);
            } else {
                p.min_samples_leaf = 2;
                p.min_samples_split = 3;
            }
            supervised!("DecisionTreeRegressor", DecisionTreeRegressor<f64>, RP, p, own_rng = false, Data::L6, REAL)
        }
    }
}

const C06_PARTS: usize = 4;
fn c06(part: usize) {
    use smartcore::ensemble::random_forest_classifier::{RandomForestClassifier, RandomForestClassifierParameters as CP};
    use smartcore::ensemble::random_forest_regressor::{RandomForestRegressor, RandomForestRegressorParameters as RP};
    // fixed seeds: the forests seed their own generator, no draw is left to the environment
    if part < 2 {
        let mut p = CP::default();
        p.n_trees = 3;
        p.seed = 7;
        if part == 1 {
            p.m = Some(1);
            p.max_depth = Some(1);
            p.seed = 11;
        }
        supervised!("RandomForestClassifier", RandomForestClassifier<f64>, CP, p, own_rng = false, Data::L6, CLASS)
    } else {
        let mut p = RP::default();
        p.n_trees = 3;
        p.seed = 7;
        if part == 3 {
            p.m = Some(1);
            p.max_depth = Some(1);
            p.seed = 11;
        }
        supervised!("RandomForestRegressor", RandomForestRegressor<f64>, RP, p, own_rng = false, Data::L6, REAL)
    }
}

const C07_PARTS: usize = 4;
fn c07(part: usize) {
    use smartcore::linear::linear_regression::{LinearRegression, LinearRegressionParameters as LP, LinearRegressionSolverName};
    use smartcore::linear::ridge_regression::{RidgeRegression, RidgeRegressionParameters as RP, RidgeRegressionSolverName};
    match part {
        0 | 1 => {
            let mut p = LP::default();
            p.solver = if part == 0 { LinearRegressionSolverName::QR } else { LinearRegressionSolverName::SVD };
            supervised!("LinearRegression", LinearRegression<f64, DM>, LP, p, own_rng = false, Data::L6, REAL)
        }
        _ => {
            let mut p = RP::<f64>::default();
            if part == 2 {
                p.alpha = 0.5;
            } else {
                p.solver = RidgeRegressionSolverName::SVD;
                p.alpha = 2.0;
                p.normalize = false;
            }
            supervised!("RidgeRegression", RidgeRegression<f64, DM>, RP<f64>, p, own_rng = false, Data::L6, REAL)
        }
    }
}

const C08_PARTS: usize = 4;
fn c08(part: usize) {
    use smartcore::linear::elastic_net::{ElasticNet, ElasticNetParameters as EP};
    use smartcore::linear::lasso::{Lasso, LassoParameters as LP};
    if part < 2 {
        let mut p = LP::<f64>::default();
        if part == 0 {
            p.alpha = 0.25;
        } else {
            p.alpha = 0.5;
            p.normalize = false;
            p.tol = 1e-3;
            p.max_iter = 50;
        }
        supervised!("Lasso", Lasso<f64, DM>, LP<f64>, p, own_rng = false, Data::L6, REAL)
    } else {
        let mut p = EP::<f64>::default();
        if part == 2 {
            p.alpha = 0.25;
            p.l1_ratio = 0.75;
        } else {
            p.alpha = 0.5;
            p.l1_ratio = 0.25;
            p.normalize = false;
            p.tol = 1e-3;
            p.max_iter = 50;
        }
        supervised!("ElasticNet", ElasticNet<f64, DM>, EP<f64>, p, own_rng = false, Data::L6, REAL)
    }
}

const C09_PARTS: usize = 2;
fn c09(part: usize) {
    use smartcore::linear::logistic_regression::{LogisticRegression, LogisticRegressionParameters as LP};
    // CLASS holds two binary patterns and one with three classes
    let mut p = LP::<f64>::default();
    p.alpha = if part == 0 { 0.5 } else { 2.0 };
    supervised!("LogisticRegression", LogisticRegression<f64, DM>, LP<f64>, p, own_rng = false, Data::L6, CLASS)
}

const C10_PARTS: usize = 4;
fn c10(part: usize) {
    use smartcore::svm::svc::{SVCParameters, SVC};
    use smartcore::svm::svr::{SVRParameters, SVR};
    use smartcore::svm::{Kernels, LinearKernel, RBFKernel};
    match part {
        // the SVC trainer visits the samples in a random order: both fits are given the default
        // (identity) order through the verif-hooks seam
        0 => {
            type P = SVCParameters<f64, DM, LinearKernel>;
            let mut p = P::default();
            p.c = 0.5;
            p.epoch = 3;
            supervised!("SVC", SVC<f64, DM, LinearKernel>, P, p, own_rng = true, Data::L6, BINARY)
        }
        1 => {
            type P = SVCParameters<f64, DM, RBFKernel<f64>>;
            let mut p: P = SVCParameters::<f64, DM, LinearKernel>::default().with_kernel(Kernels::rbf(0.5));
            p.c = 2.0;
            p.tol = 1e-2;
            supervised!("SVC", SVC<f64, DM, RBFKernel<f64>>, P, p, own_rng = true, Data::L6, BINARY)
        }
        2 => {
            type P = SVRParameters<f64, DM, LinearKernel>;
            let mut p = P::default();
            p.eps = 0.25;
            p.c = 2.0;
            supervised!("SVR", SVR<f64, DM, LinearKernel>, P, p, own_rng = false, Data::L6, REAL)
        }
        _ => {
            type P = SVRParameters<f64, DM, RBFKernel<f64>>;
            let mut p: P = SVRParameters::<f64, DM, LinearKernel>::default().with_kernel(Kernels::rbf(0.5));
            p.eps = 0.5;
            p.c = 0.5;
            p.tol = 1e-2;
            supervised!("SVR", SVR<f64, DM, RBFKernel<f64>>, P, p, own_rng = false, Data::L6, REAL)
        }
    }
}

const C11_PARTS: usize = 7;
fn c11(part: usize) {
    use smartcore::naive_bayes::bernoulli::{BernoulliNB, BernoulliNBParameters as BP};
    use smartcore::naive_bayes::categorical::{CategoricalNB, CategoricalNBParameters as CP};
    use smartcore::naive_bayes::gaussian::{GaussianNB, GaussianNBParameters as GP};
    use smartcore::naive_bayes::multinomial::{MultinomialNB, MultinomialNBParameters as MP};
    match part {
        0 => supervised!("GaussianNB", GaussianNB<f64, DM>, GP<f64>, GP::<f64>::default(), own_rng = false, Data::L6, CLASS),
        1 => {
            let mut p = GP::<f64>::default();
            p.priors = Some(vec![0.125, 0.875]);
            supervised!("GaussianNB", GaussianNB<f64, DM>, GP<f64>, p, own_rng = false, Data::L6, BINARY)
        }
        // the lattice values are counts
        2 => {
            let mut p = MP::<f64>::default();
            p.alpha = 0.25;
            supervised!("MultinomialNB", MultinomialNB<f64, DM>, MP<f64>, p, own_rng = false, Data::L6, CLASS)
        }
        3 => {
            let mut p = MP::<f64>::default();
            p.alpha = 2.0;
            p.priors = Some(vec![0.125, 0.875]);
            supervised!("MultinomialNB", MultinomialNB<f64, DM>, MP<f64>, p, own_rng = false, Data::L6, BINARY)
        }
        // values {0,1,2,3} with threshold 0.5: the model must binarise the QUERY rows as well
        4 => {
            let mut p = BP::<f64>::default();
            p.alpha = 0.25;
            p.binarize = Some(0.5);
            supervised!("BernoulliNB", BernoulliNB<f64, DM>, BP<f64>, p, own_rng = false, Data::W6, CLASS)
        }
        // 0/1 data, no binarisation
        5 => {
            let mut p = BP::<f64>::default();
            p.alpha = 0.5;
            p.binarize = None;
            p.priors = Some(vec![0.125, 0.875]);
            supervised!("BernoulliNB", BernoulliNB<f64, DM>, BP<f64>, p, own_rng = false, Data::B4, BINARY)
        }
        // the lattice values are category codes
        _ => {
            let mut p = CP::<f64>::default();
            p.alpha = 0.25;
            supervised!("CategoricalNB", CategoricalNB<f64, DM>, CP<f64>, p, own_rng = false, Data::L6, CODES)
        }
    }
}

const C12_PARTS: usize = 6;
fn c12(part: usize) {
    use smartcore::cluster::kmeans::{KMeans, KMeansParameters as KP};
    // k-means++ seeding draws random numbers: both fits are given the default answers through the
    // verif-hooks seam (first point = row 0, every cutoff = the first grid mid-point)
    let mut p = KP::default();
    match part % 3 {
        0 => p.max_iter = 1,
        1 => p.k = 3,
        _ => {
            p.k = if part < 3 { 4 } else { 3 };
            p.max_iter = if part < 3 { 2 } else { 1 };
        }
    }
    // on the plain lattice sets one pass always suffices; the extended sets make max_iter matter
    clusterer!("KMeans", KMeans<f64>, KP, p, own_rng = true, if part < 3 { Data::L6 } else { Data::L6X })
}

const C13_PARTS: usize = 4;
fn c13(part: usize) {
    use smartcore::algorithm::neighbour::KNNAlgorithmName as A;
    use smartcore::cluster::dbscan::{DBSCANParameters, DBSCAN};
    use smartcore::math::distance::euclidian::Euclidian;
    type P = DBSCANParameters<f64, Euclidian>;
    let mut p = P::default();
    p.algorithm = if part & 1 == 0 { A::LinearSearch } else { A::CoverTree };
    if part & 2 == 0 {
        p.eps = 1.0;
        p.min_samples = 2;
    } else {
        p.eps = 1.5;
        p.min_samples = 3;
    }
    clusterer!("DBSCAN", DBSCAN<f64, Euclidian>, P, p, own_rng = false, Data::L6)
}

const C14_PARTS: usize = 5;
fn c14(part: usize) {
    use smartcore::decomposition::pca::{PCAParameters as PP, PCA};
    use smartcore::decomposition::svd::{SVDParameters as SP, SVD};
    if part < 4 {
        let mut p = PP::default();
        p.n_components = 1 + (part & 1);
        p.use_correlation_matrix = part & 2 != 0;
        transformer!("PCA", PCA<f64, DM>, PP, p, Data::L6)
    } else {
        // (n_components = 2 = the number of columns is rejected)
        let mut p = SP::default();
        p.n_components = 1;
        transformer!("SVD", SVD<f64, DM>, SP, p, Data::L6)
    }
}

/// Number of (estimator, configuration) parts of a property's family; `run_part(prop, i)` for
/// `i in 0..n_parts(prop)` lets a harness split the family into several jobs.
pub fn n_parts(prop: &str) -> usize {
    match prop {
        "C04" => C04_PARTS,
        "C05" => C05_PARTS,
        "C06" => C06_PARTS,
        "C07" => C07_PARTS,
        "C08" => C08_PARTS,
        "C09" => C09_PARTS,
        "C10" => C10_PARTS,
        "C11" => C11_PARTS,
        "C12" => C12_PARTS,
        "C13" => C13_PARTS,
        "C14" => C14_PARTS,
        other => panic!("no entry-point family for {}", other),
    }
}

/// One execution of part `part` (one estimator with one configuration) of a property's family: the
/// target pattern and the data set are explorer choices.
pub fn run_part(prop: &str, part: usize) {
    assert!(part < n_parts(prop), "entry::run_part({}, {}): only {} parts", prop, part, n_parts(prop));
    match prop {
        "C04" => c04(part),
        "C05" => c05(part),
        "C06" => c06(part),
        "C07" => c07(part),
        "C08" => c08(part),
        "C09" => c09(part),
        "C10" => c10(part),
        "C11" => c11(part),
        "C12" => c12(part),
        "C13" => c13(part),
        "C14" => c14(part),
        other => panic!("no entry-point family for {}", other),
    }
}

/// The entry-point family of one property (one execution = one (estimator, configuration, target
/// pattern, data set); all of them are explorer choices).
pub fn run(prop: &str) {
    run_part(prop, mc::choose(n_parts(prop)));
}

/// text for a harness's `bounds`
pub const BOUNDS: &str = "every estimator of this property x 2-8 fixed configurations (each differing from the defaults) x 2-3 fixed target patterns (two classes, two classes with labels {5,-3}, three classes / two real targets) x every ordered data set of 4 rows drawn with repetition from the 6-point lattice {0,1,2}x{0,1} (1296 sets; BernoulliNB: {0,1,3}x{0,2} with binarize 0.5, and the 256 sets over {0,1}^2 without binarisation; KMeans: also each set followed by the fixed rows (3,0),(4,1),(8,0), where max_iter matters); queries = the full square lattice ({0,1,2}^2, resp. {0,1,2,3}^2, {0,1}^2) followed by the training rows. For each: trait fit vs inherent fit (result kind, predictions, model equality), Predictor/Transformer trait vs inherent predict/transform, clone (where the model type has Clone), a second matrix object with the same rows vs the original (query matrix and training matrix), training rows inside vs outside the query matrix; all compared bit for bit. Random draws of SVC and KMeans fits are given the default schedule on both paths; forests use a fixed seed";
