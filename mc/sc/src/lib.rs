//! mc-sc: glue between the explorer and the library under test (the only shared crate that depends
//! on smartcore): routes the `verif-hooks` RNG seam to the explorer's choice recorder, and offers
//! conversions between plain `Vec<Vec<f64>>` data and the library's matrix types.

pub mod builders;
pub mod entry;
pub use mc_core as mc;
pub use smartcore;

use smartcore::linalg::naive::dense_matrix::DenseMatrix;
use smartcore::linalg::BaseMatrix;
use smartcore::math::num::RealNumber;
use smartcore::verif_hooks as vh;

/// How RNG draws are offered to the explorer.
#[derive(Clone, Copy, PartialEq, Eq, Debug)]
pub enum RngMode {
    /// every answer is an ordinary choice: all schedules are enumerated
    All,
    /// answers are deviation-kind choices (0 = default answer), bounded by the job's `dev_bound`
    Deviations,
}

thread_local! {
    static DRAWS: std::cell::RefCell<Vec<(vh::Draw, usize, usize)>> = std::cell::RefCell::new(Vec::new());
}

/// Route every RNG draw of the library (on this thread) to the explorer. Each answered draw is also
/// logged as (site, alternatives, answer); see `take_draws`.
pub fn own_rng(mode: RngMode) {
    vh::reset_sites_hit();
    DRAWS.with(|d| d.borrow_mut().clear());
    vh::install(Box::new(move |site, n| {
        let c = match mode {
            RngMode::All => mc::choose(n),
            RngMode::Deviations => mc::choose_dev(n),
        };
        DRAWS.with(|d| d.borrow_mut().push((site, n, c)));
        c
    }));
}

/// The draws answered since `own_rng`.
pub fn take_draws() -> Vec<(vh::Draw, usize, usize)> {
    DRAWS.with(|d| std::mem::take(&mut *d.borrow_mut()))
}

pub use vh::Draw;

/// The permutation of `0..n` that the seam's Fisher-Yates produces for the given answers
/// (answers in the order drawn: for i = n-1 down to 1, j in 0..=i, swap(i, i-j)).
pub fn perm_from_answers(n: usize, answers: &[usize]) -> Vec<usize> {
    let mut v: Vec<usize> = (0..n).collect();
    let mut k = 0;
    for i in (1..n).rev() {
        let j = answers.get(k).copied().unwrap_or(0);
        k += 1;
        v.swap(i, i - j);
    }
    v
}

/// Give the RNG back to the library. Must be called after every execution (also after a panic).
pub fn release_rng() {
    vh::clear();
}

pub fn rng_sites_hit() -> [u64; vh::N_SITES] {
    vh::sites_hit()
}

pub fn dm<T: RealNumber>(rows: &[Vec<f64>]) -> DenseMatrix<T> {
    let r = rows.len();
    let c = if r > 0 { rows[0].len() } else { 0 };
    let mut m = DenseMatrix::<T>::zeros(r, c);
    for i in 0..r {
        for j in 0..c {
            m.set(i, j, T::from(rows[i][j]).unwrap());
        }
    }
    m
}

pub fn rows_of<T: RealNumber, M: BaseMatrix<T>>(m: &M) -> Vec<Vec<f64>> {
    let (r, c) = m.shape();
    (0..r).map(|i| (0..c).map(|j| m.get(i, j).to_f64().unwrap()).collect()).collect()
}

pub fn vec_t<T: RealNumber>(v: &[f64]) -> Vec<T> {
    v.iter().map(|x| T::from(*x).unwrap()).collect()
}

pub fn vec_f64<T: RealNumber>(v: &[T]) -> Vec<f64> {
    v.iter().map(|x| x.to_f64().unwrap()).collect()
}

/// Start-up proof obligation (DESIGN §2.3 (ii)): the set of RNG call sites in /repo/src must equal
/// the committed allow-list, in which every site is covered by a seam or documented as unreachable
/// from the explored paths. Returns Err(description) on any unknown / missing site.
pub fn check_rng_sites() -> Result<(), String> {
    let allow = std::fs::read_to_string("/verif/rng_sites.allow").map_err(|e| format!("rng_sites.allow: {}", e))?;
    let mut expected: Vec<(String, String)> = Vec::new();
    for l in allow.lines() {
        let l = l.trim();
        if l.is_empty() || l.starts_with('#') {
            continue;
        }
        let mut it = l.splitn(3, '|');
        let (f, pat) = (it.next().unwrap_or("").trim(), it.next().unwrap_or("").trim());
        expected.push((f.to_string(), pat.to_string()));
    }
    let mut found: Vec<(String, String)> = Vec::new();
    fn walk(dir: &std::path::Path, out: &mut Vec<std::path::PathBuf>) {
        if let Ok(rd) = std::fs::read_dir(dir) {
            for e in rd.flatten() {
                let p = e.path();
                if p.is_dir() {
                    walk(&p, out);
                } else if p.extension().map(|x| x == "rs").unwrap_or(false) {
                    out.push(p);
                }
            }
        }
    }
    let mut files = Vec::new();
    walk(std::path::Path::new("/repo/src"), &mut files);
    files.sort();
    let pats = ["thread_rng()", "seed_from_u64(", ".gen_range(", ".gen::<", ".gen()", ".shuffle(", ".choose(", "from_entropy(", "rand::random", "sample_iter(", ".sample("];
    for f in files {
        let rel = f.strip_prefix("/repo/src/").unwrap().to_string_lossy().to_string();
        if rel == "verif_hooks.rs" || rel.starts_with("dataset/") {
            continue;
        }
        let Ok(txt) = std::fs::read_to_string(&f) else { continue };
        let mut in_tests = false;
        for line in txt.lines() {
            if line.trim_start().starts_with("mod tests") {
                in_tests = true;
            }
            if in_tests {
                continue;
            }
            let code = line.split("//").next().unwrap_or("");
            for p in pats {
                for _ in 0..code.matches(p).count() {
                    found.push((rel.clone(), p.to_string()));
                }
            }
        }
    }
    let mut e = expected.clone();
    e.sort();
    found.sort();
    if e != found {
        let missing: Vec<_> = e.iter().filter(|x| !found.contains(x)).collect();
        let extra: Vec<_> = found.iter().filter(|x| !e.contains(x)).collect();
        // Not a verdict and not fatal: the exploration still runs (a new random draw in a
        // deterministic path shows up as a determinism violation or as a replay divergence), but the
        // run can no longer claim to have enumerated every schedule, and says so.
        let msg = format!(
            "RNG call sites in /repo/src differ from /verif/rng_sites.allow: not found {:?}, unexpected {:?} - draws at a site without a seam are not owned, the schedule enumeration is incomplete for them",
            missing, extra
        );
        eprintln!("WARNING: {}", msg);
        mc::driver::note_cap(msg);
    }
    Ok(())
}
