//! Parameter builders as a configuration dimension.
//!
//! Every estimator's parameters can be assembled by chaining `with_*` calls in any order, and the
//! properties quantify over "all settings" however the caller sets them. A builder method that
//! rebuilds the struct and forgets a field set by an EARLIER call fits a different configuration
//! than the one requested, although each call looks right alone and the struct-literal path (which
//! the harness's main families use) is unaffected.
//!
//! `run(prop)` enumerates, for every parameter type behind property `prop`: every subset of its
//! builder methods x every ORDER of the chosen calls (through `mc::choose`, so the engine explores
//! all of them), and checks field by field that the resulting value — read through its `Debug`
//! rendering, the only uniform observation all parameter types offer — holds the requested value in
//! every field that was set and the default in every other field. The expected renderings are
//! written here by hand (independent of the library); the defaults are read from
//! `Default::default()` once and compared with the hand-written table as well.
//!
//! Builders that change the parameter TYPE (`with_distance`, `with_kernel`) take part in the
//! ordering: calls before them run on the old type, calls after them on the new one.

use mc_core as mc;
use mc_core::json;
use std::collections::BTreeMap;
use std::fmt::Debug;

type F64 = f64;

/// top-level `field: value` pairs of a derived `Debug` rendering `Name { a: 1, b: Some(X { c: 2 }) }`
pub fn debug_fields(s: &str) -> BTreeMap<String, String> {
    let mut out = BTreeMap::new();
    let Some(open) = s.find('{') else { return out };
    let inner = s[open + 1..s.rfind('}').unwrap_or(s.len())].trim();
    let mut depth = 0i32;
    let mut start = 0usize;
    let bytes: Vec<char> = inner.chars().collect();
    let mut parts: Vec<String> = Vec::new();
    for (i, c) in bytes.iter().enumerate() {
        match c {
            '{' | '(' | '[' => depth += 1,
            '}' | ')' | ']' => depth -= 1,
            ',' if depth == 0 => {
                parts.push(bytes[start..i].iter().collect());
                start = i + 1;
            }
            _ => {}
        }
    }
    if start < bytes.len() {
        parts.push(bytes[start..].iter().collect());
    }
    for p in parts {
        if let Some(colon) = p.find(':') {
            out.insert(p[..colon].trim().to_string(), p[colon + 1..].trim().to_string());
        }
    }
    out
}

/// One builder method: its name, the field it sets, and the `Debug` rendering that field must have
/// afterwards.
pub struct Setter<P> {
    pub name: &'static str,
    pub field: &'static str,
    pub want: &'static str,
    pub apply: Box<dyn Fn(P) -> P>,
}

fn s<P>(name: &'static str, field: &'static str, want: &'static str, f: impl Fn(P) -> P + 'static) -> Setter<P> {
    Setter { name, field, want, apply: Box::new(f) }
}

/// choose a subset of 0..n and an order of it (all subsets x all orders are explored)
fn choose_sequence(n: usize) -> Vec<usize> {
    let mut remaining: Vec<usize> = (0..n).filter(|_| mc::choose(2) == 1).collect();
    let mut seq = Vec::new();
    while !remaining.is_empty() {
        let i = mc::choose(remaining.len());
        seq.push(remaining.remove(i));
    }
    seq
}

fn judge(ty: &str, defaults: &[(&str, &str)], calls: &[(&str, &str, &str)], rendered: &str) {
    let got = debug_fields(rendered);
    let mut want: BTreeMap<&str, &str> = defaults.iter().cloned().collect();
    for (_, field, w) in calls {
        want.insert(field, w);
    }
    let chain: Vec<&str> = calls.iter().map(|c| c.0).collect();
    for (field, w) in &want {
        match got.get(*field) {
            Some(g) if g == w => {}
            Some(g) => {
                // which call was lost? the last one that set this field, or none (default disturbed)
                let lost = calls.iter().rev().find(|c| c.1 == *field).map(|c| c.0).unwrap_or("default");
                mc::violation(
                    format!("builder.{}:{}-not-kept", ty, field),
                    format!("{}::default(){} gives {} = {} but {} was requested ({}) — full value: {}", ty, chain.iter().map(|c| format!(".{}(..)", c)).collect::<String>(), field, g, w, lost, rendered),
                );
            }
            None => mc::violation(format!("builder.{}:field-missing", ty), format!("field {} not found in {}", field, rendered)),
        }
    }
    mc::count("builder_chains");
    if calls.len() >= 2 {
        mc::count("builder_chains_two_or_more_calls");
    }
    mc::nontrivial();
    mc::outcome(mc::hash::h_str(rendered));
    mc::describe(|| json!({"op": "parameter builder chain", "type": ty, "calls": chain, "result": rendered}));
}

/// same-type builder family
fn family<P: Debug + 'static>(ty: &'static str, base: P, defaults: &[(&'static str, &'static str)], setters: Vec<Setter<P>>) {
    family_with(ty, base, defaults, setters, &|p: &P| format!("{:?}", p))
}

fn family_with<P: 'static>(ty: &'static str, base: P, defaults: &[(&'static str, &'static str)], setters: Vec<Setter<P>>, render: &dyn Fn(&P) -> String) {
    let d0 = render(&base);
    judge(ty, defaults, &[], &d0);
    let seq = choose_sequence(setters.len());
    let mut p = base;
    let mut calls = Vec::new();
    for i in seq {
        p = (setters[i].apply)(p);
        calls.push((setters[i].name, setters[i].field, setters[i].want));
    }
    judge(ty, defaults, &calls, &render(&p));
}

/// builder family with one type-changing method `conv` (A -> B); `sa` / `sb` are the same methods on
/// the two types, in the same order
#[allow(clippy::too_many_arguments)]
fn family_conv<A: Debug + 'static, B: Debug + 'static>(
    ty: &'static str,
    base: A,
    defaults: &[(&'static str, &'static str)],
    sa: Vec<Setter<A>>,
    sb: Vec<Setter<B>>,
    conv: (&'static str, &'static str, &'static str, Box<dyn Fn(A) -> B>),
) {
    assert_eq!(sa.len(), sb.len());
    let n = sa.len();
    // index n stands for the type-changing call; it is always part of the chain here (the chains
    // without it are covered by `family`)
    let mut remaining: Vec<usize> = (0..n).filter(|_| mc::choose(2) == 1).collect();
    remaining.push(n);
    let mut seq = Vec::new();
    while !remaining.is_empty() {
        let i = mc::choose(remaining.len());
        seq.push(remaining.remove(i));
    }
    let pos = seq.iter().position(|i| *i == n).unwrap();
    let mut calls = Vec::new();
    let mut a = base;
    for &i in &seq[..pos] {
        a = (sa[i].apply)(a);
        calls.push((sa[i].name, sa[i].field, sa[i].want));
    }
    let mut b = (conv.3)(a);
    calls.push((conv.0, conv.1, conv.2));
    for &i in &seq[pos + 1..] {
        b = (sb[i].apply)(b);
        calls.push((sb[i].name, sb[i].field, sb[i].want));
    }
    judge(ty, defaults, &calls, &format!("{:?}", b));
}

macro_rules! knn_setters {
    ($t:ty) => {
        vec![
            s::<$t>("with_k", "k", "7", |p| p.with_k(7)),
            s::<$t>("with_algorithm", "algorithm", "LinearSearch", |p| p.with_algorithm(KNNAlgorithmName::LinearSearch)),
            s::<$t>("with_weight", "weight", "Distance", |p| p.with_weight(KNNWeightFunction::Distance)),
        ]
    };
}

macro_rules! tree_limit_setters {
    ($t:ty) => {
        vec![
            s::<$t>("with_max_depth", "max_depth", "Some(3)", |p| p.with_max_depth(3)),
            s::<$t>("with_min_samples_leaf", "min_samples_leaf", "4", |p| p.with_min_samples_leaf(4)),
            s::<$t>("with_min_samples_split", "min_samples_split", "1", |p| p.with_min_samples_split(1)),
        ]
    };
}

fn c04() {
    use smartcore::algorithm::neighbour::KNNAlgorithmName;
    use smartcore::math::distance::euclidian::Euclidian;
    use smartcore::math::distance::manhattan::Manhattan;
    use smartcore::math::distance::Distances;
    use smartcore::neighbors::knn_classifier::KNNClassifierParameters;
    use smartcore::neighbors::knn_regressor::KNNRegressorParameters;
    use smartcore::neighbors::KNNWeightFunction;
    let d = [("distance", "Euclidian"), ("algorithm", "CoverTree"), ("weight", "Uniform"), ("k", "3")];
    type CA = KNNClassifierParameters<F64, Euclidian>;
    type CB = KNNClassifierParameters<F64, Manhattan>;
    type RA = KNNRegressorParameters<F64, Euclidian>;
    type RB = KNNRegressorParameters<F64, Manhattan>;
    match mc::choose(4) {
        0 => family::<CA>("KNNClassifierParameters", Default::default(), &d, knn_setters!(CA)),
        1 => family::<RA>("KNNRegressorParameters", Default::default(), &d, knn_setters!(RA)),
        2 => family_conv::<CA, CB>("KNNClassifierParameters", Default::default(), &d, knn_setters!(CA), knn_setters!(CB), ("with_distance", "distance", "Manhattan", Box::new(|p: CA| p.with_distance(Distances::manhattan())))),
        _ => family_conv::<RA, RB>("KNNRegressorParameters", Default::default(), &d, knn_setters!(RA), knn_setters!(RB), ("with_distance", "distance", "Manhattan", Box::new(|p: RA| p.with_distance(Distances::manhattan())))),
    }
}

fn c05() {
    use smartcore::tree::decision_tree_classifier::{DecisionTreeClassifierParameters as CP, SplitCriterion};
    use smartcore::tree::decision_tree_regressor::DecisionTreeRegressorParameters as RP;
    if mc::choose(2) == 0 {
        let mut v = tree_limit_setters!(CP);
        v.push(s::<CP>("with_criterion", "criterion", "Entropy", |p| p.with_criterion(SplitCriterion::Entropy)));
        family::<CP>("DecisionTreeClassifierParameters", Default::default(), &[("criterion", "Gini"), ("max_depth", "None"), ("min_samples_leaf", "1"), ("min_samples_split", "2")], v);
    } else {
        family::<RP>("DecisionTreeRegressorParameters", Default::default(), &[("max_depth", "None"), ("min_samples_leaf", "1"), ("min_samples_split", "2")], tree_limit_setters!(RP));
    }
}

fn c06() {
    use smartcore::ensemble::random_forest_classifier::RandomForestClassifierParameters as CP;
    use smartcore::ensemble::random_forest_regressor::RandomForestRegressorParameters as RP;
    use smartcore::tree::decision_tree_classifier::SplitCriterion;
    if mc::choose(2) == 0 {
        let mut v = tree_limit_setters!(CP);
        v.push(s::<CP>("with_criterion", "criterion", "ClassificationError", |p| p.with_criterion(SplitCriterion::ClassificationError)));
        v.push(s::<CP>("with_n_trees", "n_trees", "7", |p| p.with_n_trees(7)));
        v.push(s::<CP>("with_m", "m", "Some(2)", |p| p.with_m(2)));
        v.push(s::<CP>("with_keep_samples", "keep_samples", "true", |p| p.with_keep_samples(true)));
        v.push(s::<CP>("with_seed", "seed", "99", |p| p.with_seed(99)));
        family::<CP>(
            "RandomForestClassifierParameters",
            Default::default(),
            &[("criterion", "Gini"), ("max_depth", "None"), ("min_samples_leaf", "1"), ("min_samples_split", "2"), ("n_trees", "100"), ("m", "None"), ("keep_samples", "false"), ("seed", "0")],
            v,
        );
    } else {
        let mut v = tree_limit_setters!(RP);
        v.push(s::<RP>("with_n_trees", "n_trees", "7", |p| p.with_n_trees(7)));
        v.push(s::<RP>("with_m", "m", "Some(2)", |p| p.with_m(2)));
        v.push(s::<RP>("with_keep_samples", "keep_samples", "true", |p| p.with_keep_samples(true)));
        v.push(s::<RP>("with_seed", "seed", "99", |p| p.with_seed(99)));
        family::<RP>(
            "RandomForestRegressorParameters",
            Default::default(),
            &[("max_depth", "None"), ("min_samples_leaf", "1"), ("min_samples_split", "2"), ("n_trees", "10"), ("m", "None"), ("keep_samples", "false"), ("seed", "0")],
            v,
        );
    }
}

fn c07() {
    use smartcore::linear::linear_regression::{LinearRegressionParameters as LP, LinearRegressionSolverName};
    use smartcore::linear::ridge_regression::{RidgeRegressionParameters as RP, RidgeRegressionSolverName};
    if mc::choose(2) == 0 {
        family::<LP>("LinearRegressionParameters", Default::default(), &[("solver", "SVD")], vec![s::<LP>("with_solver", "solver", "QR", |p| p.with_solver(LinearRegressionSolverName::QR))]);
    } else {
        family::<RP<F64>>(
            "RidgeRegressionParameters",
            Default::default(),
            &[("solver", "Cholesky"), ("alpha", "1.0"), ("normalize", "true")],
            vec![
                s::<RP<F64>>("with_alpha", "alpha", "0.25", |p| p.with_alpha(0.25)),
                s::<RP<F64>>("with_normalize", "normalize", "false", |p| p.with_normalize(false)),
                s::<RP<F64>>("with_solver", "solver", "SVD", |p| p.with_solver(RidgeRegressionSolverName::SVD)),
            ],
        );
    }
}

fn c08() {
    use smartcore::linear::elastic_net::ElasticNetParameters as EP;
    use smartcore::linear::lasso::LassoParameters as LP;
    if mc::choose(2) == 0 {
        family::<LP<F64>>(
            "LassoParameters",
            Default::default(),
            &[("alpha", "1.0"), ("normalize", "true"), ("tol", "0.0001"), ("max_iter", "1000")],
            vec![
                s::<LP<F64>>("with_alpha", "alpha", "0.25", |p| p.with_alpha(0.25)),
                s::<LP<F64>>("with_normalize", "normalize", "false", |p| p.with_normalize(false)),
                s::<LP<F64>>("with_tol", "tol", "0.5", |p| p.with_tol(0.5)),
                s::<LP<F64>>("with_max_iter", "max_iter", "17", |p| p.with_max_iter(17)),
            ],
        );
    } else {
        family::<EP<F64>>(
            "ElasticNetParameters",
            Default::default(),
            &[("alpha", "1.0"), ("l1_ratio", "0.5"), ("normalize", "true"), ("tol", "0.0001"), ("max_iter", "1000")],
            vec![
                s::<EP<F64>>("with_alpha", "alpha", "0.25", |p| p.with_alpha(0.25)),
                s::<EP<F64>>("with_l1_ratio", "l1_ratio", "0.75", |p| p.with_l1_ratio(0.75)),
                s::<EP<F64>>("with_normalize", "normalize", "false", |p| p.with_normalize(false)),
                s::<EP<F64>>("with_tol", "tol", "0.5", |p| p.with_tol(0.5)),
                s::<EP<F64>>("with_max_iter", "max_iter", "17", |p| p.with_max_iter(17)),
            ],
        );
    }
}

fn c09() {
    use smartcore::linear::logistic_regression::{LogisticRegressionParameters as LP, LogisticRegressionSolverName};
    family::<LP<F64>>(
        "LogisticRegressionParameters",
        Default::default(),
        &[("solver", "LBFGS"), ("alpha", "0.0")],
        vec![s::<LP<F64>>("with_alpha", "alpha", "0.25", |p| p.with_alpha(0.25)), s::<LP<F64>>("with_solver", "solver", "LBFGS", |p| p.with_solver(LogisticRegressionSolverName::LBFGS))],
    );
}

fn c10() {
    use smartcore::linalg::naive::dense_matrix::DenseMatrix;
    use smartcore::svm::svc::SVCParameters;
    use smartcore::svm::svr::SVRParameters;
    use smartcore::svm::{Kernels, LinearKernel, RBFKernel};
    type M = DenseMatrix<F64>;
    type CA = SVCParameters<F64, M, LinearKernel>;
    type CB = SVCParameters<F64, M, RBFKernel<F64>>;
    type RA = SVRParameters<F64, M, LinearKernel>;
    type RB = SVRParameters<F64, M, RBFKernel<F64>>;
    macro_rules! svc_setters {
        ($t:ty) => {
            vec![s::<$t>("with_epoch", "epoch", "5", |p| p.with_epoch(5)), s::<$t>("with_c", "c", "0.25", |p| p.with_c(0.25)), s::<$t>("with_tol", "tol", "0.5", |p| p.with_tol(0.5))]
        };
    }
    macro_rules! svr_setters {
        ($t:ty) => {
            vec![s::<$t>("with_eps", "eps", "0.75", |p| p.with_eps(0.75)), s::<$t>("with_c", "c", "0.25", |p| p.with_c(0.25)), s::<$t>("with_tol", "tol", "0.5", |p| p.with_tol(0.5))]
        };
    }
    let dc = [("epoch", "2"), ("c", "1.0"), ("tol", "0.001"), ("kernel", "LinearKernel")];
    let dr = [("eps", "0.1"), ("c", "1.0"), ("tol", "0.001"), ("kernel", "LinearKernel")];
    match mc::choose(4) {
        0 => family::<CA>("SVCParameters", Default::default(), &dc, svc_setters!(CA)),
        1 => family::<RA>("SVRParameters", Default::default(), &dr, svr_setters!(RA)),
        2 => family_conv::<CA, CB>("SVCParameters", Default::default(), &dc, svc_setters!(CA), svc_setters!(CB), ("with_kernel", "kernel", "RBFKernel { gamma: 0.5 }", Box::new(|p: CA| p.with_kernel(Kernels::rbf(0.5))))),
        _ => family_conv::<RA, RB>("SVRParameters", Default::default(), &dr, svr_setters!(RA), svr_setters!(RB), ("with_kernel", "kernel", "RBFKernel { gamma: 0.5 }", Box::new(|p: RA| p.with_kernel(Kernels::rbf(0.5))))),
    }
}

fn c11() {
    use smartcore::naive_bayes::bernoulli::BernoulliNBParameters as BP;
    use smartcore::naive_bayes::categorical::CategoricalNBParameters as CP;
    use smartcore::naive_bayes::gaussian::GaussianNBParameters as GP;
    use smartcore::naive_bayes::multinomial::MultinomialNBParameters as MP;
    match mc::choose(4) {
        0 => family::<BP<F64>>(
            "BernoulliNBParameters",
            Default::default(),
            &[("alpha", "1.0"), ("priors", "None"), ("binarize", "Some(0.0)")],
            vec![
                s::<BP<F64>>("with_alpha", "alpha", "0.25", |p| p.with_alpha(0.25)),
                s::<BP<F64>>("with_priors", "priors", "Some([0.25, 0.75])", |p| p.with_priors(vec![0.25, 0.75])),
                s::<BP<F64>>("with_binarize", "binarize", "Some(0.5)", |p| p.with_binarize(0.5)),
            ],
        ),
        1 => family::<MP<F64>>(
            "MultinomialNBParameters",
            Default::default(),
            &[("alpha", "1.0"), ("priors", "None")],
            vec![s::<MP<F64>>("with_alpha", "alpha", "0.25", |p| p.with_alpha(0.25)), s::<MP<F64>>("with_priors", "priors", "Some([0.25, 0.75])", |p| p.with_priors(vec![0.25, 0.75]))],
        ),
        2 => family::<GP<F64>>("GaussianNBParameters", Default::default(), &[("priors", "None")], vec![s::<GP<F64>>("with_priors", "priors", "Some([0.25, 0.75])", |p| p.with_priors(vec![0.25, 0.75]))]),
        _ => family::<CP<F64>>("CategoricalNBParameters", Default::default(), &[("alpha", "1.0")], vec![s::<CP<F64>>("with_alpha", "alpha", "0.25", |p| p.with_alpha(0.25))]),
    }
}

fn c12() {
    use smartcore::cluster::kmeans::KMeansParameters as KP;
    family::<KP>("KMeansParameters", Default::default(), &[("k", "2"), ("max_iter", "100")], vec![s::<KP>("with_k", "k", "5", |p| p.with_k(5)), s::<KP>("with_max_iter", "max_iter", "17", |p| p.with_max_iter(17))]);
}

fn c13() {
    use smartcore::algorithm::neighbour::KNNAlgorithmName;
    use smartcore::cluster::dbscan::DBSCANParameters;
    use smartcore::math::distance::euclidian::Euclidian;
    use smartcore::math::distance::manhattan::Manhattan;
    use smartcore::math::distance::Distances;
    type A = DBSCANParameters<F64, Euclidian>;
    type B = DBSCANParameters<F64, Manhattan>;
    macro_rules! setters {
        ($t:ty) => {
            vec![
                s::<$t>("with_min_samples", "min_samples", "3", |p| p.with_min_samples(3)),
                s::<$t>("with_eps", "eps", "0.25", |p| p.with_eps(0.25)),
                s::<$t>("with_algorithm", "algorithm", "LinearSearch", |p| p.with_algorithm(KNNAlgorithmName::LinearSearch)),
            ]
        };
    }
    let d = [("distance", "Euclidian"), ("min_samples", "5"), ("eps", "0.5"), ("algorithm", "CoverTree")];
    if mc::choose(2) == 0 {
        family::<A>("DBSCANParameters", Default::default(), &d, setters!(A));
    } else {
        family_conv::<A, B>("DBSCANParameters", Default::default(), &d, setters!(A), setters!(B), ("with_distance", "distance", "Manhattan", Box::new(|p: A| p.with_distance(Distances::manhattan()))));
    }
}

fn c14() {
    use smartcore::decomposition::pca::PCAParameters as PP;
    use smartcore::decomposition::svd::SVDParameters as SP;
    if mc::choose(2) == 0 {
        family::<PP>(
            "PCAParameters",
            Default::default(),
            &[("n_components", "2"), ("use_correlation_matrix", "false")],
            vec![s::<PP>("with_n_components", "n_components", "5", |p| p.with_n_components(5)), s::<PP>("with_use_correlation_matrix", "use_correlation_matrix", "true", |p| p.with_use_correlation_matrix(true))],
        );
    } else {
        family::<SP>("SVDParameters", Default::default(), &[("n_components", "2")], vec![s::<SP>("with_n_components", "n_components", "5", |p| p.with_n_components(5))]);
    }
}

fn c16() {
    use smartcore::model_selection::KFold;
    // KFold has public fields but no Debug: render them by hand
    family_with::<KFold>(
        "KFold",
        Default::default(),
        &[("n_splits", "3"), ("shuffle", "true")],
        vec![s::<KFold>("with_n_splits", "n_splits", "5", |p| p.with_n_splits(5)), s::<KFold>("with_shuffle", "shuffle", "false", |p| p.with_shuffle(false))],
        &|p: &KFold| format!("KFold {{ n_splits: {:?}, shuffle: {:?} }}", p.n_splits, p.shuffle),
    );
}

/// The builder families of one property's parameter types (one execution = one chain).
pub fn run(prop: &str) {
    match prop {
        "C04" => c04(),
        "C05" => c05(),
        "C06" => c06(),
        "C07" => c07(),
        "C08" => c08(),
        "C09" => c09(),
        "C10" => c10(),
        "C11" => c11(),
        "C12" => c12(),
        "C13" => c13(),
        "C14" => c14(),
        "C16" => c16(),
        other => panic!("no builder family for {}", other),
    }
}

/// text for a harness's `bounds`
pub const BOUNDS: &str = "every parameter type of this property: every subset of its with_* builder methods x every order of the chosen calls (type-changing with_distance / with_kernel included at every position), each resulting value compared field by field with the requested values and the documented defaults";
