//! C12 — k-means centroids are cluster means; the BBD-tree assignment step equals exhaustive search.
//!
//! E1 over (data sequence, k, max_iter, seeding schedule): the two kinds of k-means++ draws (first
//! index, D² cutoff) are answered through the `verif-hooks` seam. The cutoff is drawn from a grid of
//! G mid-points with G >= ΣD² on integer lattices, so that every index the real RNG could select
//! with positive probability is selected by at least one grid point (checked per draw by the
//! harness's own D² bookkeeping); the thorough tier adds the two edge answers u = 0 and
//! u = 1 - 2^-53. The assignment step is driven directly through `verif_hooks::bbd_clustering`
//! with arbitrary centroid multisets.

use mc_core::{self as mc, json, Harness, Job, Plan, Tier};
use mc_sc::{dm, own_rng, release_rng, take_draws, Draw, RngMode};
use smartcore::cluster::kmeans::{KMeans, KMeansParameters};
use smartcore::linalg::naive::dense_matrix::DenseMatrix;
use smartcore::verif_hooks as vh;

struct C12;

const GRID: usize = 64;

/// translations applied to the off-centre families
const OFFSETS: [f64; 2] = [134217728.0, 1.7e9];

fn d2(a: &[f64], b: &[f64]) -> f64 {
    a.iter().zip(b).map(|(x, y)| (x - y) * (x - y)).sum()
}

/// Decode a point sequence: `dim`-dimensional points on the lattice {0..side-1}^dim.
fn draw_points(job: &Job, n: usize, dim: usize, side: usize) -> Vec<Vec<f64>> {
    // the job fixes the leading coordinates ("pre"), the rest are choices
    let pre: Vec<usize> = job.params["pre"].as_array().map(|a| a.iter().map(|x| x.as_u64().unwrap() as usize).collect()).unwrap_or_default();
    let mut it = pre.into_iter();
    (0..n).map(|_| (0..dim).map(|_| it.next().unwrap_or_else(|| mc::choose(side)) as f64).collect()).collect()
}

/// All coordinate prefixes of the given length over 0..side.
fn prefixes(len: usize, side: usize) -> Vec<Vec<usize>> {
    let mut out = vec![Vec::new()];
    for _ in 0..len {
        out = out.into_iter().flat_map(|p| (0..side).map(move |c| { let mut q = p.clone(); q.push(c); q })).collect();
    }
    out
}

fn distinct_rows(p: &[Vec<f64>]) -> usize {
    let mut v: Vec<Vec<u64>> = p.iter().map(|r| r.iter().map(|x| x.to_bits()).collect()).collect();
    v.sort();
    v.dedup();
    v.len()
}

/// Candidate centroid coordinates per dimension: half-step grid over the lattice plus far points.
fn centroid_grid(dim: usize, side: usize) -> Vec<Vec<f64>> {
    let mut axis: Vec<f64> = (0..(2 * side - 1)).map(|i| i as f64 * 0.5).collect();
    axis.push(-10.0);
    axis.push(10.0);
    if dim == 1 {
        axis.iter().map(|x| vec![*x]).collect()
    } else {
        // 2-D: lattice points, cell centres, and four far points
        let mut g = Vec::new();
        for i in 0..(2 * side - 1) {
            for j in 0..(2 * side - 1) {
                if (i + j) % 2 == 0 {
                    g.push(vec![i as f64 * 0.5, j as f64 * 0.5]);
                }
            }
        }
        g.push(vec![-10.0, -10.0]);
        g.push(vec![10.0, 1.0]);
        g.push(vec![1.0, 10.0]);
        g
    }
}

/// translate every coordinate by the job's offset (0 when absent); offsets are integers so the
/// lattice coordinates stay exact
fn shifted(job: &Job, mut v: Vec<Vec<f64>>) -> Vec<Vec<f64>> {
    // an optional power-of-two scale (exact) is applied before the offset
    let scale = job.params.get("scale").and_then(|x| x.as_f64()).unwrap_or(1.0);
    if scale != 1.0 {
        for r in v.iter_mut() {
            for x in r.iter_mut() {
                *x *= scale;
            }
        }
    }
    let off = job.params.get("off").and_then(|x| x.as_f64()).unwrap_or(0.0);
    if off != 0.0 {
        for r in v.iter_mut() {
            for x in r.iter_mut() {
                *x += off;
            }
        }
    }
    v
}

/// Allowed deviation of the reported total distortion from exhaustive search: 1e-9 relative, plus the
/// rounding no implementation working from per-cell sums can avoid — a cell mean carries an absolute
/// error of about n*eps*max|x|, which enters the distortion as 2*sqrt(n*distortion)*delta. (This is
/// linear in the offset; a squared-norm expansion loses eps*max|x|^2, far outside it.)
fn dist_tol(pts: &[Vec<f64>], want: f64) -> f64 {
    let n = pts.len() as f64;
    let maxabs = pts.iter().flatten().fold(0.0f64, |m, x| m.max(x.abs()));
    1e-9 * (1.0 + want) + 16.0 * f64::EPSILON * maxabs * n * (1.0 + (n * want).sqrt())
}

fn assignment_case(job: &Job) {
    let (n, dim, side, k) = (job.u("n"), job.u("dim"), job.u("side"), job.u("k"));
    let pts = shifted(job, draw_points(job, n, dim, side));
    let grid = shifted(job, centroid_grid(dim, side));
    let off = job.params.get("off").and_then(|x| x.as_f64()).unwrap_or(0.0);
    // centroid multiset: non-decreasing index sequence
    let mut cents: Vec<Vec<f64>> = Vec::new();
    let mut lo = 0usize;
    for _ in 0..k {
        let c = lo + mc::choose(grid.len() - lo);
        lo = c;
        cents.push(grid[c].clone());
    }
    let x: DenseMatrix<f64> = dm(&pts);
    let cents2 = cents.clone();
    let Some(r) = mc::must_not_panic("bbd.clustering:lattice", &format!("points {:?} centroids {:?}", pts, cents), move || vh::bbd_clustering(&x, &cents2)) else { return };
    let tol = 1e-12;
    let mut want_dist = 0.0;
    let mut ties = false;
    for i in 0..n {
        let ds: Vec<f64> = cents.iter().map(|c| d2(&pts[i], c)).collect();
        let best = ds.iter().cloned().fold(f64::INFINITY, f64::min);
        want_dist += best;
        if ds.iter().filter(|d| (**d - best).abs() <= tol).count() > 1 {
            ties = true;
        }
        let m = r.membership[i];
        if m >= k {
            mc::violation("bbd.clustering:membership-range", format!("points {:?} centroids {:?}: row {} attached to cluster {}", pts, cents, i, m));
            return;
        }
        if ds[m] > best + tol * (1.0 + best) {
            mc::violation(
                "bbd.clustering:not-nearest",
                format!("points {:?} centroids {:?}: row {} attached to centroid {} at d²={} but centroid at d²={} is nearer", pts, cents, i, m, ds[m], best),
            );
        }
    }
    for j in 0..k {
        let members: Vec<usize> = (0..n).filter(|i| r.membership[*i] == j).collect();
        if r.counts[j] != members.len() {
            mc::violation("bbd.clustering:counts", format!("points {:?} centroids {:?}: count[{}]={} but {} rows attached", pts, cents, j, r.counts[j], members.len()));
        }
        for c in 0..dim {
            let s: f64 = members.iter().map(|i| pts[*i][c]).sum();
            if (r.sums[j][c] - s).abs() > 1e-9 * (1.0 + s.abs()) {
                mc::violation("bbd.clustering:sums", format!("points {:?} centroids {:?}: sums[{}][{}]={} but attached rows sum to {}", pts, cents, j, c, r.sums[j][c], s));
            }
        }
    }
    if (r.distortion - want_dist).abs() > dist_tol(&pts, want_dist) {
        mc::violation("bbd.clustering:distortion", format!("points {:?} centroids {:?}: distortion {} but exhaustive search gives {}", pts, cents, r.distortion, want_dist));
    }
    if ties {
        mc::count("assignment_ties");
    }
    if cents.windows(2).any(|w| w[0] == w[1]) {
        mc::count("coincident_centroids");
    }
    if cents.iter().any(|c| c.iter().any(|x| (x - off).abs() >= 10.0)) {
        mc::count("far_centroids");
    }
    if off != 0.0 {
        mc::count("assignment_off_centre");
    }
    if distinct_rows(&pts) < n {
        mc::count("duplicate_rows");
    }
    if r.counts.iter().any(|c| *c == 0) {
        mc::count("empty_clusters");
    }
    mc::nontrivial();
    mc::outcome(mc::hash::mix(mc::hash::h_usizes(&r.membership), mc::hash::h_f64s_rounded(&[r.distortion], 10)));
    mc::describe(|| json!({"op": "bbd_clustering", "points": pts, "centroids": cents, "membership": r.membership, "counts": r.counts, "sums": r.sums, "distortion": r.distortion}));
}

/// Assignment step on larger structured data sets (tree cells with many rows, 1..3 dimensions):
/// centroid sets are drawn from a small candidate list derived from the data.
fn assignment_structured_case(job: &Job) {
    let (n, dim, k, variant) = (job.u("n"), job.u("dim"), job.u("k"), job.u("variant"));
    let pts: Vec<Vec<f64>> = if variant == 6 {
        // a column whose values are ADJACENT doubles at a large magnitude (5e11 and 5e11 + 1 ulp)
        (0..n).map(|i| (0..dim).map(|c| match c { 0 => 5e11 + if i % 2 == 1 { 6.103515625e-5 } else { 0.0 }, _ => ((i * 5 + c) % 3) as f64 }).collect()).collect()
    } else if variant == 5 {
        // mixed-scale columns: one column sits at 5e11 (constant), the next varies in
        // steps of 2^-16, further columns are small integers — any rule that takes a cell's resolution
        // from the largest coordinate of ANY column would lump distinct rows together
        (0..n).map(|i| (0..dim).map(|c| match c { 0 => 5e11, 1 => ((i * 7) % n) as f64 * 1.52587890625e-5, _ => ((i * 5 + c) % 3) as f64 }).collect()).collect()
    } else if variant == 4 {
        // a g x g grid plus an off-corner group
        let g = (n as f64).sqrt() as usize;
        let mut v: Vec<Vec<f64>> = (0..g * g).map(|i| (0..dim).map(|c| if c == 0 { (i % g) as f64 } else if c == 1 { (i / g) as f64 } else { ((i * 7) % 3) as f64 }).collect()).collect();
        for j in 0..(n - g * g) {
            v.push((0..dim).map(|c| g as f64 + 1.5 + ((j + c) % 2) as f64 * 0.5).collect());
        }
        v
    } else {
        structured_points(variant, n, dim)
    };
    let pts = shifted(job, pts);
    // candidate centroids: some data rows, the mean, cell corners and a far point
    let mean: Vec<f64> = (0..dim).map(|c| pts.iter().map(|r| r[c]).sum::<f64>() / n as f64).collect();
    let lo: Vec<f64> = (0..dim).map(|c| pts.iter().map(|r| r[c]).fold(f64::INFINITY, f64::min)).collect();
    let hi: Vec<f64> = (0..dim).map(|c| pts.iter().map(|r| r[c]).fold(f64::NEG_INFINITY, f64::max)).collect();
    let mut cand: Vec<Vec<f64>> = vec![pts[0].clone(), pts[n / 3].clone(), pts[n / 2].clone(), pts[n - 1].clone(), mean.clone(), lo.clone(), hi.clone()];
    cand.push((0..dim).map(|c| 0.75 * lo[c] + 0.25 * hi[c]).collect());
    cand.push((0..dim).map(|c| if c % 2 == 0 { hi[c] + 0.5 * (hi[c] - lo[c]) } else { lo[c] }).collect());
    cand.push((0..dim).map(|c| hi[c] + 3.0 * (hi[c] - lo[c] + 1.0)).collect());
    let mut cents: Vec<Vec<f64>> = Vec::new();
    let mut lo_i = 0usize;
    for _ in 0..k {
        let c = lo_i + mc::choose(cand.len() - lo_i);
        lo_i = c;
        cents.push(cand[c].clone());
    }
    let x: DenseMatrix<f64> = dm(&pts);
    let cents2 = cents.clone();
    let ctx = format!("structured variant {} n={} dim={} centroids {:?}", variant, n, dim, cents);
    let Some(r) = mc::must_not_panic("bbd.clustering:structured", &ctx, move || vh::bbd_clustering(&x, &cents2)) else { return };
    let mut want_dist = 0.0;
    for i in 0..n {
        let ds: Vec<f64> = cents.iter().map(|c| d2(&pts[i], c)).collect();
        let best = ds.iter().cloned().fold(f64::INFINITY, f64::min);
        want_dist += best;
        let m = r.membership[i];
        // "nearest" up to the rounding of one coordinate at the magnitude of the data: a distance cannot
        // be resolved more finely than a few units in the last place of the largest coordinate
        let ulp_slack = 8.0 * f64::EPSILON * pts.iter().flatten().fold(0.0f64, |a, x| a.max(x.abs()));
        if m >= k || (ds[m] > best + 1e-12 * (1.0 + best) && ds[m].sqrt() > best.sqrt() + ulp_slack) {
            mc::violation("bbd.clustering:structured:not-nearest", format!("{}: row {} = {:?} attached to centroid {} at d²={} but a centroid at d²={} is nearer", ctx, i, pts[i], m, if m < k { ds[m] } else { f64::NAN }, best));
            return;
        }
    }
    for j in 0..k {
        let members: Vec<usize> = (0..n).filter(|i| r.membership[*i] == j).collect();
        if r.counts[j] != members.len() {
            mc::violation("bbd.clustering:structured:counts", format!("{}: count[{}]={} but {} rows attached", ctx, j, r.counts[j], members.len()));
        }
        for c in 0..dim {
            let sm: f64 = members.iter().map(|i| pts[*i][c]).sum();
            if (r.sums[j][c] - sm).abs() > 1e-9 * (1.0 + sm.abs()) {
                mc::violation("bbd.clustering:structured:sums", format!("{}: sums[{}][{}]={} but attached rows sum to {}", ctx, j, c, r.sums[j][c], sm));
            }
        }
    }
    if (r.distortion - want_dist).abs() > dist_tol(&pts, want_dist) {
        mc::violation("bbd.clustering:structured:distortion", format!("{}: distortion {} but exhaustive search gives {}", ctx, r.distortion, want_dist));
    }
    mc::count("assignment_structured");
    if job.params.get("off").is_some() {
        mc::count("assignment_off_centre");
    }
    mc::nontrivial();
    mc::outcome(mc::hash::mix(mc::hash::h_usizes(&r.membership), mc::hash::h_f64s_rounded(&[r.distortion], 10)));
    mc::describe(|| json!({"op": "bbd_clustering", "structured_variant": variant, "n": n, "dim": dim, "centroids": cents, "counts": r.counts, "distortion": r.distortion}));
}

thread_local! {
    /// magnitude of the data of the current execution (1 unless the job carries a scale)
    static DATA_SCALE: std::cell::Cell<f64> = std::cell::Cell::new(1.0);
}

fn check_model(site: &str, pts: &[Vec<f64>], k: usize, model: &KMeans<f64>, ctx: &str, queries: &[Vec<f64>]) -> Option<(Vec<Vec<f64>>, Vec<usize>)> {
    let n = pts.len();
    let dim = pts[0].len();
    let v = serde_json::to_value(model).expect("serialise k-means");
    let cents: Vec<Vec<f64>> = v["centroids"]
        .as_array()
        .map(|a| a.iter().map(|c| c.as_array().map(|r| r.iter().map(|x| x.as_f64().unwrap_or(f64::NAN)).collect()).unwrap_or_default()).collect())
        .unwrap_or_default();
    let y: Vec<usize> = v["_y"].as_array().map(|a| a.iter().map(|x| x.as_u64().unwrap_or(u64::MAX) as usize).collect()).unwrap_or_default();
    let size: Vec<usize> = v["size"].as_array().map(|a| a.iter().map(|x| x.as_u64().unwrap_or(u64::MAX) as usize).collect()).unwrap_or_default();
    if cents.len() != k || cents.iter().any(|c| c.len() != dim) {
        mc::violation(format!("{}:centroid-count", site), format!("{}: {} centroids of dims {:?}, expected {} of dim {}", ctx, cents.len(), cents.iter().map(|c| c.len()).collect::<Vec<_>>(), k, dim));
        return None;
    }
    if cents.iter().any(|c| c.iter().any(|x| !x.is_finite())) {
        mc::violation(format!("{}:non-finite-centroid", site), format!("{}: centroids {:?}", ctx, v["centroids"]));
        return None;
    }
    if y.len() != n || y.iter().any(|j| *j >= k) || size.len() != k {
        mc::violation(format!("{}:assignment-shape", site), format!("{}: assignments {:?} sizes {:?}", ctx, y, size));
        return None;
    }
    if size.iter().sum::<usize>() != n {
        mc::violation(format!("{}:sizes-sum", site), format!("{}: sizes {:?} do not sum to n={}", ctx, size, n));
    }
    for j in 0..k {
        let members: Vec<usize> = (0..n).filter(|i| y[*i] == j).collect();
        if size[j] != members.len() {
            mc::violation(format!("{}:size-mismatch", site), format!("{}: size[{}]={} but {} rows last assigned to it (assignments {:?})", ctx, j, size[j], members.len(), y));
        }
        if members.is_empty() {
            mc::count("final_empty_cluster");
            continue;
        }
        for c in 0..dim {
            let m = members.iter().map(|i| pts[*i][c]).sum::<f64>() / members.len() as f64;
            if (cents[j][c] - m).abs() > 1e-12 * (DATA_SCALE.with(|s| s.get()) + m.abs()) {
                mc::violation(format!("{}:centroid-not-mean", site), format!("{}: centroid {} = {:?} but the mean of its rows {:?} is {} in coordinate {}", ctx, j, cents[j], members, m, c));
            }
        }
    }
    // predict: nearest centroid (ties: any); the centroids themselves are queries too (a centroid
    // whose cluster ended the fit empty must still be returned for rows nearest to it)
    let mut queries: Vec<Vec<f64>> = queries.to_vec();
    queries.extend(cents.iter().cloned());
    let queries = &queries[..];
    let q: DenseMatrix<f64> = dm(queries);
    if let Some(res) = mc::must_not_panic(&format!("{}.predict", site), ctx, || model.predict(&q)) {
        match res {
            Err(e) => mc::violation(format!("{}.predict:error", site), format!("{}: {}", ctx, e)),
            Ok(lab) => {
                for (i, qrow) in queries.iter().enumerate() {
                    let ds: Vec<f64> = cents.iter().map(|c| d2(qrow, c)).collect();
                    let best = ds.iter().cloned().fold(f64::INFINITY, f64::min);
                    let l = lab[i];
                    let li = l as usize;
                    if l < 0.0 || l.fract() != 0.0 || li >= k || ds[li] > best + 1e-12 * (DATA_SCALE.with(|s| s.get()).powi(2) + best) {
                        mc::violation(format!("{}.predict:not-nearest", site), format!("{}: query {:?} labelled {} but nearest centroid of {:?} is at d²={}", ctx, qrow, l, cents, best));
                        break;
                    }
                }
            }
        }
    }
    Some((cents, y))
}

fn queries_for(dim: usize, side: usize) -> Vec<Vec<f64>> {
    if dim == 1 {
        (0..(2 * side - 1)).map(|i| vec![i as f64 * 0.5]).collect()
    } else {
        let mut q = Vec::new();
        for i in 0..(2 * side - 1) {
            for j in 0..(2 * side - 1) {
                q.push(vec![i as f64 * 0.5, j as f64 * 0.5]);
            }
        }
        q
    }
}

fn fit_case(job: &Job) {
    let (n, dim, side, k) = (job.u("n"), job.u("dim"), job.u("side"), job.u("k"));
    let edges = job.b("edges");
    DATA_SCALE.with(|s| s.set(job.params.get("scale").and_then(|x| x.as_f64()).unwrap_or(1.0)));
    let pts = shifted(job, draw_points(job, n, dim, side));
    if distinct_rows(&pts) < k {
        mc::count("fewer_than_k_distinct_rows");
        return;
    }
    let max_iter = mc::pick(&[1usize, 2, 100]);
    let x: DenseMatrix<f64> = dm(&pts);
    vh::set_unit_grid(GRID, edges);
    own_rng(RngMode::All);
    let r = mc::guard(|| KMeans::fit(&x, KMeansParameters::default().with_k(k).with_max_iter(max_iter)));
    let draws = take_draws();
    release_rng();
    let first = draws.iter().find(|d| d.0 == Draw::KMeansFirst).map(|d| d.2);
    let cut: Vec<usize> = draws.iter().filter(|d| d.0 == Draw::KMeansCutoff).map(|d| d.2).collect();
    let zero_edge = cut.iter().any(|c| *c == GRID);
    let one_edge = cut.iter().any(|c| *c == GRID + 1);
    let class = if zero_edge { "cutoff-draw==0.0" } else if one_edge { "cutoff-draw==1-ulp" } else { "interior-schedule" };
    let site = format!("kmeans.fit:{}", class);
    let ctx = format!("rows {:?} k={} max_iter={} first-index draw {:?} cutoff draws {:?} (grid {}, {}=0.0, {}=1-2^-53)", pts, k, max_iter, first, cut, GRID, GRID, GRID + 1);
    if draws.len() != k || first.is_none() {
        mc::violation("kmeans.fit:seeding-draw-count", format!("{}: expected 1 first-index draw and {} cutoff draws, saw {:?}", ctx, k - 1, draws));
    }
    // covering claim of the grid: ΣD² after each selected centroid is at most GRID (integer lattice)
    if n * dim * (side - 1) * (side - 1) > GRID {
        panic!("harness: lattice too large for the cutoff grid (sum of D² may exceed the number of grid points)");
    }
    let model = match r {
        Err(p) => {
            mc::violation(format!("{}:panic", site), format!("{}: {}", ctx, p.brief()));
            return;
        }
        Ok(Err(e)) => {
            mc::violation(format!("{}:error", site), format!("{}: {}", ctx, e));
            return;
        }
        Ok(Ok(m)) => m,
    };
    let q = shifted(job, queries_for(dim, side));
    if let Some((cents, y)) = check_model(&site, &pts, k, &model, &ctx, &q) {
        mc::nontrivial();
        if job.params.get("off").is_some() {
            mc::count("fits_off_centre");
        }
        let mut flat: Vec<f64> = cents.iter().flatten().cloned().collect();
        flat.iter_mut().for_each(|x| *x = mc::hash::round_sig(*x, 12));
        mc::outcome(mc::hash::mix(mc::hash::h_f64s(&flat), mc::hash::h_usizes(&y)));
        if zero_edge || one_edge {
            mc::count("edge_schedules");
        }
        if max_iter == 100 {
            mc::count("fits_to_convergence");
        }
        mc::describe(|| json!({"op": "KMeans::fit", "rows": pts, "k": k, "max_iter": max_iter, "first_index_draw": first, "cutoff_draws": cut, "grid": GRID, "centroids": cents, "assignments": y}));
    } else {
        mc::describe(|| json!({"op": "KMeans::fit", "rows": pts, "k": k, "max_iter": max_iter, "first_index_draw": first, "cutoff_draws": cut, "grid": GRID}));
    }
}

/// Structured larger data sets (thorough): g clusters of m points each on a coarse lattice with
/// exact duplicates; seeding schedules deviation-bounded.
fn structured_points(variant: usize, n: usize, dim: usize) -> Vec<Vec<f64>> {
    (0..n)
        .map(|i| {
            (0..dim)
                .map(|c| match variant {
                    0 => ((i % 4) * 10 + (i / 4) % 3 + c) as f64,                 // 4 blobs, duplicates
                    1 => (i * (c + 1) % 17) as f64,                                 // stride-coprime lattice walk
                    2 => if i % 2 == 0 { (i / 2) as f64 } else { 100.0 + (i / 2 % 5) as f64 }, // two far groups
                    _ => ((i * i + c * 7) % 23) as f64,                            // quadratic residues
                })
                .collect()
        })
        .collect()
}

fn structured_case(job: &Job) {
    let (n, dim, k, variant) = (job.u("n"), job.u("dim"), job.u("k"), job.u("variant"));
    DATA_SCALE.with(|s| s.set(job.params.get("scale").and_then(|x| x.as_f64()).unwrap_or(1.0)));
    let pts = shifted(job, structured_points(variant, n, dim));
    if distinct_rows(&pts) < k {
        return;
    }
    let max_iter = mc::pick(&[1usize, 100]);
    let x: DenseMatrix<f64> = dm(&pts);
    vh::set_unit_grid(GRID, false);
    own_rng(RngMode::Deviations);
    let r = mc::guard(|| KMeans::fit(&x, KMeansParameters::default().with_k(k).with_max_iter(max_iter)));
    let draws = take_draws();
    release_rng();
    let ctx = format!("structured variant {} n={} dim={} k={} max_iter={} draws {:?}", variant, n, dim, k, max_iter, draws.iter().map(|d| d.2).collect::<Vec<_>>());
    let site = "kmeans.fit:structured";
    match r {
        Err(p) => mc::violation(format!("{}:panic", site), format!("{}: {}", ctx, p.brief())),
        Ok(Err(e)) => mc::violation(format!("{}:error", site), format!("{}: {}", ctx, e)),
        Ok(Ok(model)) => {
            let q: Vec<Vec<f64>> = pts.iter().step_by(3).cloned().collect();
            if let Some((cents, y)) = check_model(site, &pts, k, &model, &ctx, &q) {
                mc::nontrivial();
                mc::count("structured_fits");
                if job.params.get("scale").is_some() {
                    mc::count("fits_small_scale");
                }
                if job.params.get("off").is_some() {
                    mc::count("fits_off_centre");
                }
                let flat: Vec<f64> = cents.iter().flatten().map(|x| mc::hash::round_sig(*x, 12)).collect();
                mc::outcome(mc::hash::mix(mc::hash::h_f64s(&flat), mc::hash::h_usizes(&y)));
                mc::describe(|| json!({"op": "KMeans::fit", "structured_variant": variant, "n": n, "dim": dim, "k": k, "max_iter": max_iter, "draws": draws.iter().map(|d| d.2).collect::<Vec<_>>(), "centroids": cents}));
            }
        }
    }
}

impl Harness for C12 {
    fn id(&self) -> &'static str {
        "C12"
    }

    fn plan(&self, tier: Tier, _seed: u64) -> Plan {
        let t = tier.is_thorough();
        let mut jobs = Vec::new();
        // (a) assignment step
        for k in [2usize, 3] {
            for n in 1..=(if t { 5usize } else { 4 }) {
                for pre in prefixes(n.saturating_sub(2).min(2), 4) {
                    jobs.push(Job::new(format!("assign-1d-n{}-k{}-pre{:?}", n, k, pre), json!({"kind": "assign", "n": n, "dim": 1, "side": 4, "k": k, "pre": pre})));
                }
            }
            for n in 1..=(if t { 4usize } else { 3 }) {
                if !t && n == 3 && k == 3 {
                    continue;
                }
                for pre in prefixes((2 * n).saturating_sub(2).min(3), 3) {
                    jobs.push(Job::new(format!("assign-2d-n{}-k{}-pre{:?}", n, k, pre), json!({"kind": "assign", "n": n, "dim": 2, "side": 3, "k": k, "pre": pre})));
                }
            }
        }
        // (a-off) the same assignment families translated far from the origin (Unix-timestamp and
        // 2^27 scale): nearest-centroid decisions are translation invariant
        for &off in &OFFSETS {
            for k in [2usize, 3] {
                for n in 1..=(if t { 4usize } else { 3 }) {
                    jobs.push(Job::new(format!("assign-1d-n{}-k{}-off{}", n, k, off), json!({"kind": "assign", "n": n, "dim": 1, "side": 4, "k": k, "off": off})));
                }
                for n in 1..=(if t { 3usize } else { 2 }) {
                    jobs.push(Job::new(format!("assign-2d-n{}-k{}-off{}", n, k, off), json!({"kind": "assign", "n": n, "dim": 2, "side": 3, "k": k, "off": off})));
                }
            }
        }
        // (b) fit with every seeding schedule; large spaces are split into jobs by leading coordinates
        let mut fit_jobs: Vec<Job> = Vec::new();
        for &off in &OFFSETS {
            for (n, k) in [(3usize, 2usize), (4, 2), (3, 3), (4, 3)] {
                if !t && n == 4 && k == 3 {
                    continue;
                }
                fit_jobs.push(Job::new(format!("fit-1d-n{}-k{}-off{}", n, k, off), json!({"kind": "fit", "n": n, "dim": 1, "side": 4, "k": k, "edges": false, "off": off})));
            }
            fit_jobs.push(Job::new(format!("fit-2d-n3-k2-off{}", off), json!({"kind": "fit", "n": 3, "dim": 2, "side": 3, "k": 2, "edges": false, "off": off})));
        }
        for k in [2usize, 3] {
            for n in k..=(if t { 5 } else { 4 }) {
                let fix = if k == 3 { (n - 1).min(3) } else { (n - 2).min(2) };
                for pre in prefixes(fix, 4) {
                    fit_jobs.push(Job::new(format!("fit-1d-n{}-k{}-pre{:?}", n, k, pre), json!({"kind": "fit", "n": n, "dim": 1, "side": 4, "k": k, "edges": t, "pre": pre})));
                }
            }
            for n in k..=(if t { 4 } else { 3 }) {
                let fix = if k == 3 { 3 } else { 2 };
                for pre in prefixes(fix, 3) {
                    // quick tier, k = 3: only sequences starting at the lattice origin
                    if !t && k == 3 && (pre[0] != 0 || pre[1] != 0) {
                        continue;
                    }
                    fit_jobs.push(Job::new(format!("fit-2d-n{}-k{}-pre{:?}", n, k, pre), json!({"kind": "fit", "n": n, "dim": 2, "side": 3, "k": k, "edges": t, "pre": pre})));
                }
            }
        }
        // small-scale data (coordinates ~1e-4 and ~1e-6): every clause is scale invariant
        // the third scale, 2^-30, puts squared distances (~1e-18) below machine epsilon: an absolute
        // threshold on a squared distance anywhere in fit or predict shows there (1-D / 2-D fits only;
        // the BBD-tree's own leaf threshold of 1e-10 on a cell radius stays below the lattice step)
        for &sc in &[0.0001220703125f64, 9.5367431640625e-7, 9.313225746154785e-10] {
            let tiny = sc < 1e-8;
            for (n, k) in [(3usize, 2usize), (4, 2), (3, 3), (4, 3)] {
                if (!t || tiny) && n == 4 && k == 3 {
                    continue;
                }
                if tiny && !t && n == 4 {
                    continue;
                }
                fit_jobs.push(Job::new(format!("fit-1d-n{}-k{}-scale{:e}", n, k, sc), json!({"kind": "fit", "n": n, "dim": 1, "side": 4, "k": k, "edges": false, "scale": sc})));
            }
            fit_jobs.push(Job::new(format!("fit-2d-n3-k2-scale{:e}", sc), json!({"kind": "fit", "n": 3, "dim": 2, "side": 3, "k": 2, "edges": false, "scale": sc})));
            if tiny {
                continue;
            }
            for &n in &[12usize, 40] {
                for dim in [1usize, 2, 3] {
                    for k in [2usize, 3] {
                        for variant in 0..4usize {
                            jobs.push(Job::new(format!("structured-v{}-n{}-d{}-k{}-scale{:e}", variant, n, dim, k, sc), json!({"kind": "structured", "n": n, "dim": dim, "k": k, "variant": variant, "scale": sc})).with_dev_bound(if t { 2 } else { 1 }));
                        }
                    }
                }
            }
        }
        if !t {
            // the edge answers on the smallest instances only
            jobs.push(Job::new("fit-1d-n3-k2-edges", json!({"kind": "fit", "n": 3, "dim": 1, "side": 4, "k": 2, "edges": true})));
            jobs.push(Job::new("fit-1d-n3-k3-edges", json!({"kind": "fit", "n": 3, "dim": 1, "side": 3, "k": 3, "edges": true})));
        }
        // (a') assignment step on larger structured sets (big tree cells)
        for &n in if t { &[36usize, 57, 100, 200][..] } else { &[36usize, 57][..] } {
            for dim in [1usize, 2, 3] {
                for k in [2usize, 3] {
                    for variant in 0..6usize {
                        if variant == 5 && dim == 1 {
                            continue;
                        }
                        jobs.push(Job::new(format!("assign-structured-v{}-n{}-d{}-k{}", variant, n, dim, k), json!({"kind": "assign-structured", "n": n, "dim": dim, "k": k, "variant": variant})));
                        for &off in &OFFSETS {
                            jobs.push(Job::new(format!("assign-structured-v{}-n{}-d{}-k{}-off{}", variant, n, dim, k, off), json!({"kind": "assign-structured", "n": n, "dim": dim, "k": k, "variant": variant, "off": off})));
                        }
                    }
                }
            }
        }
        // (a'') adjacent large doubles in one column: the tree construction used to run off the
        // front of its index there (repaired)
        for n in [8usize, 36] {
            for dim in [1usize, 2, 3] {
                for k in [2usize, 3] {
                    jobs.push(Job::new(format!("assign-structured-v6-n{}-d{}-k{}", n, dim, k), json!({"kind": "assign-structured", "n": n, "dim": dim, "k": k, "variant": 6})));
                }
            }
        }
        // (c) structured, deviation-bounded seeding
        let ns: &[usize] = if t { &[12, 40, 120, 300] } else { &[12, 40] };
        for &n in ns {
            for dim in [1usize, 2, 3, 6] {
                for k in [2usize, 3, 5, 8] {
                    for variant in 0..4usize {
                        if !t && (dim == 6 || k == 8) && n > 12 {
                            continue;
                        }
                        jobs.push(Job::new(format!("structured-v{}-n{}-d{}-k{}", variant, n, dim, k), json!({"kind": "structured", "n": n, "dim": dim, "k": k, "variant": variant})).with_dev_bound(if t { 2 } else { 1 }));
                        if dim <= 3 && k <= 3 {
                            for &off in &OFFSETS {
                                jobs.push(Job::new(format!("structured-v{}-n{}-d{}-k{}-off{}", variant, n, dim, k, off), json!({"kind": "structured", "n": n, "dim": dim, "k": k, "variant": variant, "off": off})).with_dev_bound(if t { 2 } else { 1 }));
                            }
                        }
                    }
                }
            }
        }
        // cheap, diverse jobs first; the large all-schedule fit jobs last
        jobs.extend(fit_jobs);
        jobs.insert(0, Job::new("builders", json!({"kind": "builders"})));
        {
            let j = &mut jobs;
            for i in 0..mc_sc::entry::n_parts("C12") {
                j.insert(1 + i, Job::new(format!("entry-{}", i), json!({"kind": "entry", "part": i})));
            }
        }
        Plan {
            jobs,
            budget_s: if t { 2400 } else { 40 },
            case_deadline_ms: 20_000,
            floors: vec![("builder_chains", 5), ("entry_cases", 1000), ("assignment_ties", 1000), ("coincident_centroids", 1000), ("far_centroids", 1000), ("duplicate_rows", 1000), ("fits_to_convergence", 1000), ("edge_schedules", 10), ("structured_fits", 100), ("final_empty_cluster", 10), ("assignment_structured", 1000), ("assignment_off_centre", 10_000), ("fits_off_centre", 1000), ("fits_small_scale", 500)],
            bounds: json!({
                "builders": mc_sc::builders::BOUNDS,
                "entry_paths": mc_sc::entry::BOUNDS,
                "small_scale": "1-D / 2-D all-schedule fits (n<=4) and the structured fits (n in {12,40}, dim<=3, k<=3) with every coordinate multiplied by 2^-13 and 2^-20, the 1-D / 2-D fits also by 2^-30 where squared distances fall below machine epsilon (tolerances scaled with the data)", "off_centre": "assignment lattices (n<=3 1-D, n<=2 2-D; one more in thorough), the structured assignment families, 1-D/2-D all-schedule fits (n<=4) and the structured fits (dim<=3, k<=3) repeated with every coordinate translated by 2^27 and by 1.7e9 (exact in f64): same oracle, decisions are translation invariant", "assignment_step_structured": "6 structured families (incl. grid + off-corner group, mixed-scale columns: 5e11 next to steps of 2^-16, and a column of adjacent doubles 5e11 / 5e11+1ulp), n in {36,57} (up to 200 thorough), 1..3 dimensions, every centroid multiset of size 2,3 from 10 data-derived candidates", "assignment_step": "every point sequence n<=4 (5 thorough) on {0..3} and n<=3 (4) on the 3x3 lattice x every centroid multiset of size 2,3 from the half-step grid plus far points",
                "fit": format!("every such sequence (quick tier, 2-D with k=3: those starting at the lattice origin) with >=k distinct rows x k in {{2,3}} x max_iter in {{1,2,100}} x every first-index draw x every cutoff draw on a {}-point grid (covers every index of positive weight); edge answers u=0 and u=1-2^-53 on all instances in the thorough tier, on two small families in the quick tier", GRID),
                "structured": "4 families, n up to 40 (300 thorough), 1..6 dimensions, k up to 8, seeding schedules with at most 1 (2) non-default answers",
            }),
        }
    }

    fn run(&self, job: &Job) {
        if job.kind() == "entry" {
            return mc_sc::entry::run_part("C12", job.u("part"));
        }
        match job.kind() {
            "assign" => assignment_case(job),
            "assign-structured" => assignment_structured_case(job),
            "fit" => fit_case(job),
            "structured" => structured_case(job),
            "builders" => mc_sc::builders::run("C12"),
            other => panic!("unknown job kind {}", other),
        }
    }

    fn cleanup(&self) {
        release_rng();
    }

    fn rule(&self) -> String {
        "one execution = one (point sequence, centroid multiset) for the assignment step, or one (point sequence, k, max_iter, complete k-means++ answer sequence) for fit; executions on data with fewer than k distinct rows are skipped as outside the property's domain; non-trivial = the library returned a result that was checked; distinct = digest of (membership, distortion) / (centroids, assignments)".into()
    }

    fn assumptions(&self) -> Vec<String> {
        vec![
            format!("cutoff draws are taken from the {} grid mid-points (j+1/2)/{}: on the integer lattices used ΣD² <= {} so each index with positive selection probability is reached; draws between grid points select the same indices", GRID, GRID, GRID),
            "the fitted model is read through its serde serialisation (fields centroids, _y, size)".into(),
            "the RNG call sites of /repo/src equal /verif/rng_sites.allow (checked at start-up)".into(),
        ]
    }
}

fn main() {
    if let Err(e) = mc_sc::check_rng_sites() {
        eprintln!("MACHINERY-ERROR: {}", e);
        std::process::exit(2);
    }
    mc::main(C12)
}
