//! Decompositions and deterministic estimators on the three backends: ONE generic function, the
//! same data and parameters, flat observations compared with those of the built-in backend.

use crate::bk::{build, view, vview, Bk, NAMES};
use crate::model::{abbr, close, has_near_pair, off_centre, M};
use mc_core::{self as mc, json, PanicInfo};
use smartcore::algorithm::neighbour::KNNAlgorithmName;
use smartcore::cluster::dbscan::{DBSCANParameters, DBSCAN};
use smartcore::decomposition::pca::{PCAParameters, PCA};
use smartcore::decomposition::svd::{SVDParameters, SVD};
use smartcore::ensemble::random_forest_classifier::{RandomForestClassifier, RandomForestClassifierParameters};
use smartcore::ensemble::random_forest_regressor::{RandomForestRegressor, RandomForestRegressorParameters};
use smartcore::linalg::naive::dense_matrix::DenseMatrix;
use smartcore::linalg::{BaseMatrix, BaseVector};
use smartcore::linear::elastic_net::{ElasticNet, ElasticNetParameters};
use smartcore::linear::lasso::{Lasso, LassoParameters};
use smartcore::linear::linear_regression::{LinearRegression, LinearRegressionParameters, LinearRegressionSolverName};
use smartcore::linear::logistic_regression::{LogisticRegression, LogisticRegressionParameters};
use smartcore::linear::ridge_regression::{RidgeRegression, RidgeRegressionParameters, RidgeRegressionSolverName};
use smartcore::math::distance::mahalanobis::Mahalanobis;
use smartcore::math::distance::{Distance, Distances};
use smartcore::naive_bayes::bernoulli::{BernoulliNB, BernoulliNBParameters};
use smartcore::naive_bayes::categorical::{CategoricalNB, CategoricalNBParameters};
use smartcore::naive_bayes::gaussian::{GaussianNB, GaussianNBParameters};
use smartcore::naive_bayes::multinomial::{MultinomialNB, MultinomialNBParameters};
use smartcore::neighbors::knn_classifier::{KNNClassifier, KNNClassifierParameters};
use smartcore::neighbors::knn_regressor::{KNNRegressor, KNNRegressorParameters};
use smartcore::neighbors::KNNWeightFunction;
use smartcore::preprocessing::categorical::{OneHotEncoder, OneHotEncoderParams};
use smartcore::svm::svc::{SVCParameters, SVC};
use smartcore::svm::svr::{SVRParameters, SVR};
use smartcore::svm::{Kernel, Kernels};
use smartcore::tree::decision_tree_classifier::{DecisionTreeClassifier, DecisionTreeClassifierParameters, SplitCriterion};
use smartcore::tree::decision_tree_regressor::{DecisionTreeRegressor, DecisionTreeRegressorParameters};
use std::sync::Mutex;

/// (name, number of configurations, target kind: 0 regression / 1 two classes / 2 up to three classes / 3 none,
/// needs a square input)
pub const ESTS: [(&str, usize, u8); 28] = [
    ("linear_regression", 2, 0),
    ("ridge_regression", 4, 0),
    ("lasso", 4, 0),
    ("elastic_net", 2, 0),
    ("logistic_regression", 2, 2),
    ("gaussian_nb", 1, 2),
    ("multinomial_nb", 1, 2),
    ("bernoulli_nb", 1, 2),
    ("categorical_nb", 1, 2),
    ("knn_classifier", 12, 2),
    ("knn_regressor", 12, 0),
    ("decision_tree_classifier", 3, 2),
    ("decision_tree_regressor", 1, 0),
    ("random_forest_classifier", 2, 2),
    ("random_forest_regressor", 2, 0),
    ("svr", 2, 0),
    ("pca", 4, 3),
    ("truncated_svd", 2, 3),
    ("one_hot_encoder", 2, 3),
    ("dbscan", 4, 3),
    ("mahalanobis", 1, 3),
    ("metrics", 1, 2),
    ("lu", 1, 3),
    ("qr", 1, 3),
    ("svd", 1, 3),
    ("evd_general", 1, 3),
    ("evd_symmetric", 1, 3),
    ("cholesky", 1, 3),
];
pub const FIRST_DECOMPOSITION: usize = 22;

/// Extension (round 2): estimators / distance functions on data with N feature columns (`long.rs`);
/// estimator number = `LONG_BASE` + index. (name, number of configurations, target kind)
pub const LONG_ESTS: [(&str, usize, u8); 4] = [("svr_linear_long", 1, 0), ("svc_linear_long", 1, 1), ("distances_long", 1, 3), ("knn_long", 4, 1)];
pub const LONG_BASE: usize = 100;
pub const E_SVC_LONG: usize = LONG_BASE + 1;
pub const E_DIST_LONG: usize = LONG_BASE + 2;

pub fn entry(e: usize) -> (&'static str, usize, u8) {
    if e >= LONG_BASE {
        LONG_ESTS[e - LONG_BASE]
    } else {
        ESTS[e]
    }
}

fn is_decomposition(e: usize) -> bool {
    (FIRST_DECOMPOSITION..ESTS.len()).contains(&e)
}
/// estimators whose fit is known not to terminate on a backend on the unchanged tree: their
/// nalgebra run is first probed in a child process (see `run_case`)
pub const HANG_PRONE: [usize; 2] = [2, 3];
/// observed hangs per (job, backend, estimator) after which the backend is no longer run in the job
pub const HANG_LIMIT: [u32; 3] = [0, 2, 1];

#[derive(Clone, Debug)]
pub struct Data {
    pub x: M,
    pub y: Vec<f64>,
    pub q: M,
    /// how `x` was generated, for data too long to print in every violation line (empty: print `x`);
    /// the replay file always has the full matrices
    pub label: String,
}

fn knn_cfg(cfg: usize) -> (usize, KNNAlgorithmName, KNNWeightFunction) {
    (1 + cfg % 3, if (cfg / 3) % 2 == 0 { KNNAlgorithmName::LinearSearch } else { KNNAlgorithmName::CoverTree }, if cfg / 6 == 0 { KNNWeightFunction::Uniform } else { KNNWeightFunction::Distance })
}

/// The generic estimator run: fit on (x, y), observe the fitted model and its answers on q.
pub fn est<B: Bk>(e: usize, cfg: usize, d: &Data, lx: usize) -> Result<Vec<f64>, String> {
    let x: B = build(&d.x, lx);
    let q: B = build(&d.q, 0);
    let y = B::RowVector::from_array(&d.y);
    let mut o: Vec<f64> = Vec::new();
    let s = |e: smartcore::error::Failed| e.to_string();
    fn pm<B: BaseMatrix<f64>>(o: &mut Vec<f64>, m: &B) {
        let v = view(m);
        o.push(v.r as f64);
        o.push(v.c as f64);
        o.extend(v.v);
    }
    fn pv<V: BaseVector<f64>>(o: &mut Vec<f64>, v: &V) {
        o.push(v.len() as f64);
        o.extend(vview(v));
    }
    fn pvv(o: &mut Vec<f64>, v: &[Vec<f64>]) {
        for r in v {
            o.extend(r);
        }
    }
    match e {
        0 => {
            let m = LinearRegression::<f64, B>::fit(&x, &y, LinearRegressionParameters::default().with_solver(if cfg == 0 { LinearRegressionSolverName::QR } else { LinearRegressionSolverName::SVD })).map_err(s)?;
            pm(&mut o, m.coefficients());
            o.push(m.intercept());
            pv(&mut o, &m.predict(&q).map_err(s)?);
        }
        1 => {
            let p = RidgeRegressionParameters { solver: if cfg % 2 == 0 { RidgeRegressionSolverName::Cholesky } else { RidgeRegressionSolverName::SVD }, alpha: 0.5, normalize: cfg / 2 == 1 };
            let m = RidgeRegression::<f64, B>::fit(&x, &y, p).map_err(s)?;
            pm(&mut o, m.coefficients());
            o.push(m.intercept());
            pv(&mut o, &m.predict(&q).map_err(s)?);
        }
        2 => {
            let p = LassoParameters { alpha: if cfg % 2 == 0 { 0.1 } else { 1.0 }, normalize: cfg / 2 == 1, tol: 1e-4, max_iter: 1000 };
            let m = Lasso::<f64, B>::fit(&x, &y, p).map_err(s)?;
            pm(&mut o, m.coefficients());
            o.push(m.intercept());
            pv(&mut o, &m.predict(&q).map_err(s)?);
        }
        3 => {
            let p = ElasticNetParameters { alpha: 0.5, l1_ratio: 0.5, normalize: cfg == 1, tol: 1e-4, max_iter: 1000 };
            let m = ElasticNet::<f64, B>::fit(&x, &y, p).map_err(s)?;
            pm(&mut o, m.coefficients());
            o.push(m.intercept());
            pv(&mut o, &m.predict(&q).map_err(s)?);
        }
        4 => {
            let m = LogisticRegression::<f64, B>::fit(&x, &y, LogisticRegressionParameters::default().with_alpha(if cfg == 0 { 1.0 } else { 0.25 })).map_err(s)?;
            pm(&mut o, m.coefficients());
            pm(&mut o, m.intercept());
            pv(&mut o, &m.predict(&q).map_err(s)?);
        }
        5 => {
            let m = GaussianNB::<f64, B>::fit(&x, &y, GaussianNBParameters::default()).map_err(s)?;
            pvv(&mut o, m.theta());
            pvv(&mut o, m.var());
            o.extend(m.class_priors());
            pv(&mut o, &m.predict(&q).map_err(s)?);
        }
        6 => {
            let m = MultinomialNB::<f64, B>::fit(&x, &y, MultinomialNBParameters::default()).map_err(s)?;
            pvv(&mut o, m.feature_log_prob());
            pv(&mut o, &m.predict(&q).map_err(s)?);
        }
        7 => {
            let m = BernoulliNB::<f64, B>::fit(&x, &y, BernoulliNBParameters::default().with_binarize(0.5)).map_err(s)?;
            pvv(&mut o, m.feature_log_prob());
            pv(&mut o, &m.predict(&q).map_err(s)?);
        }
        8 => {
            let m = CategoricalNB::<f64, B>::fit(&x, &y, CategoricalNBParameters::default()).map_err(s)?;
            for f in m.feature_log_prob() {
                pvv(&mut o, f);
            }
            pv(&mut o, &m.predict(&q).map_err(s)?);
        }
        9 => {
            let (k, alg, w) = knn_cfg(cfg);
            let m = KNNClassifier::fit(&x, &y, KNNClassifierParameters::default().with_k(k).with_algorithm(alg).with_weight(w)).map_err(s)?;
            pv(&mut o, &m.predict(&q).map_err(s)?);
        }
        10 => {
            let (k, alg, w) = knn_cfg(cfg);
            let m = KNNRegressor::fit(&x, &y, KNNRegressorParameters::default().with_k(k).with_algorithm(alg).with_weight(w)).map_err(s)?;
            pv(&mut o, &m.predict(&q).map_err(s)?);
        }
        11 => {
            let criterion = [SplitCriterion::Gini, SplitCriterion::Entropy, SplitCriterion::ClassificationError][cfg].clone();
            let m = DecisionTreeClassifier::fit(&x, &y, DecisionTreeClassifierParameters { criterion, max_depth: None, min_samples_leaf: 1, min_samples_split: 2 }).map_err(s)?;
            pv(&mut o, &m.predict(&q).map_err(s)?);
            pv(&mut o, &m.predict(&x).map_err(s)?);
        }
        12 => {
            let m = DecisionTreeRegressor::fit(&x, &y, DecisionTreeRegressorParameters { max_depth: None, min_samples_leaf: 1, min_samples_split: 2 }).map_err(s)?;
            pv(&mut o, &m.predict(&q).map_err(s)?);
            pv(&mut o, &m.predict(&x).map_err(s)?);
        }
        13 => {
            let m = RandomForestClassifier::fit(&x, &y, RandomForestClassifierParameters::default().with_n_trees(3).with_seed(7 + cfg as u64)).map_err(s)?;
            pv(&mut o, &m.predict(&q).map_err(s)?);
        }
        14 => {
            let m = RandomForestRegressor::fit(&x, &y, RandomForestRegressorParameters::default().with_n_trees(3).with_seed(7 + cfg as u64)).map_err(s)?;
            pv(&mut o, &m.predict(&q).map_err(s)?);
        }
        15 => {
            let m = if cfg == 0 {
                SVR::fit(&x, &y, SVRParameters::<f64, B, _>::default().with_eps(0.1).with_c(1.0)).map_err(s)?.predict(&q).map_err(s)?
            } else {
                SVR::fit(&x, &y, SVRParameters::<f64, B, _>::default().with_eps(0.1).with_c(1.0).with_kernel(Kernels::rbf(0.5))).map_err(s)?.predict(&q).map_err(s)?
            };
            pv(&mut o, &m);
        }
        16 => {
            let m = PCA::<f64, B>::fit(&x, PCAParameters::default().with_n_components(1 + cfg % 2).with_use_correlation_matrix(cfg / 2 == 1)).map_err(s)?;
            pm(&mut o, m.components());
            pm(&mut o, &m.transform(&q).map_err(s)?);
        }
        17 => {
            let m = SVD::<f64, B>::fit(&x, SVDParameters::default().with_n_components(1 + cfg)).map_err(s)?;
            pm(&mut o, m.components());
            pm(&mut o, &m.transform(&q).map_err(s)?);
        }
        18 => {
            let m = OneHotEncoder::fit(&x, OneHotEncoderParams::from_cat_idx(if cfg == 0 { &[0usize][..] } else { &[0usize, 1][..] })).map_err(s)?;
            pm(&mut o, &m.transform(&x).map_err(s)?);
        }
        19 => {
            let m = DBSCAN::fit(&x, DBSCANParameters::default().with_eps(if cfg % 2 == 0 { 1.0 } else { 1.5 }).with_min_samples(2 + cfg / 2)).map_err(s)?;
            pv(&mut o, &m.predict(&x).map_err(s)?);
            pv(&mut o, &m.predict(&q).map_err(s)?);
        }
        20 => {
            let m = Mahalanobis::new(&x);
            o.push(m.distance(&d.x.row(0), &d.x.row(1)));
        }
        21 => {
            // metrics on backend vectors: the targets against a rotated copy and against scores
            let mut rot = d.y.clone();
            rot.rotate_left(1);
            let p = B::RowVector::from_array(&rot);
            let sc = B::RowVector::from_array(&(0..d.y.len()).map(|i| ((i * 7) % 5) as f64 / 4.0).collect::<Vec<_>>());
            let ybv: Vec<f64> = d.y.iter().map(|v| v.min(1.0)).collect();
            let yb = B::RowVector::from_array(&ybv);
            let mut rb = ybv.clone();
            rb.rotate_left(1);
            let pb = B::RowVector::from_array(&rb);
            use smartcore::metrics as mt;
            o.extend([mt::accuracy(&y, &p), mt::precision(&yb, &pb), mt::recall(&yb, &pb), mt::f1(&yb, &pb, 1.0), mt::roc_auc_score(&yb, &sc), mt::mean_squared_error(&y, &p), mt::mean_absolute_error(&y, &p), mt::r2(&y, &p)]);
            o.extend([mt::homogeneity_score(&y, &p), mt::completeness_score(&y, &p), mt::v_measure_score(&y, &p)]);
        }
        22 => {
            let lu = x.lu().map_err(s)?;
            pm(&mut o, &lu.L());
            pm(&mut o, &lu.U());
            pm(&mut o, &lu.pivot());
            match lu.inverse() {
                Ok(inv) => pm(&mut o, &inv),
                Err(_) => o.push(-1.0),
            }
            match x.clone().lu_solve_mut(build(&rhs(d.x.r), 0)) {
                Ok(z) => pm(&mut o, &z),
                Err(_) => o.push(-1.0),
            }
        }
        23 => {
            let qr = x.qr().map_err(s)?;
            pm(&mut o, &qr.Q());
            pm(&mut o, &qr.R());
            match x.clone().qr_solve_mut(build(&rhs(d.x.r), 0)) {
                Ok(z) => pm(&mut o, &z),
                Err(_) => o.push(-1.0),
            }
        }
        24 => {
            let svd = x.svd().map_err(s)?;
            pm(&mut o, &svd.U);
            pm(&mut o, &svd.V);
            o.extend(&svd.s);
            match x.svd_solve(build(&rhs(d.x.r), 0)) {
                Ok(z) => pm(&mut o, &z),
                Err(_) => o.push(-1.0),
            }
        }
        25 | 26 => {
            let evd = x.evd(e == 26).map_err(s)?;
            o.extend(&evd.d);
            o.extend(&evd.e);
            pm(&mut o, &evd.V);
        }
        100 => {
            // linear-kernel SVR: the decision values go through the row-vector dot product of the backend
            let m = SVR::fit(&x, &y, SVRParameters::<f64, B, _>::default().with_eps(0.1).with_c(1.0)).map_err(s)?;
            pv(&mut o, &m.predict(&q).map_err(s)?);
            pv(&mut o, &m.predict(&x).map_err(s)?);
        }
        101 => {
            // linear-kernel SVC; the visiting order of the trainer is owned by the explorer (the
            // job's deviation bound 0 = the default answer to every draw, the same on all backends)
            mc_sc::own_rng(mc_sc::RngMode::Deviations);
            let r = SVC::fit(&x, &y, SVCParameters::<f64, B, _>::default().with_c(1.0).with_epoch(2));
            mc_sc::release_rng();
            let m = r.map_err(s)?;
            pv(&mut o, &m.decision_function(&q).map_err(s)?);
            pv(&mut o, &m.predict(&q).map_err(s)?);
            pv(&mut o, &m.decision_function(&x).map_err(s)?);
        }
        102 => {
            // distance functions and kernels on every (data row, query row) pair; the points are
            // read out of the backend in three ways, the kernels work on the backend's row vectors
            let (euc, man, ham) = (Distances::euclidian(), Distances::manhattan(), Distances::hamming());
            let (lin, rbf) = (Kernels::linear(), Kernels::rbf(crate::long::RBF_GAMMA));
            let poly = Kernels::polynomial(crate::long::POLY.0, crate::long::POLY.1, crate::long::POLY.2);
            let sig = Kernels::sigmoid(crate::long::SIGMOID.0, crate::long::SIGMOID.1);
            for i in 0..d.x.r {
                for k in 0..d.q.r {
                    let a = x.get_row_as_vec(i);
                    let b = match (i + k) % 3 {
                        0 => q.get_row_as_vec(k),
                        1 => q.get_row(k).to_vec(),
                        _ => {
                            let mut buf = vec![0.0; d.q.c];
                            q.copy_row_as_vec(k, &mut buf);
                            buf
                        }
                    };
                    o.push(euc.distance(&a, &b));
                    o.push(man.distance(&a, &b));
                    for p in 1..=3u16 {
                        o.push(Distances::minkowski(p).distance(&a, &b));
                    }
                    o.push(ham.distance(&a, &b));
                    let (ra, rb) = (x.get_row(i), q.get_row(k));
                    o.push(lin.apply(&ra, &rb));
                    o.push(rbf.apply(&ra, &rb));
                    o.push(poly.apply(&ra, &rb));
                    o.push(sig.apply(&ra, &rb));
                }
            }
        }
        103 => {
            let (k, alg) = (1 + cfg % 2, if cfg / 2 == 0 { KNNAlgorithmName::LinearSearch } else { KNNAlgorithmName::CoverTree });
            let m = KNNClassifier::fit(&x, &y, KNNClassifierParameters::default().with_k(k).with_algorithm(alg)).map_err(s)?;
            pv(&mut o, &m.predict(&q).map_err(s)?);
            pv(&mut o, &m.predict(&x).map_err(s)?);
        }
        _ => {
            let ch = x.cholesky().map_err(s)?;
            pm(&mut o, &ch.L());
            pm(&mut o, &ch.U());
            match x.clone().cholesky_solve_mut(build(&rhs(d.x.r), 0)) {
                Ok(z) => pm(&mut o, &z),
                Err(_) => o.push(-1.0),
            }
        }
    }
    Ok(o)
}

fn rhs(n: usize) -> M {
    M::new(n, 1, |i, _| (i as f64) * 2.0 - 1.0)
}

/// What one backend did with one estimator case.
#[derive(Clone, Debug)]
pub enum EOut {
    Vals(Vec<f64>),
    Failed(String),
    Panic(PanicInfo),
    Hang,
    /// not run: a fit of this estimator on this backend was observed not to terminate in this job
    Skipped,
}

impl EOut {
    fn show(&self) -> String {
        match self {
            EOut::Vals(v) => abbr(v, 40, 8),
            EOut::Failed(m) => format!("Err({})", m),
            EOut::Panic(p) => p.brief(),
            EOut::Hang => "no result within the probe deadline (does not terminate)".into(),
            EOut::Skipped => "not run".into(),
        }
    }
    fn kind(&self) -> u8 {
        match self {
            EOut::Vals(_) => 0,
            EOut::Failed(_) => 1,
            EOut::Panic(_) => 2,
            EOut::Hang => 3,
            EOut::Skipped => 4,
        }
    }
}

pub fn run_ix(ix: usize, e: usize, cfg: usize, d: &Data, lx: usize) -> EOut {
    let r = match ix {
        0 => mc::guard(|| est::<DenseMatrix<f64>>(e, cfg, d, lx)),
        1 => mc::guard(|| est::<ndarray::Array2<f64>>(e, cfg, d, lx)),
        _ => mc::guard(|| est::<nalgebra::DMatrix<f64>>(e, cfg, d, lx)),
    };
    // the RNG goes back to the library also when the SVC fit panicked
    mc_sc::release_rng();
    match r {
        Ok(Ok(v)) => EOut::Vals(v),
        Ok(Err(m)) => EOut::Failed(m),
        Err(p) => EOut::Panic(p),
    }
}

/// Relative tolerance (on max(1,|v|)) of the comparison with the built-in backend. Direct methods:
/// the generic code performs the same operations in the same order on every backend, only the
/// bindings' native reductions (sum, dot, norms, matmul) round differently. Iterative solvers stop
/// at their own tolerance, so a rounding difference may shift the final iterate by about that much.
fn tol_of(e: usize) -> f64 {
    match e {
        2 | 3 => 1e-4,
        4 | 15 => 1e-5,
        _ => 1e-8,
    }
}

fn close_tol(x: f64, y: f64, tol: f64) -> bool {
    close(x, y, 0.0) || (x.is_finite() && y.is_finite() && (x - y).abs() <= tol * x.abs().max(y.abs()).max(1.0))
}

/// Positions of `dense`'s observation vector that are not compared: predicted labels of the
/// logistic regression for queries whose decision margin (computed here from the dense model's
/// coefficients) is below 1e-3 - there a rounding-level difference may legitimately flip the label.
fn mask_of(e: usize, dense: &[f64], d: &Data) -> Vec<bool> {
    let mut m = vec![false; dense.len()];
    if e != 4 || dense.len() < 4 {
        return m;
    }
    let (k, p) = (dense[0] as usize, dense[1] as usize);
    let w = &dense[2..2 + k * p];
    let b0 = 2 + k * p + 2;
    if dense.len() < b0 + k + 1 + d.q.r || p != d.q.c {
        return m;
    }
    let b = &dense[b0..b0 + k];
    let pred0 = b0 + k + 1;
    for i in 0..d.q.r {
        let mut z: Vec<f64> = (0..k).map(|c| (0..p).map(|j| w[c * p + j] * d.q.at(i, j)).sum::<f64>() + b[c]).collect();
        let margin = if k == 1 {
            z[0].abs()
        } else {
            z.sort_by(|a, b| b.partial_cmp(a).unwrap_or(std::cmp::Ordering::Equal));
            z[0] - z[1]
        };
        if !(margin > 1e-3) {
            m[pred0 + i] = true;
        }
    }
    m
}

/// Off-centre data (value family 1 of `vals.rs`): the intercept of a linear model is
/// `mean(y) - sum_j w_j mean(x_j)`, an extrapolation to the origin that lies `|offset| / spread`
/// spreads away from the data; a difference of `tol` in the coefficients (which is what "equal up
/// to rounding / up to the solver's tolerance" grants them) moves it by `tol * sum_j |w_j| max_i |x_ij|`.
/// The intercept (position 2 + p of the observations of the linear models) is therefore compared
/// at that scale; coefficients and predictions at the data keep the usual tolerance.
fn intercept_tolerance(e: usize, dense: &[f64], d: &Data, tol: f64) -> Option<(usize, f64)> {
    if e > 3 || dense.len() < 3 {
        return None;
    }
    let p = (dense[0] * dense[1]) as usize;
    if p != d.x.c || dense.len() < 3 + p {
        return None;
    }
    let scale: f64 = (0..p).map(|j| dense[2 + j].abs() * d.x.col(j).iter().fold(0.0f64, |m, v| m.max(v.abs()))).sum();
    Some((2 + p, tol * scale.max(1.0)))
}

fn same(a: &EOut, b: &EOut, tol: f64, mask: &[bool], extra: Option<(usize, f64)>) -> bool {
    match (a, b) {
        (EOut::Vals(x), EOut::Vals(y)) => x.len() == y.len() && x.iter().zip(y).enumerate().all(|(i, (p, q))| mask.get(i).copied().unwrap_or(false) || close_tol(*p, *q, tol) || matches!(extra, Some((k, t)) if k == i && (p - q).abs() <= t)),
        _ => a.kind() == b.kind(),
    }
}

// ------------------------------------------------------------------------------------------------
// nearly-equal class labels (value family 2 of `vals.rs`): labels are only names

/// Classifiers whose answer must not depend on how the classes are NAMED (as long as the order of
/// the names is kept): the four naive Bayes, the k-NN classifier, the decision tree classifier.
const LABEL_NAMING: [usize; 6] = [5, 6, 7, 8, 9, 11];

/// When all class labels come from the nearly-equal alphabet and two of them are one ulp apart:
/// the same labels under their order-preserving integer names 0..3.
fn renamed_labels(e: usize, d: &Data) -> Option<Vec<f64>> {
    if !LABEL_NAMING.contains(&e) || !has_near_pair(&d.y) {
        return None;
    }
    d.y.iter().map(|v| crate::vals::ne_rank(*v)).collect()
}

/// Positions of the observation vector that hold predicted class labels.
fn label_positions(e: usize, d: &Data, len: usize) -> Vec<usize> {
    if e == 11 {
        // [q.r, labels of the queries, x.r, labels of the training rows]
        (1..=d.q.r).chain(d.q.r + 2..len).collect()
    } else {
        (len.saturating_sub(d.q.r)..len).collect()
    }
}

// ------------------------------------------------------------------------------------------------
// termination guard: fits that may not terminate run in a child process with a per-case deadline

pub const PROBE_FLAG: &str = "--c20-probe";
const PROBE_DEADLINE_MS: u64 = 250;

/// CPU time (user + system, ms) consumed so far by process `pid` (Linux /proc, 100 ticks per second).
fn cpu_ms(pid: u32) -> Option<u64> {
    let s = std::fs::read_to_string(format!("/proc/{}/stat", pid)).ok()?;
    let rest = &s[s.rfind(')')? + 1..];
    let f: Vec<&str> = rest.split_whitespace().collect();
    Some((f.get(11)?.parse::<u64>().ok()? + f.get(12)?.parse::<u64>().ok()?) * 10)
}

fn data_of(v: &serde_json::Value) -> (usize, usize, usize, usize, Data) {
    let g = |k: &str| v[k].as_u64().unwrap_or(0) as usize;
    let fv = |k: &str| -> Vec<f64> { v[k].as_array().map(|a| a.iter().map(|x| x.as_f64().unwrap_or(f64::NAN)).collect()).unwrap_or_default() };
    (g("ix"), g("e"), g("cfg"), g("lx"), Data { x: M { r: g("xr"), c: g("xc"), v: fv("x") }, y: fv("y"), q: M { r: g("qr"), c: g("qc"), v: fv("q") }, label: String::new() })
}

/// Child side (`c20 --c20-probe`): one request per input line, one answer line per request.
pub fn probe_main() -> ! {
    use std::io::{BufRead, Write};
    mc::guard::install_quiet_hook();
    // self-destruct if one request runs far beyond the parent's deadline (the parent may be gone)
    static BUSY_SINCE: std::sync::atomic::AtomicU64 = std::sync::atomic::AtomicU64::new(0);
    let t0 = std::time::Instant::now();
    std::thread::spawn(move || loop {
        std::thread::sleep(std::time::Duration::from_millis(500));
        let b = BUSY_SINCE.load(std::sync::atomic::Ordering::Relaxed);
        if b != 0 && t0.elapsed().as_millis() as u64 > b + 80 * PROBE_DEADLINE_MS {
            std::process::exit(3);
        }
    });
    let stdin = std::io::stdin();
    let mut out = std::io::stdout();
    for line in stdin.lock().lines().map_while(Result::ok) {
        let Ok(v) = serde_json::from_str::<serde_json::Value>(&line) else { std::process::exit(4) };
        let (ix, e, cfg, lx, d) = data_of(&v);
        BUSY_SINCE.store(t0.elapsed().as_millis() as u64 + 1, std::sync::atomic::Ordering::Relaxed);
        let j = match run_ix(ix, e, cfg, &d, lx) {
            EOut::Vals(v) => json!({"vals": v.iter().map(|x| x.to_bits().to_string()).collect::<Vec<_>>()}),
            EOut::Failed(m) => json!({"failed": m}),
            EOut::Panic(p) => json!({"panic": p.msg, "loc": p.loc}),
            _ => json!({}),
        };
        BUSY_SINCE.store(0, std::sync::atomic::Ordering::Relaxed);
        if writeln!(out, "{}", j).is_err() || out.flush().is_err() {
            break;
        }
    }
    std::process::exit(0)
}

struct Server {
    child: std::process::Child,
    stdin: std::process::ChildStdin,
    rx: std::sync::mpsc::Receiver<String>,
}

static SERVER: Mutex<Option<Server>> = Mutex::new(None);

fn spawn_server() -> Result<Server, String> {
    let exe = std::env::current_exe().map_err(|e| e.to_string())?;
    let mut child = std::process::Command::new(exe).arg(PROBE_FLAG).stdin(std::process::Stdio::piped()).stdout(std::process::Stdio::piped()).stderr(std::process::Stdio::null()).spawn().map_err(|e| e.to_string())?;
    let stdin = child.stdin.take().ok_or("no stdin")?;
    let stdout = child.stdout.take().ok_or("no stdout")?;
    let (tx, rx) = std::sync::mpsc::channel();
    std::thread::spawn(move || {
        use std::io::BufRead;
        for l in std::io::BufReader::new(stdout).lines().map_while(Result::ok) {
            if tx.send(l).is_err() {
                break;
            }
        }
    });
    Ok(Server { child, stdin, rx })
}

/// Parent side: the case in the child process; `Hang` if there is no answer within the deadline
/// (the child is then killed and replaced).
fn guarded(ix: usize, e: usize, cfg: usize, d: &Data, lx: usize) -> Result<EOut, String> {
    use std::io::Write;
    let req = json!({"ix": ix, "e": e, "cfg": cfg, "lx": lx, "xr": d.x.r, "xc": d.x.c, "x": d.x.v, "y": d.y, "qr": d.q.r, "qc": d.q.c, "q": d.q.v}).to_string();
    let mut slot = SERVER.lock().unwrap();
    if slot.is_none() {
        *slot = Some(spawn_server()?);
    }
    let srv = slot.as_mut().unwrap();
    writeln!(srv.stdin, "{}", req).and_then(|_| srv.stdin.flush()).map_err(|e| format!("guard child: {}", e))?;
    // Deadline in CPU time of the child (robust against a loaded machine: a fit of these sizes needs
    // well under 5 ms of CPU, a non-terminating one burns CPU continuously), with a wall-clock fallback.
    let pid = srv.child.id();
    // (a failed reading of the start value must not turn the child's whole CPU history into "burnt")
    let cpu0 = cpu_ms(pid);
    let t0 = std::time::Instant::now();
    let answer = loop {
        match srv.rx.recv_timeout(std::time::Duration::from_millis(20)) {
            Err(std::sync::mpsc::RecvTimeoutError::Timeout) => {
                let burnt = match (cpu0, cpu_ms(pid)) {
                    (Some(a), Some(b)) => b.saturating_sub(a),
                    _ => 0,
                };
                if burnt >= PROBE_DEADLINE_MS || t0.elapsed().as_millis() as u64 >= 40 * PROBE_DEADLINE_MS {
                    break Err(std::sync::mpsc::RecvTimeoutError::Timeout);
                }
            }
            other => break other,
        }
    };
    match answer {
        Ok(txt) => {
            let v: serde_json::Value = serde_json::from_str(txt.trim()).map_err(|e| format!("guard child output: {}", e))?;
            Ok(if let Some(a) = v["vals"].as_array() {
                EOut::Vals(a.iter().map(|x| f64::from_bits(x.as_str().unwrap_or("0").parse::<u64>().unwrap_or(0))).collect())
            } else if let Some(m) = v["failed"].as_str() {
                EOut::Failed(m.to_string())
            } else {
                EOut::Panic(PanicInfo { msg: v["panic"].as_str().unwrap_or("").to_string(), loc: v["loc"].as_str().unwrap_or("").to_string() })
            })
        }
        Err(std::sync::mpsc::RecvTimeoutError::Timeout) => {
            let mut srv = slot.take().unwrap();
            srv.child.kill().ok();
            srv.child.wait().ok();
            Ok(EOut::Hang)
        }
        Err(_) => {
            let mut srv = slot.take().unwrap();
            srv.child.kill().ok();
            let st = srv.child.wait().map(|s| format!("{:?}", s.code())).unwrap_or_default();
            Err(format!("guard child died (exit {})", st))
        }
    }
}

/// per process: (job, backend, estimator) for which a fit was observed not to terminate in this job
static HUNG: Mutex<Vec<(String, usize, usize, u32)>> = Mutex::new(Vec::new());

/// One estimator case on the three backends, judged against the built-in backend.
pub fn run_case(job: &str, e: usize, cfg: usize, d: &Data, lx: usize) {
    let name = entry(e).0;
    let mut outs: Vec<EOut> = Vec::new();
    for ix in 0..3 {
        // a binding's fit that may not terminate runs in a child process under a deadline. After
        // `HANG_LIMIT[ix]` observed hangs of this (backend, estimator) in this job the backend is no
        // longer run in the job (counted) - the defect has been observed and each further case would
        // cost the whole deadline.
        if ix > 0 && HANG_PRONE.contains(&e) {
            let seen = HUNG.lock().unwrap().iter().find(|p| p.0 == job && p.1 == ix && p.2 == e).map(|p| p.3).unwrap_or(0);
            if seen >= HANG_LIMIT[ix] {
                mc::count("estimator_runs_skipped_after_observed_hangs");
                outs.push(EOut::Skipped);
                continue;
            }
            match guarded(ix, e, cfg, d, lx) {
                Ok(o) => {
                    mc::count("estimator_runs_in_guard_process");
                    if matches!(o, EOut::Hang) {
                        let mut h = HUNG.lock().unwrap();
                        match h.iter_mut().find(|p| p.0 == job && p.1 == ix && p.2 == e) {
                            Some(p) => p.3 += 1,
                            None => h.push((job.to_string(), ix, e, 1)),
                        }
                    }
                    outs.push(o);
                    continue;
                }
                Err(m) => panic!("termination guard failed: {}", m),
            }
        }
        outs.push(run_ix(ix, e, cfg, d, lx));
    }
    let mut h = 0x77u64;
    for o in &outs {
        h = mc::hash::mix(h, o.kind() as u64);
        if let EOut::Vals(v) = o {
            h = mc::hash::mix(h, mc::hash::h_f64s_rounded(v, 9));
        }
    }
    mc::outcome(h);
    if let EOut::Vals(v) = &outs[0] {
        mc::nontrivial();
        mc::count(if is_decomposition(e) { "decomposition_cases_with_values" } else { "estimator_cases_with_values" });
        mc::count(name);
        if outs.iter().all(|o| matches!(o, EOut::Vals(_))) {
            mc::count("cases_with_values_from_all_three_backends");
            if e >= LONG_BASE {
                mc::count("long_estimator_cases_with_values_from_all_three_backends");
            }
        }
        if v.iter().any(|x| !x.is_finite()) {
            mc::count("estimator_cases_with_nonfinite_values");
        }
    } else {
        mc::count("estimator_cases_rejected_by_dense");
    }
    if lx > 0 {
        mc::count("estimator_cases_with_transposed_layout_input");
    }
    if e == E_DIST_LONG {
        // definition-level oracle: the textbook value of every distance / kernel (binds every backend)
        let mut want = Vec::new();
        for i in 0..d.x.r {
            for k in 0..d.q.r {
                want.extend(crate::long::pair_model(&d.x.row(i), &d.q.row(k)));
            }
        }
        const WHAT: [&str; 10] = ["euclidian", "manhattan", "minkowski", "minkowski", "minkowski", "hamming", "linear_kernel", "rbf_kernel", "polynomial_kernel", "sigmoid_kernel"];
        for ix in 0..3 {
            if let EOut::Vals(got) = &outs[ix] {
                let bad = (0..want.len().max(got.len())).find(|p| *p >= got.len() || *p >= want.len() || !close_tol(got[*p], want[*p], 1e-10));
                match bad {
                    None => mc::count("long_distance_cases_equal_to_the_textbook_value"),
                    Some(p) => {
                        let (pair, f) = (p / WHAT.len(), p % WHAT.len());
                        let (i, k) = (pair / d.q.r, pair % d.q.r);
                        mc::violation(
                            format!("{}.{}:long-rows-differ-from-definition", NAMES[ix], WHAT[f]),
                            format!("{} of data row {} {:?} and query row {} {:?} ({} columns): {} gives {:?}; textbook value {:?}", WHAT[f], i, d.x.row(i.min(d.x.r - 1)), k, d.q.row(k.min(d.q.r - 1)), d.x.c, NAMES[ix], got[..].get(p), want[..].get(p)),
                        );
                    }
                }
            }
        }
    }
    // value families: site-key suffixes decided from the failing input
    let oc = off_centre(&d.x);
    let family = format!("{}{}", if oc { "-off-centre-data" } else { "" }, if has_near_pair(&d.y) { "-nearly-equal-labels" } else { "" });
    if oc && outs.iter().all(|o| matches!(o, EOut::Vals(_))) {
        mc::count("offset_estimator_cases_with_values_from_all_three_backends");
    }
    let tol = tol_of(e);
    let mask = match &outs[0] {
        EOut::Vals(v) => mask_of(e, v, d),
        _ => Vec::new(),
    };
    if mask.iter().any(|m| *m) {
        mc::count("logistic_predictions_masked_near_boundary");
    }
    let extra = match &outs[0] {
        EOut::Vals(v) if oc => intercept_tolerance(e, v, d, tol),
        _ => None,
    };
    if extra.is_some() {
        mc::count("offset_linear_model_intercepts_compared_at_their_own_rounding_scale");
    }
    // nearly-equal labels are two classes on EVERY backend: the same fit with the classes renamed
    // 0..3 (same order) must give the same model and the same predictions under the renaming.
    // Verdict rule as everywhere: a backend is reported when it deviates from this reference AND
    // the three backends do not agree with each other (a defect they share is only counted).
    let mut merges = [false; 3];
    if let Some(names) = renamed_labels(e, d) {
        let twin = Data { x: d.x.clone(), y: names, q: d.q.clone(), label: d.label.clone() };
        let agree = (1..3).all(|ix| same(&outs[0], &outs[ix], tol, &mask, extra));
        // when the three backends agree with each other nothing can be reported: the renamed fit
        // is then run on the built-in backend only (to count what the three share)
        for ix in 0..if agree { 1 } else { 3 } {
            let t = run_ix(ix, e, cfg, &twin, lx);
            let ok = match (&outs[ix], &t) {
                (EOut::Vals(a), EOut::Vals(b)) => {
                    let pos = label_positions(e, d, a.len());
                    a.len() == b.len() && (0..a.len()).all(|p| if pos.contains(&p) { crate::vals::ne_rank(a[p]) == Some(b[p]) } else { close_tol(a[p], b[p], 1e-8) })
                }
                (a, b) => a.kind() == b.kind(),
            };
            if ok {
                mc::count("nearly_equal_label_cases_equal_to_the_renamed_fit");
                if matches!(t, EOut::Vals(_)) {
                    mc::count("nearly_equal_label_cases_with_values");
                }
            } else if agree {
                mc::count("nearly_equal_labels_merged_alike_by_all_three_backends_counted_only");
            } else {
                merges[ix] = true;
                mc::violation(
                    format!("{}.{}:nearly-equal-labels-not-kept-apart", NAMES[ix], name),
                    format!("{} (configuration {}) on x={} y={:?}{}: {} gives {}; with the classes renamed {:?} (same order) it gives {} - the labels {:?} are different numbers and must be different classes; the other backends: {}", name, cfg, d.x.show(), d.y, if lx > 0 { " (x in transposed layout)" } else { "" }, NAMES[ix], outs[ix].show(), twin.y, t.show(), crate::vals::NE, (0..3).filter(|j| *j != ix).map(|j| format!("{}: {}", NAMES[j], outs[j].show())).collect::<Vec<_>>().join("; ")),
                );
            }
        }
    }
    for ix in 1..3 {
        // the built-in backend itself was reported for merging nearly-equal labels and this binding
        // keeps them apart: the difference is the built-in backend's
        if merges[0] && !merges[ix] {
            continue;
        }
        if matches!(outs[ix], EOut::Skipped) || same(&outs[0], &outs[ix], tol, &mask, extra) {
            // calibration record: deviation of an agreeing binding from the built-in backend
            if let (EOut::Vals(a), EOut::Vals(b)) = (&outs[0], &outs[ix]) {
                let worst = a.iter().zip(b).enumerate().filter(|(i, _)| !mask.get(*i).copied().unwrap_or(false) && extra.map(|x| x.0) != Some(*i)).fold(0.0f64, |w, (_, (x, y))| if x != y && x.is_finite() && y.is_finite() { w.max((x - y).abs() / x.abs().max(y.abs()).max(1.0)) } else { w });
                mc::count(if worst == 0.0 {
                    "binding_equals_dense_bitwise"
                } else if worst <= 1e-12 {
                    "binding_deviation_le_1e-12"
                } else if worst <= 1e-8 {
                    "binding_deviation_le_1e-8"
                } else {
                    "binding_deviation_le_tolerance_of_iterative_solver"
                });
            }
            continue;
        }
        let mut class = match &outs[ix] {
            EOut::Vals(_) => if matches!(outs[0], EOut::Vals(_)) { "result-differs-from-dense" } else { "accepts-what-dense-rejects" },
            EOut::Failed(_) => "fails-where-dense-does-not",
            EOut::Panic(p) => if p.msg == "Not implemented" { "not-implemented" } else { "panics-where-dense-does-not" },
            EOut::Hang => "does-not-terminate",
            EOut::Skipped => unreachable!(),
        }
        .to_string();
        class.push_str(&family);
        // induced by the non-standard layout of x? (diagnostic: same case, standard layout)
        if lx > 0 && !HANG_PRONE.contains(&e) && same(&run_ix(0, e, cfg, d, 0), &run_ix(ix, e, cfg, d, 0), tol, &mask, extra) {
            class.push_str("-nonstandard-layout");
        }
        // first observation that differs (long observation vectors are abbreviated in the line)
        let first_diff = match (&outs[0], &outs[ix]) {
            (EOut::Vals(a), EOut::Vals(b)) if a.len() == b.len() => (0..a.len()).find(|p| !mask.get(*p).copied().unwrap_or(false) && !close_tol(a[*p], b[*p], tol) && !matches!(extra, Some((k, t)) if k == *p && (a[*p] - b[*p]).abs() <= t)).map(|p| format!(" [first difference: observation {} of {}: {:?} vs dense {:?}]", p, a.len(), b[p], a[p])).unwrap_or_default(),
            _ => String::new(),
        };
        mc::violation(
            format!("{}.{}:{}", NAMES[ix], name, class),
            format!("{} (configuration {}) on x={} y={:?}{}: {} gives {}; dense gives {}{}", name, cfg, if d.label.is_empty() { d.x.show() } else { d.label.clone() }, d.y, if lx > 0 { " (x in transposed layout)" } else { "" }, NAMES[ix], outs[ix].show(), outs[0].show(), first_diff),
        );
    }
    let compact = |m: &M| -> serde_json::Value {
        if m.v.len() <= 64 {
            json!(m.rows())
        } else {
            json!(m.rows().iter().map(|r| format!("{:?}", r)).collect::<Vec<_>>())
        }
    };
    mc::describe(|| json!({"estimator": name, "configuration": cfg, "x": compact(&d.x), "x_generated_as": d.label, "y": d.y, "queries": compact(&d.q), "x_layout": crate::bk::LAYOUTS[lx], "dense": outs[0].show(), "ndarray": outs[1].show(), "nalgebra": outs[2].show()}));
}
