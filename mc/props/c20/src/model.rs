//! Reference model for C20: a plain row-major `Vec<f64>` matrix (`M`), the value alphabets, the
//! operation vocabulary (`Op`) with the textbook result of every operation, and the comparison of
//! library results with it. Nothing in this file calls into the library under test.

use mc_core::PanicInfo;

#[derive(Clone, Debug, PartialEq)]
pub struct M {
    pub r: usize,
    pub c: usize,
    /// row-major
    pub v: Vec<f64>,
}

impl M {
    pub fn new(r: usize, c: usize, g: impl Fn(usize, usize) -> f64) -> M {
        let mut v = Vec::with_capacity(r * c);
        for i in 0..r {
            for j in 0..c {
                v.push(g(i, j));
            }
        }
        M { r, c, v }
    }
    #[inline]
    pub fn at(&self, i: usize, j: usize) -> f64 {
        self.v[i * self.c + j]
    }
    pub fn row(&self, i: usize) -> Vec<f64> {
        self.v[i * self.c..(i + 1) * self.c].to_vec()
    }
    pub fn col(&self, j: usize) -> Vec<f64> {
        (0..self.r).map(|i| self.at(i, j)).collect()
    }
    pub fn rows(&self) -> Vec<Vec<f64>> {
        (0..self.r).map(|i| self.row(i)).collect()
    }
    pub fn tr(&self) -> M {
        M::new(self.c, self.r, |i, j| self.at(j, i))
    }
    pub fn map(&self, g: impl Fn(f64) -> f64) -> M {
        M { r: self.r, c: self.c, v: self.v.iter().map(|x| g(*x)).collect() }
    }
    pub fn zip(&self, o: &M, g: impl Fn(f64, f64) -> f64) -> M {
        M { r: self.r, c: self.c, v: self.v.iter().zip(&o.v).map(|(x, y)| g(*x, *y)).collect() }
    }
    pub fn mul(&self, o: &M) -> M {
        M::new(self.r, o.c, |i, j| (0..self.c).map(|k| self.at(i, k) * o.at(k, j)).sum())
    }
    pub fn reshaped(&self, r: usize, c: usize) -> M {
        M { r, c, v: self.v.clone() }
    }
    pub fn max_abs(&self) -> f64 {
        self.v.iter().fold(0.0, |m, x| if x.is_finite() { m.max(x.abs()) } else { m })
    }
    pub fn same_shape(&self, o: &M) -> bool {
        self.r == o.r && self.c == o.c
    }
    /// Printed in full up to `SHOW_FULL` entries (every operand of every tier is); larger values
    /// (results of long outer products) are abbreviated: violation lines and replay descriptions
    /// must stay small (the driver reads a replay's output only after it has exited).
    pub fn show(&self) -> String {
        if self.v.len() <= SHOW_FULL {
            return format!("{}x{}{:?}", self.r, self.c, self.rows());
        }
        let row = |i: usize| abbr(&self.row(i), 6, 3);
        let mut rows: Vec<String> = (0..self.r.min(4)).map(row).collect();
        if self.r > 6 {
            rows.push(format!("..{} more rows..", self.r - 6));
        }
        rows.extend((self.r.max(6) - 2..self.r).map(row));
        format!("{}x{}[{}]", self.r, self.c, rows.join(", "))
    }
}

pub const SHOW_FULL: usize = 520;

/// `v` with only its first `head` and last `tail` entries when it is longer than that.
pub fn abbr(v: &[f64], head: usize, tail: usize) -> String {
    if v.len() <= head + tail + 1 {
        return format!("{:?}", v);
    }
    let h: Vec<String> = v[..head].iter().map(|x| format!("{:?}", x)).collect();
    let t: Vec<String> = v[v.len() - tail..].iter().map(|x| format!("{:?}", x)).collect();
    format!("[{}, ..{} more.., {}]", h.join(", "), v.len() - head - tail, t.join(", "))
}

/// A value with its shape: `[]` scalar, `[n]` vector / index list / flag list, `[r,c]` matrix.
#[derive(Clone, Debug, PartialEq)]
pub struct Val {
    pub sh: Vec<usize>,
    pub d: Vec<f64>,
}

impl Val {
    pub fn num(x: f64) -> Val {
        Val { sh: vec![], d: vec![x] }
    }
    pub fn vec(v: Vec<f64>) -> Val {
        Val { sh: vec![v.len()], d: v }
    }
    pub fn mat(m: &M) -> Val {
        Val { sh: vec![m.r, m.c], d: m.v.clone() }
    }
    pub fn idx(v: &[usize]) -> Val {
        Val::vec(v.iter().map(|x| *x as f64).collect())
    }
    pub fn flag(b: bool) -> Val {
        Val::num(if b { 1.0 } else { 0.0 })
    }
    pub fn show(&self) -> String {
        match self.sh.len() {
            0 => format!("{}", self.d[0]),
            1 => {
                if self.d.len() <= SHOW_FULL {
                    format!("{:?}", self.d)
                } else {
                    abbr(&self.d, 24, 8)
                }
            }
            _ => M { r: self.sh[0], c: self.sh[1], v: self.d.clone() }.show(),
        }
    }
}

/// What one backend did: the returned values, or the panic.
pub type Out = Result<Vec<Val>, PanicInfo>;

pub fn show_out(o: &Out) -> String {
    match o {
        Ok(vs) => vs.iter().map(|v| v.show()).collect::<Vec<_>>().join(" | "),
        Err(p) => p.brief(),
    }
}

/// What the reference model says the operation does on this input.
#[derive(Clone, Debug)]
pub enum Exp {
    Val(Vec<Val>),
    /// operands outside the operation's domain (shape mismatch): the backends must agree with
    /// each other; the built-in backend rejects such operands by panicking
    Reject,
}

pub fn show_exp(e: &Exp) -> String {
    match e {
        Exp::Val(vs) => vs.iter().map(|v| v.show()).collect::<Vec<_>>().join(" | "),
        Exp::Reject => "rejected (panic)".into(),
    }
}

/// `x` and `y` equal up to rounding. `scale` = magnitude of the inputs of the operation.
#[inline]
pub fn close(x: f64, y: f64, scale: f64) -> bool {
    if x == y || (x.is_nan() && y.is_nan()) {
        return true;
    }
    if !x.is_finite() || !y.is_finite() {
        return false;
    }
    (x - y).abs() <= 1e-10 * x.abs().max(y.abs()).max(scale)
}

/// `x` and `y` equal up to the absolute tolerance `tol` (statistics of off-centre data: the
/// tolerance is stated relative to the spread of the data, see `vals.rs`).
#[inline]
pub fn close_abs(x: f64, y: f64, tol: f64) -> bool {
    if x == y || (x.is_nan() && y.is_nan()) {
        return true;
    }
    x.is_finite() && y.is_finite() && (x - y).abs() <= tol
}

/// `abs[k]` (when present) is the absolute tolerance of the k-th returned value; the other values
/// are compared with the relative rule of `close`.
pub fn vals_close(a: &[Val], b: &[Val], scale: f64, abs: &[f64]) -> bool {
    a.len() == b.len()
        && a.iter().zip(b).enumerate().all(|(k, (x, y))| {
            x.sh == y.sh
                && x.d.len() == y.d.len()
                && x.d.iter().zip(&y.d).all(|(p, q)| match abs.get(k) {
                    Some(t) => close_abs(*p, *q, *t),
                    None => close(*p, *q, scale),
                })
        })
}

/// Two backends did the same thing (both panicked, or returned values equal up to rounding).
pub fn outs_agree(a: &Out, b: &Out, scale: f64, abs: &[f64]) -> bool {
    match (a, b) {
        (Err(_), Err(_)) => true,
        (Ok(x), Ok(y)) => vals_close(x, y, scale, abs),
        _ => false,
    }
}

pub fn out_matches(o: &Out, e: &Exp, scale: f64, abs: &[f64]) -> bool {
    match (o, e) {
        (Err(_), Exp::Reject) => true,
        (Ok(x), Exp::Val(y)) => vals_close(x, y, scale, abs),
        _ => false,
    }
}

// ------------------------------------------------------------------------------------------------
// value alphabets

pub const FILLS: [&str; 4] = ["mixed-sign", "all-negative", "all-positive", "small-with-ties"];
pub const SEED_SCALE: [f64; 8] = [1.0, 3.0, 0.5, 7.0, 0.25, 5.0, 2.0, 1.5];

/// Index-coded data: every entry of a matrix is distinct and identifies its (row, column), so that
/// any row-/column-major mix-up, swapped dimension or wrong operand changes the result. `variant`
/// distinguishes the two operands of a binary operation. Fill 3 is the small alphabet {-1,0,1}
/// (ties at the row maximum for argmax, duplicates for unique, zeros as divisors).
pub fn fill(kind: usize, r: usize, c: usize, variant: usize, seed: u64) -> M {
    let f = SEED_SCALE[(seed % 8) as usize];
    M::new(r, c, |i, j| {
        let base = if variant == 0 { (1 + 16 * i + j) as f64 } else { (2 + 16 * j + 3 * i) as f64 };
        match kind {
            0 => (if (i + j) % 2 == 0 { base } else { -base }) * f,
            1 => -base * f,
            2 => base * f,
            _ => (((i * 2 + j * j + variant) % 3) as f64 - 1.0) * f,
        }
    })
}

pub fn shape_class(m: &M) -> &'static str {
    match (m.r, m.c) {
        (1, 1) => "1x1",
        (1, _) => "row-vector",
        (_, 1) => "column-vector",
        _ => "matrix",
    }
}

pub fn sign_class(v: &[f64]) -> &'static str {
    if v.iter().all(|x| *x < 0.0) {
        "all-negative"
    } else if v.iter().all(|x| *x > 0.0) {
        "all-positive"
    } else {
        "mixed-sign"
    }
}

// ------------------------------------------------------------------------------------------------
// operation vocabulary

#[derive(Clone, Copy, Debug, PartialEq, Eq)]
pub enum K {
    // ---- one matrix operand
    ToRowVector,
    FromRowVector,
    Rows,
    Cols,
    Transpose,
    NegativeMut,
    AbsMut,
    PowMut,
    SoftmaxMut,
    BinarizeMut,
    Norm2,
    Norm,
    Sum,
    Max,
    Min,
    ColumnMean,
    Argmax,
    Unique,
    Cov,
    Mean,
    Var,
    Std,
    ScaleMut,
    ScalarMut,
    ElementMut,
    Reshape,
    Slice,
    Take,
    EqSelf,
    Ctor,
    // ---- two matrix operands
    HStack,
    VStack,
    MatMul,
    Dot,
    ApproxEq,
    EqOp,
    EwMut,
    MaxDiff,
    CopyFrom,
    AB,
    // ---- one vector operand
    VBasic,
    VSet,
    VCtor,
    VNorm2,
    VNorm,
    VSum,
    VUnique,
    VMoments,
    VElementMut,
    VScalarMut,
    VTake,
    // ---- two vector operands
    VDot,
    VApproxEq,
    VEwMut,
    VCopyFrom,
}

/// One operation instance. The meaning of `w` (which variant), `i, j, i2, j2`, `x`, `idx` depends on `k`.
#[derive(Clone, Debug)]
pub struct Op {
    pub k: K,
    pub w: usize,
    pub i: usize,
    pub j: usize,
    pub i2: usize,
    pub j2: usize,
    pub x: f64,
    pub idx: Vec<usize>,
}

impl Op {
    pub fn new(k: K) -> Op {
        Op { k, w: 0, i: 0, j: 0, i2: 0, j2: 0, x: 0.0, idx: Vec::new() }
    }
    pub fn w(mut self, w: usize) -> Op {
        self.w = w;
        self
    }
    pub fn at(mut self, i: usize, j: usize) -> Op {
        self.i = i;
        self.j = j;
        self
    }
    pub fn to(mut self, i2: usize, j2: usize) -> Op {
        self.i2 = i2;
        self.j2 = j2;
        self
    }
    pub fn x(mut self, x: f64) -> Op {
        self.x = x;
        self
    }
    pub fn idx(mut self, idx: Vec<usize>) -> Op {
        self.idx = idx;
        self
    }
    /// The name of the library method the instance exercises (site keys use it).
    pub fn name(&self) -> &'static str {
        const EW: [&str; 4] = ["add_mut", "sub_mut", "mul_mut", "div_mut"];
        const SC: [&str; 4] = ["add_scalar_mut", "sub_scalar_mut", "mul_scalar_mut", "div_scalar_mut"];
        const EL: [&str; 5] = ["add_element_mut", "sub_element_mut", "mul_element_mut", "div_element_mut", "set"];
        match self.k {
            K::ToRowVector => "to_row_vector",
            K::FromRowVector => "from_row_vector",
            K::Rows => "get_row",
            K::Cols => "get_col_as_vec",
            K::Transpose => "transpose",
            K::NegativeMut => "negative_mut",
            K::AbsMut => "abs_mut",
            K::PowMut => "pow_mut",
            K::SoftmaxMut => "softmax_mut",
            K::BinarizeMut => "binarize_mut",
            K::Norm2 => "norm2",
            K::Norm => "norm",
            K::Sum => "sum",
            K::Max => "max",
            K::Min => "min",
            K::ColumnMean => "column_mean",
            K::Argmax => "argmax",
            K::Unique => "unique",
            K::Cov => "cov",
            K::Mean => "mean",
            K::Var => "var",
            K::Std => "std",
            K::ScaleMut => "scale_mut",
            K::ScalarMut => SC[self.w],
            K::ElementMut => EL[self.w],
            K::Reshape => "reshape",
            K::Slice => "slice",
            K::Take => "take",
            K::EqSelf => "eq",
            K::Ctor => ["eye", "zeros", "ones", "fill"][self.w],
            K::HStack => "h_stack",
            K::VStack => "v_stack",
            K::MatMul => "matmul",
            K::Dot => "dot",
            K::ApproxEq => "approximate_eq",
            K::EqOp => "eq",
            K::EwMut => EW[self.w],
            K::MaxDiff => "max_diff",
            K::CopyFrom => "copy_from",
            K::AB => "ab",
            K::VBasic => "vec.to_vec",
            K::VSet => "vec.set",
            K::VCtor => ["vec.zeros", "vec.ones", "vec.fill"][self.w],
            K::VNorm2 => "vec.norm2",
            K::VNorm => "vec.norm",
            K::VSum => "vec.sum",
            K::VUnique => "vec.unique",
            K::VMoments => "vec.mean_var_std",
            K::VElementMut => ["vec.add_element_mut", "vec.sub_element_mut", "vec.mul_element_mut", "vec.div_element_mut"][self.w],
            K::VScalarMut => ["vec.add_scalar_mut", "vec.sub_scalar_mut", "vec.mul_scalar_mut", "vec.div_scalar_mut"][self.w],
            K::VTake => "vec.take",
            K::VDot => "vec.dot",
            K::VApproxEq => "vec.approximate_eq",
            K::VEwMut => ["vec.add_mut", "vec.sub_mut", "vec.mul_mut", "vec.div_mut"][self.w],
            K::VCopyFrom => "vec.copy_from",
        }
    }
    /// Operations named by the statement's "in particular" clauses: flattening / reshaping follow
    /// the logical row-major order; min, max, dot and norms do not depend on sign or orientation.
    /// For these the reference model binds even when all three backends agree with each other.
    pub fn explicit_clause(&self) -> bool {
        matches!(self.k, K::ToRowVector | K::Reshape | K::Max | K::Min | K::Dot | K::Norm | K::Norm2 | K::VDot | K::VNorm | K::VNorm2)
    }
    pub fn show(&self) -> String {
        match self.k {
            K::Norm | K::VNorm | K::PowMut | K::BinarizeMut | K::ApproxEq | K::VApproxEq => format!("{}({})", self.name(), self.x),
            K::ScaleMut if self.x != 0.0 => format!("scale_mut(mean = {} + [1,2,..], std = [2,3,..], axis {})", self.x, self.w),
            K::Mean | K::Var | K::Std | K::ScaleMut => format!("{}(axis {})", self.name(), self.w),
            K::ScalarMut | K::VScalarMut => format!("{}({}) and its copying twin", self.name(), self.x),
            K::ElementMut => format!("{}({},{},{})", self.name(), self.i, self.j, self.x),
            K::VElementMut | K::VSet => format!("{}({},{})", self.name(), self.i, self.x),
            K::Reshape => format!("reshape({},{})", self.i, self.j),
            K::Slice => format!("slice({}..{},{}..{})", self.i, self.i2, self.j, self.j2),
            K::Take => format!("take({:?}, axis {})", self.idx, self.w),
            K::VTake => format!("vec.take({:?})", self.idx),
            K::AB => format!("ab({}, b, {})", self.i == 1, self.j == 1),
            K::EwMut | K::VEwMut | K::NegativeMut | K::AbsMut => format!("{} and its copying twin", self.name()),
            _ => self.name().to_string(),
        }
    }
}

pub fn scalar_op(w: usize, a: f64, x: f64) -> f64 {
    match w {
        0 => a + x,
        1 => a - x,
        2 => a * x,
        _ => a / x,
    }
}

fn norm_p(v: &[f64], p: f64) -> f64 {
    if p == f64::INFINITY {
        v.iter().fold(f64::NEG_INFINITY, |m, x| m.max(x.abs()))
    } else if p == f64::NEG_INFINITY {
        v.iter().fold(f64::INFINITY, |m, x| m.min(x.abs()))
    } else {
        v.iter().map(|x| x.abs().powf(p)).sum::<f64>().powf(1.0 / p)
    }
}

fn uniq(v: &[f64]) -> Vec<f64> {
    let mut u = v.to_vec();
    u.sort_by(|a, b| a.partial_cmp(b).unwrap());
    u.dedup();
    u
}

fn mean_of(v: &[f64]) -> f64 {
    v.iter().sum::<f64>() / v.len() as f64
}

fn var_of(v: &[f64]) -> f64 {
    let m = mean_of(v);
    v.iter().map(|x| (x - m) * (x - m)).sum::<f64>() / v.len() as f64
}

fn lane(a: &M, axis: usize, k: usize) -> Vec<f64> {
    if axis == 0 {
        a.col(k)
    } else {
        a.row(k)
    }
}

/// The vectors handed to `scale_mut` (deterministic, non-zero divisors). `shift` (the `x` of the
/// operation instance; 0 everywhere but in the off-centre value family) is added to the means.
pub fn scale_args(n: usize, shift: f64) -> (Vec<f64>, Vec<f64>) {
    ((0..n).map(|k| shift + (k + 1) as f64).collect(), (0..n).map(|k| (k + 2) as f64).collect())
}

pub fn broadcastable(a: &M, b: &M) -> bool {
    !a.same_shape(b) && (b.r == a.r || b.r == 1) && (b.c == a.c || b.c == 1)
}

/// Input class of a `dot` operand pair (the predicate that goes into the site key).
pub fn dot_class(a: &M, b: &M) -> &'static str {
    let (va, vb) = (a.r == 1 || a.c == 1, b.r == 1 || b.c == 1);
    if a.same_shape(b) {
        match (a.r, a.c) {
            (1, 1) => "1x1",
            (1, _) => "row-vectors",
            (_, 1) => "column-vectors",
            _ => "same-shape-non-vectors",
        }
    } else if va && vb && a.c * a.r == b.r * b.c {
        "row-by-column-vector"
    } else if a.r * a.c == b.r * b.c {
        "different-shape-equal-size"
    } else {
        "different-size"
    }
}

/// Largest minus smallest entry.
pub fn spread(v: &[f64]) -> f64 {
    let (lo, hi) = v.iter().fold((f64::INFINITY, f64::NEG_INFINITY), |(l, h), x| (l.min(*x), h.max(*x)));
    if hi >= lo {
        hi - lo
    } else {
        0.0
    }
}

/// The data sit far from the origin compared with their spread (|x| >= 10^4 * max(spread, 1)
/// for some entry): one-pass moment formulas cancel there.
pub fn off_centre(a: &M) -> bool {
    a.max_abs() >= 1e4 * spread(&a.v).max(1.0)
}

/// Two of the values are different but equal up to 4 ulps (0.3 and 0.1 + 0.2, 1 and 1 + eps).
pub fn has_near_pair(v: &[f64]) -> bool {
    let mut u = uniq(&v.iter().cloned().filter(|x| x.is_finite()).collect::<Vec<_>>());
    u.dedup();
    u.windows(2).any(|w| (w[1] - w[0]).abs() <= 4.0 * f64::EPSILON * w[0].abs().max(w[1].abs()))
}

/// Corresponding entries of the two (same-shape) operands differ, but by at most the machine epsilon.
pub fn differ_by_at_most_eps(a: &M, b: &M) -> bool {
    a.same_shape(b) && a.v != b.v && a.v.iter().zip(&b.v).all(|(x, y)| (x - y).abs() <= f64::EPSILON)
}

/// Input class used in site keys. `panicked`: the backend being classified panicked (a backend that
/// rejects every mismatch does not distinguish broadcastable from other mismatches).
pub fn input_class(op: &Op, a: &M, b: Option<&M>, panicked: bool) -> String {
    match (op.k, b) {
        (K::Max | K::Min, _) => sign_class(&a.v).to_string(),
        // softmax is defined with the shift by max x; a shift by max |x| is the same function only
        // as long as exp(max x - max|x|) stays in the normal range of f64 (argument above about -708):
        // below it the exponentials are denormal (precision lost) or 0 (result 0/0 = NaN)
        (K::SoftmaxMut, _) if a.v.iter().cloned().fold(f64::NEG_INFINITY, f64::max) - a.max_abs() < -708.0 => "max-abs-shift-underflows".to_string(),
        (K::Dot, Some(b)) => dot_class(a, b).to_string(),
        (K::ApproxEq | K::EqOp, Some(b)) if differ_by_at_most_eps(a, b) => "same-shape-operands-differ-by-at-most-epsilon".to_string(),
        (K::VApproxEq, Some(b)) if differ_by_at_most_eps(a, b) => "same-length-operands-differ-by-at-most-epsilon".to_string(),
        (K::EwMut | K::CopyFrom | K::ApproxEq | K::EqOp | K::MaxDiff, Some(b)) => {
            let co = (a.r == b.r || a.r == 1 || b.r == 1) && (a.c == b.c || a.c == 1 || b.c == 1);
            if a.same_shape(b) {
                "same-shape"
            } else if !panicked && matches!(op.k, K::EwMut | K::CopyFrom) && broadcastable(a, b) {
                "broadcastable-operand"
            } else if !panicked && matches!(op.k, K::ApproxEq | K::EqOp) && co {
                "broadcastable-shapes"
            } else {
                "shape-mismatch"
            }
            .to_string()
        }
        (K::VDot | K::VApproxEq | K::VEwMut | K::VCopyFrom, Some(b)) => {
            if a.c == b.c {
                "same-length"
            } else if !panicked && (b.c == 1 || (a.c == 1 && op.k == K::VApproxEq)) {
                "length-1-operand"
            } else {
                "length-mismatch"
            }
            .to_string()
        }
        (K::HStack | K::VStack | K::MatMul | K::AB, Some(b)) => {
            if matches!(model(op, a, Some(b)), Exp::Reject) {
                "incompatible-shapes"
            } else {
                "compatible-shapes"
            }
            .to_string()
        }
        (K::Reshape, _) if op.i * op.j != a.r * a.c => "size-mismatch".to_string(),
        (k, _) if (k as usize) >= (K::VBasic as usize) => "vector".to_string(),
        _ => shape_class(a).to_string(),
    }
}

/// Textbook result of `op`. Vector operations take their operands as 1 x n matrices.
pub fn model(op: &Op, a: &M, b: Option<&M>) -> Exp {
    let one = |v: Val| Exp::Val(vec![v]);
    let two = |m: M| Exp::Val(vec![Val::mat(&m), Val::mat(&m)]);
    let twov = |v: Vec<f64>| Exp::Val(vec![Val::vec(v.clone()), Val::vec(v)]);
    let bb = || b.expect("binary operation without second operand");
    match op.k {
        K::ToRowVector => one(Val::vec(a.v.clone())),
        K::FromRowVector => one(Val::mat(&a.reshaped(1, a.r * a.c))),
        K::Rows => one(Val::vec((0..a.r).flat_map(|i| [a.row(i), a.row(i), a.row(i)].concat()).collect())),
        K::Cols => one(Val::vec((0..a.c).flat_map(|j| [a.col(j), a.col(j)].concat()).collect())),
        K::Transpose => one(Val::mat(&a.tr())),
        K::NegativeMut => two(a.map(|x| -x)),
        K::AbsMut => two(a.map(f64::abs)),
        K::PowMut => two(a.map(|x| x.powf(op.x))),
        K::SoftmaxMut => {
            let mx = a.v.iter().cloned().fold(f64::NEG_INFINITY, f64::max);
            let z: f64 = a.v.iter().map(|x| (x - mx).exp()).sum();
            one(Val::mat(&a.map(|x| (x - mx).exp() / z)))
        }
        K::BinarizeMut => two(a.map(|x| if x > op.x { 1.0 } else { 0.0 })),
        K::Norm2 => one(Val::num(a.v.iter().map(|x| x * x).sum::<f64>().sqrt())),
        K::Norm => one(Val::num(norm_p(&a.v, op.x))),
        K::Sum => one(Val::num(a.v.iter().sum())),
        K::Max => one(Val::num(a.v.iter().cloned().fold(f64::NEG_INFINITY, f64::max))),
        K::Min => one(Val::num(a.v.iter().cloned().fold(f64::INFINITY, f64::min))),
        K::ColumnMean => one(Val::vec((0..a.c).map(|j| mean_of(&a.col(j))).collect())),
        K::Argmax => one(Val::idx(
            &(0..a.r)
                .map(|i| {
                    let row = a.row(i);
                    let mx = row.iter().cloned().fold(f64::NEG_INFINITY, f64::max);
                    row.iter().position(|x| *x == mx).unwrap_or(0)
                })
                .collect::<Vec<_>>(),
        )),
        K::Unique => one(Val::vec(uniq(&a.v))),
        K::Cov => {
            let mu: Vec<f64> = (0..a.c).map(|j| mean_of(&a.col(j))).collect();
            one(Val::mat(&M::new(a.c, a.c, |p, q| (0..a.r).map(|k| (a.at(k, p) - mu[p]) * (a.at(k, q) - mu[q])).sum::<f64>() / (a.r as f64 - 1.0))))
        }
        K::Mean | K::Var | K::Std => {
            let n = if op.w == 0 { a.c } else { a.r };
            one(Val::vec(
                (0..n)
                    .map(|k| {
                        let l = lane(a, op.w, k);
                        match op.k {
                            K::Mean => mean_of(&l),
                            K::Var => var_of(&l),
                            _ => var_of(&l).sqrt(),
                        }
                    })
                    .collect(),
            ))
        }
        K::ScaleMut => {
            let n = if op.w == 0 { a.c } else { a.r };
            let (mu, sd) = scale_args(n, op.x);
            one(Val::mat(&M::new(a.r, a.c, |i, j| {
                let k = if op.w == 0 { j } else { i };
                (a.at(i, j) - mu[k]) / sd[k]
            })))
        }
        K::ScalarMut => two(a.map(|v| scalar_op(op.w, v, op.x))),
        K::ElementMut => {
            let mut m = a.clone();
            let p = op.i * a.c + op.j;
            m.v[p] = if op.w == 4 { op.x } else { scalar_op(op.w, m.v[p], op.x) };
            one(Val::mat(&m))
        }
        K::Reshape => {
            if op.i * op.j != a.r * a.c {
                Exp::Reject
            } else {
                one(Val::mat(&a.reshaped(op.i, op.j)))
            }
        }
        K::Slice => one(Val::mat(&M::new(op.i2 - op.i, op.j2 - op.j, |i, j| a.at(op.i + i, op.j + j)))),
        K::Take => one(Val::mat(&if op.w == 0 { M::new(op.idx.len(), a.c, |i, j| a.at(op.idx[i], j)) } else { M::new(a.r, op.idx.len(), |i, j| a.at(i, op.idx[j])) })),
        K::EqSelf => Exp::Val(vec![Val::flag(true), Val::flag(false), Val::flag(true), Val::flag(false)]),
        K::Ctor => one(Val::mat(&match op.w {
            0 => M::new(a.r, a.r, |i, j| if i == j { 1.0 } else { 0.0 }),
            1 => M::new(a.r, a.c, |_, _| 0.0),
            2 => M::new(a.r, a.c, |_, _| 1.0),
            _ => M::new(a.r, a.c, |_, _| op.x),
        })),
        K::HStack => {
            let b = bb();
            if a.r != b.r {
                return Exp::Reject;
            }
            one(Val::mat(&M::new(a.r, a.c + b.c, |i, j| if j < a.c { a.at(i, j) } else { b.at(i, j - a.c) })))
        }
        K::VStack => {
            let b = bb();
            if a.c != b.c {
                return Exp::Reject;
            }
            one(Val::mat(&M::new(a.r + b.r, a.c, |i, j| if i < a.r { a.at(i, j) } else { b.at(i - a.r, j) })))
        }
        K::MatMul => {
            let b = bb();
            if a.c != b.r {
                return Exp::Reject;
            }
            one(Val::mat(&a.mul(b)))
        }
        K::Dot => {
            let b = bb();
            if a.same_shape(b) && (a.r == 1 || a.c == 1) {
                one(Val::num(a.v.iter().zip(&b.v).map(|(x, y)| x * y).sum()))
            } else {
                Exp::Reject
            }
        }
        K::ApproxEq => {
            let b = bb();
            one(Val::flag(a.same_shape(b) && a.v.iter().zip(&b.v).all(|(x, y)| (x - y).abs() <= op.x)))
        }
        K::EqOp => one(Val::flag(a == bb())),
        K::EwMut => {
            let b = bb();
            if !a.same_shape(b) {
                return Exp::Reject;
            }
            two(a.zip(b, |x, y| scalar_op(op.w, x, y)))
        }
        K::MaxDiff => {
            let b = bb();
            if !a.same_shape(b) {
                return Exp::Reject;
            }
            one(Val::num(a.v.iter().zip(&b.v).fold(0.0, |m, (x, y)| f64::max(m, (x - y).abs()))))
        }
        K::CopyFrom => {
            let b = bb();
            if !a.same_shape(b) {
                return Exp::Reject;
            }
            one(Val::mat(b))
        }
        K::AB => {
            let b = bb();
            let x = if op.i == 1 { a.tr() } else { a.clone() };
            let y = if op.j == 1 { b.tr() } else { b.clone() };
            if x.c != y.r {
                return Exp::Reject;
            }
            one(Val::mat(&x.mul(&y)))
        }
        // ---- vectors (a is 1 x n)
        K::VBasic => Exp::Val(vec![Val::num(a.c as f64), Val::flag(a.c == 0), Val::vec(a.v.clone()), Val::vec(a.v.clone()), Val::flag(true)]),
        K::VSet => {
            let mut v = a.v.clone();
            v[op.i] = op.x;
            one(Val::vec(v))
        }
        K::VCtor => one(Val::vec(vec![[0.0, 1.0, op.x][op.w]; a.c])),
        K::VNorm2 => one(Val::num(a.v.iter().map(|x| x * x).sum::<f64>().sqrt())),
        K::VNorm => one(Val::num(norm_p(&a.v, op.x))),
        K::VSum => one(Val::num(a.v.iter().sum())),
        K::VUnique => one(Val::vec(uniq(&a.v))),
        K::VMoments => Exp::Val(vec![Val::num(mean_of(&a.v)), Val::num(var_of(&a.v)), Val::num(var_of(&a.v).sqrt())]),
        K::VElementMut => {
            let mut v = a.v.clone();
            v[op.i] = scalar_op(op.w, v[op.i], op.x);
            one(Val::vec(v))
        }
        K::VScalarMut => twov(a.v.iter().map(|v| scalar_op(op.w, *v, op.x)).collect()),
        K::VTake => one(Val::vec(op.idx.iter().map(|i| a.v[*i]).collect())),
        K::VDot => {
            let b = bb();
            if a.c != b.c {
                return Exp::Reject;
            }
            one(Val::num(a.v.iter().zip(&b.v).map(|(x, y)| x * y).sum()))
        }
        K::VApproxEq => {
            let b = bb();
            one(Val::flag(a.c == b.c && a.v.iter().zip(&b.v).all(|(x, y)| (x - y).abs() <= op.x)))
        }
        K::VEwMut => {
            let b = bb();
            if a.c != b.c {
                return Exp::Reject;
            }
            twov(a.v.iter().zip(&b.v).map(|(x, y)| scalar_op(op.w, *x, *y)).collect())
        }
        K::VCopyFrom => {
            let b = bb();
            if a.c != b.c {
                return Exp::Reject;
            }
            one(Val::vec(b.v.clone()))
        }
    }
}
