//! One case = one operation instance on one operand tuple, run on the three backends and judged
//! against the reference model and against each other.

use crate::bk::{build_ok, eval_ix, LAYOUTS, NAMES};
use crate::model::*;
use crate::vals::{model_stat, stat_tols, Stat};
use mc_core::{self as mc, json};

fn digest(outs: &[Out]) -> u64 {
    let mut h = 0x51ed_u64;
    for o in outs {
        match o {
            Err(_) => h = mc::hash::mix(h, 0xdead),
            Ok(vs) => {
                for v in vs {
                    h = mc::hash::mix(h, mc::hash::h_usizes(&v.sh));
                    h = mc::hash::mix(h, mc::hash::h_f64s(&v.d));
                }
            }
        }
    }
    h
}

/// Site key `<backend>.<operation>:<input-class>[-nonstandard-layout][-panics|-accepted]`.
fn site_key(ix: usize, op: &Op, a: &M, b: Option<&M>, out: &Out, exp: &Exp, layout_induced: bool) -> String {
    let mut class = input_class(op, a, b, out.is_err());
    // value families (predicates of the failing input): data far from the origin compared with
    // their spread; two different values within 4 ulps of each other among the operands' entries
    if off_centre(a) {
        class.push_str("-off-centre-data");
    }
    if !class.contains("epsilon") && has_near_pair(&[&a.v[..], b.map(|m| &m.v[..]).unwrap_or(&[])].concat()) {
        class.push_str("-nearly-equal-values");
    }
    if layout_induced {
        class.push_str("-nonstandard-layout");
    }
    match (out, exp) {
        (Err(p), Exp::Val(_)) => {
            if p.msg == "Not implemented" {
                class = "not-implemented".into();
            } else {
                class.push_str("-panics");
            }
        }
        (Ok(_), Exp::Reject) => class.push_str("-accepted"),
        _ => {}
    }
    format!("{}.{}:{}", NAMES[ix], op.name(), class)
}

/// Run and judge one case. `la`/`lb` select how the operands are brought into the backend
/// (matrix layout or vector source).
/// Returns whether the operands are inside the operation's domain (the model gives values).
pub fn case(op: &Op, a: &M, la: usize, b: Option<(&M, usize)>) -> bool {
    case_with(op, a, la, b, None)
}

/// `stat` (off-centre value family, `vals.rs`): the reference is the exact statistic (computed on
/// the data minus their offset) and the moment operations are compared with absolute tolerances
/// stated relative to the spread of the data - between the backends as well as with the reference.
/// The verdict rule is the same.
pub fn case_with(op: &Op, a: &M, la: usize, b: Option<(&M, usize)>, stat: Option<&Stat>) -> bool {
    let bm = b.map(|x| x.0);
    let lb = b.map(|x| x.1).unwrap_or(0);
    let is_vec = (op.k as usize) >= (K::VBasic as usize);
    // precondition: every backend reproduces the operands (through zeros/set/transpose/shape/get)
    if !is_vec {
        for ix in 0..3 {
            if !build_ok(ix, a, la) || !bm.map(|m| build_ok(ix, m, lb)).unwrap_or(true) {
                mc::violation(format!("{}.build:{}", NAMES[ix], if la + lb > 0 { "transpose" } else { "zeros-set-get" }), format!("operand {} cannot be built / read back on {} ({})", a.show(), NAMES[ix], LAYOUTS[la]));
                return false;
            }
        }
    }
    let exp = match stat {
        Some(st) => model_stat(op, a, st.off),
        None => model(op, a, bm),
    };
    let abs: Vec<f64> = stat.map(|st| stat_tols(op, st)).unwrap_or_default();
    let abs = &abs[..];
    let outs: Vec<Out> = (0..3).map(|ix| eval_ix(ix, op, a, la, b)).collect();
    let scale = a.max_abs().max(bm.map(|m| m.max_abs()).unwrap_or(0.0)).max(1.0);
    let agree = outs_agree(&outs[0], &outs[1], scale, abs) && outs_agree(&outs[0], &outs[2], scale, abs) && outs_agree(&outs[1], &outs[2], scale, abs);
    let matches: Vec<bool> = outs.iter().map(|o| out_matches(o, &exp, scale, abs)).collect();
    let all_match = matches.iter().all(|m| *m);
    mc::outcome(digest(&outs));
    match &exp {
        Exp::Val(_) => {
            mc::nontrivial();
            mc::count("cases_in_domain");
            if la + lb > 0 {
                mc::count("cases_with_transposed_layout_operand");
            }
        }
        Exp::Reject => {
            mc::count("cases_shape_mismatch");
            if outs.iter().all(|o| o.is_err()) {
                mc::count("mismatch_rejected_by_all_three");
            }
        }
    }
    if outs.iter().any(|o| o.is_err()) {
        mc::count("cases_with_a_panic");
    }
    // calibration record: worst deviation from the model among the backends that match it
    if let Exp::Val(want) = &exp {
        let mut worst = 0.0f64;
        // off-centre family: worst deviation as a fraction of the (spread-relative) tolerance
        let mut worst_of_tol = 0.0f64;
        for (ix, o) in outs.iter().enumerate() {
            if let (true, Ok(got)) = (matches[ix], o) {
                for (k, (g, w)) in got.iter().zip(want).enumerate() {
                    for (x, y) in g.d.iter().zip(&w.d) {
                        if x != y && x.is_finite() && y.is_finite() {
                            match abs.get(k) {
                                Some(t) => worst_of_tol = worst_of_tol.max((x - y).abs() / t),
                                None => worst = worst.max((x - y).abs() / x.abs().max(y.abs()).max(scale)),
                            }
                        }
                    }
                }
            }
        }
        if !abs.is_empty() && matches.iter().any(|m| *m) {
            // (the shared one-pass `MatrixStats::var` / `std` - C03's known finding - is kept out of the
            // headroom record: where its cancellation error happens to stay below the tolerance of
            // an operand whose spread is much larger than the lane's, it "matches" with little headroom)
            mc::count(if matches!(op.k, K::Var | K::Std) && worst_of_tol > 0.0 {
                "offset_one_pass_variance_cases_inside_the_spread_tolerance"
            } else if worst_of_tol == 0.0 {
                "offset_moment_deviation_none"
            } else if worst_of_tol <= 1e-3 {
                "offset_moment_deviation_le_1e-3_of_tolerance"
            } else if worst_of_tol <= 1e-1 {
                "offset_moment_deviation_le_1e-1_of_tolerance"
            } else {
                "offset_moment_deviation_le_tolerance"
            });
        }
        mc::count(if worst == 0.0 {
            "deviation_from_model_none"
        } else if worst <= 1e-14 {
            "deviation_from_model_le_1e-14"
        } else if worst <= 1e-12 {
            "deviation_from_model_le_1e-12"
        } else {
            "deviation_from_model_le_1e-10"
        });
    }
    if agree && !all_match {
        // the three backends do the same thing, which is not what the textbook model does: not a
        // backend-equivalence matter unless the statement names the operation explicitly
        mc::count(if matches!(exp, Exp::Reject) { "mismatch_accepted_alike_by_all_three" } else { "all_three_agree_but_model_differs" });
        if stat.is_some() && matches!(op.k, K::Var | K::Std) {
            // the one-pass formula of the default `MatrixStats::var` / `std`, shared by the three
            // backends (a KNOWN finding of C03: stats.var:large-offset, stats.std:large-offset)
            mc::count("offset_one_pass_variance_shared_by_all_three_backends_counted_only");
        }
    }
    let bad = !(all_match || (agree && !op.explicit_clause()));
    if bad {
        for ix in 0..3 {
            if matches[ix] {
                continue;
            }
            // is the failure induced by the non-standard layout? (diagnostic only: same case, standard layout)
            let layout_induced = !is_vec && la + lb > 0 && out_matches(&eval_ix(ix, op, a, 0, bm.map(|m| (m, 0))), &exp, scale, abs);
            let site = site_key(ix, op, a, bm, &outs[ix], &exp, layout_induced);
            let others: Vec<String> = (0..3).filter(|j| *j != ix).map(|j| format!("{}: {}", NAMES[j], show_out(&outs[j]))).collect();
            mc::violation(
                site,
                format!(
                    "{} on {}{}{}: {} gives {}; reference model: {}; {}",
                    op.show(),
                    a.show(),
                    bm.map(|m| format!(" and {}", m.show())).unwrap_or_default(),
                    if is_vec { format!(" (vector sources {},{})", la, lb) } else if la + lb > 0 { format!(" (layouts: a {}, b {})", LAYOUTS[la], LAYOUTS[lb]) } else { String::new() },
                    NAMES[ix],
                    show_out(&outs[ix]),
                    show_exp(&exp),
                    others.join("; ")
                ),
            );
        }
    }
    // long operands: one string per row (a pretty-printed number per line would make replays huge)
    let compact = |m: &M| -> mc::Value {
        if m.v.len() <= 64 {
            json!(m.rows())
        } else {
            json!(m.rows().iter().map(|r| format!("{:?}", r)).collect::<Vec<_>>())
        }
    };
    mc::describe(|| {
        json!({
            "operation": op.show(),
            "a": compact(a), "a_layout": if is_vec { format!("vector source {}", la) } else { LAYOUTS[la].to_string() },
            "b": bm.map(compact), "b_layout": if is_vec { format!("vector source {}", lb) } else { LAYOUTS[lb].to_string() },
            "reference_model": show_exp(&exp),
            "off_centre_family": stat.map(|st| format!("offset {}, spread {}, absolute tolerances per returned value {:?} (others: relative 1e-10)", st.off, st.spread, abs)),
            "dense": show_out(&outs[0]), "ndarray": show_out(&outs[1]), "nalgebra": show_out(&outs[2]),
        })
    });
    matches!(exp, Exp::Val(_))
}
