//! One case = one operation instance on one operand tuple, run on the three backends and judged
//! against the reference model and against each other.

use crate::bk::{build_ok, eval_ix, LAYOUTS, NAMES};
use crate::model::*;
use mc_core::{self as mc, json};

fn digest(outs: &[Out]) -> u64 {
    let mut h = 0x51ed_u64;
    for o in outs {
        match o {
            Err(_) => h = mc::hash::mix(h, 0xdead),
            Ok(vs) => {
                for v in vs {
                    h = mc::hash::mix(h, mc::hash::h_usizes(&v.sh));
                    h = mc::hash::mix(h, mc::hash::h_f64s(&v.d));
                }
            }
        }
    }
    h
}

/// Site key `<backend>.<operation>:<input-class>[-nonstandard-layout][-panics|-accepted]`.
fn site_key(ix: usize, op: &Op, a: &M, b: Option<&M>, out: &Out, exp: &Exp, layout_induced: bool) -> String {
    let mut class = input_class(op, a, b, out.is_err());
    if layout_induced {
        class.push_str("-nonstandard-layout");
    }
    match (out, exp) {
        (Err(p), Exp::Val(_)) => {
            if p.msg == "Not implemented" {
                class = "not-implemented".into();
            } else {
                class.push_str("-panics");
            }
        }
        (Ok(_), Exp::Reject) => class.push_str("-accepted"),
        _ => {}
    }
    format!("{}.{}:{}", NAMES[ix], op.name(), class)
}

/// Run and judge one case. `la`/`lb` select how the operands are brought into the backend
/// (matrix layout or vector source).
/// Returns whether the operands are inside the operation's domain (the model gives values).
pub fn case(op: &Op, a: &M, la: usize, b: Option<(&M, usize)>) -> bool {
    let bm = b.map(|x| x.0);
    let lb = b.map(|x| x.1).unwrap_or(0);
    let is_vec = (op.k as usize) >= (K::VBasic as usize);
    // precondition: every backend reproduces the operands (through zeros/set/transpose/shape/get)
    if !is_vec {
        for ix in 0..3 {
            if !build_ok(ix, a, la) || !bm.map(|m| build_ok(ix, m, lb)).unwrap_or(true) {
                mc::violation(format!("{}.build:{}", NAMES[ix], if la + lb > 0 { "transpose" } else { "zeros-set-get" }), format!("operand {} cannot be built / read back on {} ({})", a.show(), NAMES[ix], LAYOUTS[la]));
                return false;
            }
        }
    }
    let exp = model(op, a, bm);
    let outs: Vec<Out> = (0..3).map(|ix| eval_ix(ix, op, a, la, b)).collect();
    let scale = a.max_abs().max(bm.map(|m| m.max_abs()).unwrap_or(0.0)).max(1.0);
    let agree = outs_agree(&outs[0], &outs[1], scale) && outs_agree(&outs[0], &outs[2], scale) && outs_agree(&outs[1], &outs[2], scale);
    let matches: Vec<bool> = outs.iter().map(|o| out_matches(o, &exp, scale)).collect();
    let all_match = matches.iter().all(|m| *m);
    mc::outcome(digest(&outs));
    match &exp {
        Exp::Val(_) => {
            mc::nontrivial();
            mc::count("cases_in_domain");
            if la + lb > 0 {
                mc::count("cases_with_transposed_layout_operand");
            }
        }
        Exp::Reject => {
            mc::count("cases_shape_mismatch");
            if outs.iter().all(|o| o.is_err()) {
                mc::count("mismatch_rejected_by_all_three");
            }
        }
    }
    if outs.iter().any(|o| o.is_err()) {
        mc::count("cases_with_a_panic");
    }
    // calibration record: worst deviation from the model among the backends that match it
    if let Exp::Val(want) = &exp {
        let mut worst = 0.0f64;
        for (ix, o) in outs.iter().enumerate() {
            if let (true, Ok(got)) = (matches[ix], o) {
                for (g, w) in got.iter().zip(want) {
                    for (x, y) in g.d.iter().zip(&w.d) {
                        if x != y && x.is_finite() && y.is_finite() {
                            worst = worst.max((x - y).abs() / x.abs().max(y.abs()).max(scale));
                        }
                    }
                }
            }
        }
        mc::count(if worst == 0.0 {
            "deviation_from_model_none"
        } else if worst <= 1e-14 {
            "deviation_from_model_le_1e-14"
        } else if worst <= 1e-12 {
            "deviation_from_model_le_1e-12"
        } else {
            "deviation_from_model_le_1e-10"
        });
    }
    if agree && !all_match {
        // the three backends do the same thing, which is not what the textbook model does: not a
        // backend-equivalence matter unless the statement names the operation explicitly
        mc::count(if matches!(exp, Exp::Reject) { "mismatch_accepted_alike_by_all_three" } else { "all_three_agree_but_model_differs" });
    }
    let bad = !(all_match || (agree && !op.explicit_clause()));
    if bad {
        for ix in 0..3 {
            if matches[ix] {
                continue;
            }
            // is the failure induced by the non-standard layout? (diagnostic only: same case, standard layout)
            let layout_induced = !is_vec && la + lb > 0 && out_matches(&eval_ix(ix, op, a, 0, bm.map(|m| (m, 0))), &exp, scale);
            let site = site_key(ix, op, a, bm, &outs[ix], &exp, layout_induced);
            let others: Vec<String> = (0..3).filter(|j| *j != ix).map(|j| format!("{}: {}", NAMES[j], show_out(&outs[j]))).collect();
            mc::violation(
                site,
                format!(
                    "{} on {}{}{}: {} gives {}; reference model: {}; {}",
                    op.show(),
                    a.show(),
                    bm.map(|m| format!(" and {}", m.show())).unwrap_or_default(),
                    if is_vec { format!(" (vector sources {},{})", la, lb) } else if la + lb > 0 { format!(" (layouts: a {}, b {})", LAYOUTS[la], LAYOUTS[lb]) } else { String::new() },
                    NAMES[ix],
                    show_out(&outs[ix]),
                    show_exp(&exp),
                    others.join("; ")
                ),
            );
        }
    }
    // long operands: one string per row (a pretty-printed number per line would make replays huge)
    let compact = |m: &M| -> mc::Value {
        if m.v.len() <= 64 {
            json!(m.rows())
        } else {
            json!(m.rows().iter().map(|r| format!("{:?}", r)).collect::<Vec<_>>())
        }
    };
    mc::describe(|| {
        json!({
            "operation": op.show(),
            "a": compact(a), "a_layout": if is_vec { format!("vector source {}", la) } else { LAYOUTS[la].to_string() },
            "b": bm.map(compact), "b_layout": if is_vec { format!("vector source {}", lb) } else { LAYOUTS[lb].to_string() },
            "reference_model": show_exp(&exp),
            "dense": show_out(&outs[0]), "ndarray": show_out(&outs[1]), "nalgebra": show_out(&outs[2]),
        })
    });
    matches!(exp, Exp::Val(_))
}
