//! E2: operation chains. The same history of operations is applied to a real object of each of the
//! three backends (so that hidden state such as ndarray's memory layout evolves as it would in user
//! code); after every step the logical content (shape + get) must be what the reference model
//! computes from the content before the step, and the flattening / row / column / reduction views of
//! the reached object must agree with its logical content.

use crate::bk::{build, eval_on, view, Bk, NAMES};
use crate::model::*;
use mc_core::bfs::{BfsViol, Model};
use mc_core::{self as mc, json, Job, PanicInfo, Value};
use smartcore::linalg::naive::dense_matrix::DenseMatrix;

pub const INITS: [(usize, usize); 6] = [(1, 1), (1, 2), (2, 1), (2, 2), (2, 3), (3, 2)];
pub const N_ACTS: u8 = 16;
const MAX_ELEMS: usize = 24;
const ACT_NAMES: [&str; 16] = [
    "transpose", "reshape(c,r)", "reshape(1,r*c)", "reshape(r*c,1)", "from_row_vector(to_row_vector)", "h_stack(self)", "v_stack(self)", "slice(drop last row)", "slice(drop first column)", "take(rows reversed)",
    "add_mut(J)", "mul_scalar_mut(-2)", "copy_from(J transposed-layout)", "ab(true,self,false)", "negative_mut", "take(columns reversed)",
];
/// library method exercised by each action (site keys use it)
const ACT_METHOD: [&str; 16] = ["transpose", "reshape", "reshape", "reshape", "to_row_vector", "h_stack", "v_stack", "slice", "slice", "take", "add_mut", "mul_scalar_mut", "copy_from", "ab", "negative_mut", "take"];

fn j_of(p: &M) -> M {
    fill(0, p.r, p.c, 1, 0)
}

/// The reference model of one action; `None` = not enabled in this state.
pub fn model_act(a: u8, p: &M) -> Option<M> {
    let n = p.r * p.c;
    Some(match a {
        0 => p.tr(),
        1 => p.reshaped(p.c, p.r),
        2 => p.reshaped(1, n),
        3 => p.reshaped(n, 1),
        4 => p.reshaped(1, n),
        5 if 2 * n <= MAX_ELEMS => M::new(p.r, 2 * p.c, |i, j| p.at(i, j % p.c)),
        6 if 2 * n <= MAX_ELEMS => M::new(2 * p.r, p.c, |i, j| p.at(i % p.r, j)),
        7 if p.r > 1 => M::new(p.r - 1, p.c, |i, j| p.at(i, j)),
        8 if p.c > 1 => M::new(p.r, p.c - 1, |i, j| p.at(i, j + 1)),
        9 if p.r > 1 => M::new(p.r, p.c, |i, j| p.at(p.r - 1 - i, j)),
        10 => p.zip(&j_of(p), |x, y| x + y),
        11 => p.map(|x| x * -2.0),
        12 => j_of(p),
        13 if p.c * p.c <= MAX_ELEMS && p.max_abs() < 1e6 => p.tr().mul(p),
        14 => p.map(|x| -x),
        15 if p.c > 1 => M::new(p.r, p.c, |i, j| p.at(i, p.c - 1 - j)),
        _ => return None,
    })
}

/// The real operation on a real object.
fn apply<B: Bk>(x: B, a: u8) -> B {
    let (r, c) = x.shape();
    match a {
        0 => x.transpose(),
        1 => x.reshape(c, r),
        2 => x.reshape(1, r * c),
        3 => x.reshape(r * c, 1),
        4 => B::from_row_vector(x.to_row_vector()),
        5 => x.h_stack(&x),
        6 => x.v_stack(&x),
        7 => x.slice(0..r - 1, 0..c),
        8 => x.slice(0..r, 1..c),
        9 => x.take(&(0..r).rev().collect::<Vec<_>>(), 0),
        10 => {
            let mut y = x;
            y.add_mut(&build::<B>(&j_of(&M::new(r, c, |_, _| 0.0)), 0));
            y
        }
        11 => {
            let mut y = x;
            y.mul_scalar_mut(-2.0);
            y
        }
        12 => {
            let mut y = x;
            y.copy_from(&build::<B>(&j_of(&M::new(r, c, |_, _| 0.0)), 1));
            y
        }
        13 => x.ab(true, &x, false),
        14 => {
            let mut y = x;
            y.negative_mut();
            y
        }
        _ => x.take(&(0..c).rev().collect::<Vec<_>>(), 1),
    }
}

/// What one backend did along a chain: the logical content after every step it survived, the
/// panic that stopped it (if any), and the observer values of the final object.
struct Trace {
    views: Vec<M>,
    panic: Option<PanicInfo>,
    observers: Vec<(Op, Out)>,
}

fn observers() -> Vec<Op> {
    [K::ToRowVector, K::Rows, K::Cols, K::Sum, K::ColumnMean, K::Argmax, K::Norm2, K::EqSelf].iter().map(|k| Op::new(*k)).collect()
}

fn trace<B: Bk>(init: &M, acts: &[u8], want_observers: bool) -> Trace {
    let mut t = Trace { views: Vec::new(), panic: None, observers: Vec::new() };
    let mut cur: Option<B> = None;
    for step in 0..=acts.len() {
        let prev = cur.take();
        let r = mc::guard(|| {
            let x: B = if step == 0 { build(init, 0) } else { apply(prev.unwrap(), acts[step - 1]) };
            let v = view(&x);
            (x, v)
        });
        match r {
            Ok((x, v)) => {
                t.views.push(v);
                cur = Some(x);
            }
            Err(p) => {
                t.panic = Some(p);
                return t;
            }
        }
    }
    if want_observers {
        let x = cur.unwrap();
        for op in observers() {
            let y = x.clone();
            let o = mc::guard(|| eval_on::<B>(&op, y, None));
            t.observers.push((op, o));
        }
    }
    t
}

fn trace_ix(ix: usize, init: &M, acts: &[u8], obs: bool) -> Trace {
    match ix {
        0 => trace::<DenseMatrix<f64>>(init, acts, obs),
        1 => trace::<ndarray::Array2<f64>>(init, acts, obs),
        _ => trace::<nalgebra::DMatrix<f64>>(init, acts, obs),
    }
}

/// Does the action give the model's result on backend `ix` when the predecessor content is built
/// afresh in standard layout? (diagnostic: is a failure induced by the object's history)
fn fresh_ok(ix: usize, p: &M, a: u8, want: &M) -> bool {
    let t = trace_ix(ix, p, &[a], false);
    t.panic.is_none() && t.views.len() == 2 && vals_close(&[Val::mat(&t.views[1])], &[Val::mat(want)], p.max_abs().max(1.0), &[])
}

fn act_class(a: u8, p: &M) -> &'static str {
    match a {
        5 | 6 | 13 => "compatible-shapes",
        10 | 12 => "same-shape",
        _ => shape_class(p),
    }
}

pub fn init_matrix(i: usize) -> M {
    fill(0, INITS[i].0, INITS[i].1, 0, 0)
}

pub fn model_states(init: &M, acts: &[u8]) -> Option<Vec<M>> {
    let mut v = vec![init.clone()];
    for a in acts {
        let n = model_act(*a, v.last().unwrap())?;
        v.push(n);
    }
    Some(v)
}

pub fn show_acts(acts: &[u8]) -> Vec<&'static str> {
    acts.iter().map(|a| ACT_NAMES[*a as usize]).collect()
}

/// Check the state reached by `acts` from `init`: the last transition and the observers of the
/// reached object, on each backend whose content before the last step was still right.
/// Returns (site, what) violations and the names of witnesses.
pub fn check_state(init: &M, acts: &[u8]) -> (Vec<(String, String)>, Vec<&'static str>) {
    let mut viols = Vec::new();
    let mut wit = Vec::new();
    let Some(ms) = model_states(init, acts) else { return (viols, wit) };
    let k = acts.len();
    let want = &ms[k];
    let scale = ms.iter().map(|m| m.max_abs()).fold(1.0, f64::max);
    let same = |x: &M, y: &M| vals_close(&[Val::mat(x)], &[Val::mat(y)], scale, &[]);
    for ix in 0..3 {
        let t = trace_ix(ix, init, acts, true);
        // content before the last step (the first deviation was reported in the ancestor state)
        let reached_prev = t.views.len() >= k.max(1) && (0..k).all(|s| same(&t.views[s], &ms[s]));
        if !reached_prev {
            wit.push("chain_backend_already_deviated");
            continue;
        }
        let hist = format!("{} -> {:?}", init.show(), show_acts(acts));
        if t.views.len() <= k || !same(&t.views[k], want) {
            let (a, p) = if k == 0 { (255u8, init) } else { (acts[k - 1], &ms[k - 1]) };
            let induced = k > 1 && fresh_ok(ix, p, a, want);
            let mut class = if k == 0 { "zeros-set-get".to_string() } else { act_class(a, p).to_string() };
            if induced {
                class.push_str("-nonstandard-layout");
            }
            if t.views.len() <= k {
                class.push_str("-panics");
            }
            let got = if t.views.len() > k { t.views[k].show() } else { t.panic.as_ref().map(|p| p.brief()).unwrap_or_default() };
            viols.push((
                format!("{}.{}:{}", NAMES[ix], if k == 0 { "build" } else { ACT_METHOD[a as usize] }, class),
                format!("chain {}: after the last step {} holds {}; reference model: {} (content before the step: {})", hist, NAMES[ix], got, want.show(), p.show()),
            ));
            continue;
        }
        // observers of the reached object
        for (op, out) in &t.observers {
            let exp = model(op, want, None);
            if !out_matches(out, &exp, scale, &[]) {
                let fresh = mc::guard(|| match ix {
                    0 => eval_on::<DenseMatrix<f64>>(op, build(want, 0), None),
                    1 => eval_on::<ndarray::Array2<f64>>(op, build(want, 0), None),
                    _ => eval_on::<nalgebra::DMatrix<f64>>(op, build(want, 0), None),
                });
                let mut class = input_class(op, want, None, out.is_err());
                if k > 0 && out_matches(&fresh, &exp, scale, &[]) {
                    class.push_str("-nonstandard-layout");
                }
                if out.is_err() {
                    class.push_str("-panics");
                }
                viols.push((format!("{}.{}:{}", NAMES[ix], op.name(), class), format!("chain {}: {} of the reached object {} on {} gives {}; reference model: {}", hist, op.show(), want.show(), NAMES[ix], show_out(out), show_exp(&exp))));
            }
        }
    }
    if k > 0 {
        match (want.r, want.c) {
            (1, 1) => wit.push("chain_reached_1x1"),
            (1, _) => wit.push("chain_reached_1xN"),
            (_, 1) => wit.push("chain_reached_Nx1"),
            (r, c) if r != c && acts.contains(&0) => wit.push("chain_nonsquare_after_transpose"),
            _ => {}
        }
    }
    (viols, wit)
}

// ------------------------------------------------------------------------------------------------
// the explicit-state model: state = (init index, history), packed

pub fn pack(init: usize, acts: &[u8]) -> u64 {
    let mut s = init as u64 | ((acts.len() as u64) << 4);
    for (i, a) in acts.iter().enumerate() {
        s |= (*a as u64) << (8 + 4 * i);
    }
    s
}

pub fn unpack(s: u64) -> (usize, Vec<u8>) {
    let n = ((s >> 4) & 15) as usize;
    ((s & 15) as usize, (0..n).map(|i| ((s >> (8 + 4 * i)) & 15) as u8).collect())
}

pub struct Chains;

impl Model for Chains {
    type State = u64;
    type Action = u8;
    fn init(&self) -> Vec<u64> {
        (0..INITS.len()).map(|i| pack(i, &[])).collect()
    }
    fn actions(&self, _s: &u64) -> Vec<u8> {
        (0..N_ACTS).collect()
    }
    fn step(&self, s: &u64, a: &u8) -> Option<u64> {
        let (i, mut acts) = unpack(*s);
        acts.push(*a);
        model_states(&init_matrix(i), &acts).map(|_| pack(i, &acts))
    }
    fn check(&self, s: &u64, _last: Option<(&u64, &u8)>) -> Vec<BfsViol> {
        let (i, acts) = unpack(*s);
        check_state(&init_matrix(i), &acts).0.into_iter().map(|(site, what)| BfsViol { site, what }).collect()
    }
    fn witnesses(&self, s: &u64) -> Vec<&'static str> {
        let (i, acts) = unpack(*s);
        // cheap witnesses only (shape of the model state); the deviation witness needs the traces
        let Some(ms) = model_states(&init_matrix(i), &acts) else { return vec![] };
        let w = ms.last().unwrap();
        let mut v = Vec::new();
        if !acts.is_empty() {
            match (w.r, w.c) {
                (1, 1) => v.push("chain_reached_1x1"),
                (1, _) => v.push("chain_reached_1xN"),
                (_, 1) => v.push("chain_reached_Nx1"),
                (r, c) if r != c && acts.contains(&0) => v.push("chain_nonsquare_after_transpose"),
                _ => {}
            }
        }
        v
    }
    fn show_state(&self, s: &u64) -> Value {
        let (i, acts) = unpack(*s);
        let m = model_states(&init_matrix(i), &acts).map(|v| v.last().unwrap().rows());
        json!({"init": init_matrix(i).rows(), "history": show_acts(&acts), "logical_content": m})
    }
    fn show_action(&self, a: &u8) -> Value {
        Value::String(ACT_NAMES[*a as usize].to_string())
    }
    fn replay_job(&self, init: &u64, path: &[u8]) -> Job {
        let (i, _) = unpack(*init);
        Job::new(format!("chain-replay-{}-{:?}", i, path), json!({"kind": "chain", "init": i, "acts": path}))
    }
}

/// E1 entry point for replaying a chain state found by the search.
pub fn run_replay(init: usize, acts: &[u8]) {
    let m = init_matrix(init);
    let (viols, _) = check_state(&m, acts);
    for (site, what) in viols {
        mc::violation(site, what);
    }
    mc::nontrivial();
    mc::outcome(mc::hash::h_usizes(&acts.iter().map(|a| *a as usize).collect::<Vec<_>>()));
    mc::describe(|| json!({"init": m.rows(), "history": show_acts(acts), "model_states": model_states(&m, acts).map(|v| v.iter().map(|x| x.rows()).collect::<Vec<_>>())}));
}
