//! The operation instances enumerated per operand shape (deterministic functions of the shape and
//! the tier, so that the choice tree is the same on every replay).

use crate::model::{Op, K};

const INF: f64 = f64::INFINITY;

pub fn index_lists(n: usize, max_len: usize) -> Vec<Vec<usize>> {
    let mut out: Vec<Vec<usize>> = Vec::new();
    let mut cur: Vec<Vec<usize>> = vec![vec![]];
    for _ in 0..max_len {
        let mut next = Vec::new();
        for p in &cur {
            for i in 0..n {
                let mut q = p.clone();
                q.push(i);
                next.push(q);
            }
        }
        out.extend(next.iter().cloned());
        cur = next;
    }
    out
}

/// Every one-operand matrix operation instance for an r x c operand.
pub fn unary(r: usize, c: usize, thorough: bool) -> Vec<Op> {
    let mut v = Vec::new();
    for k in [K::ToRowVector, K::FromRowVector, K::Rows, K::Cols, K::Transpose, K::NegativeMut, K::AbsMut, K::SoftmaxMut, K::Norm2, K::Sum, K::Max, K::Min, K::ColumnMean, K::Argmax, K::Unique, K::Cov, K::EqSelf] {
        v.push(Op::new(k));
    }
    for x in [2.0, 3.0, 0.5] {
        v.push(Op::new(K::PowMut).x(x));
    }
    for x in [0.0, 10.0] {
        v.push(Op::new(K::BinarizeMut).x(x));
    }
    for x in [1.0, 2.0, 3.0, 0.5, -1.0, INF, -INF] {
        v.push(Op::new(K::Norm).x(x));
    }
    for k in [K::Mean, K::Var, K::Std, K::ScaleMut] {
        for axis in 0..2 {
            v.push(Op::new(k).w(axis));
        }
    }
    for w in 0..4 {
        for x in if thorough { vec![2.0, -3.0, 0.5] } else { vec![2.0, -3.0] } {
            v.push(Op::new(K::ScalarMut).w(w).x(x));
        }
    }
    for w in 0..5 {
        for i in 0..r {
            for j in 0..c {
                v.push(Op::new(K::ElementMut).w(w).at(i, j).x(3.0));
            }
        }
    }
    // reshape: every factorisation of r*c, and targets of the wrong size (three larger, up to three smaller)
    let n = r * c;
    for i in 1..=n {
        if n % i == 0 {
            v.push(Op::new(K::Reshape).at(i, n / i));
        }
    }
    for (i, j) in [(r, c + 1), (r + 1, c), (1, n + 1)] {
        v.push(Op::new(K::Reshape).at(i, j));
    }
    // ... and targets with FEWER elements (a size check can be lost in one direction only)
    if n >= 2 {
        let mut small = vec![(1usize, n - 1)];
        if c >= 2 {
            small.push((r, c - 1));
        }
        if r >= 2 {
            small.push((r - 1, c));
        }
        for (i, j) in small {
            v.push(Op::new(K::Reshape).at(i, j));
        }
    }
    // slice: every non-empty range pair
    for i in 0..r {
        for i2 in i + 1..=r {
            for j in 0..c {
                for j2 in j + 1..=c {
                    v.push(Op::new(K::Slice).at(i, j).to(i2, j2));
                }
            }
        }
    }
    // take: every index list (with repeats) of length <= 2 (3 in the thorough tier for small axes)
    for (axis, n) in [(0usize, r), (1usize, c)] {
        let len = if thorough && n <= 4 { 3 } else { 2 };
        for idx in index_lists(n, len) {
            v.push(Op::new(K::Take).w(axis).idx(idx));
        }
    }
    for w in 0..4 {
        v.push(Op::new(K::Ctor).w(w).x(2.5));
    }
    v
}

/// Every two-operand matrix operation instance (the shapes are enumerated by the caller).
pub fn binary() -> Vec<Op> {
    let mut v = Vec::new();
    for k in [K::HStack, K::VStack, K::MatMul, K::Dot, K::EqOp, K::MaxDiff, K::CopyFrom] {
        v.push(Op::new(k));
    }
    for x in [0.5, 1e4] {
        v.push(Op::new(K::ApproxEq).x(x));
    }
    for w in 0..4 {
        v.push(Op::new(K::EwMut).w(w));
    }
    for (i, j) in [(0, 0), (1, 0), (0, 1), (1, 1)] {
        v.push(Op::new(K::AB).at(i, j));
    }
    v
}

pub fn vec_unary(n: usize, thorough: bool) -> Vec<Op> {
    let mut v = Vec::new();
    for k in [K::VBasic, K::VNorm2, K::VSum, K::VUnique, K::VMoments] {
        v.push(Op::new(k));
    }
    for x in [1.0, 2.0, 3.0, 0.5, -1.0, INF, -INF] {
        v.push(Op::new(K::VNorm).x(x));
    }
    for w in 0..3 {
        v.push(Op::new(K::VCtor).w(w).x(2.5));
    }
    for i in 0..n {
        v.push(Op::new(K::VSet).at(i, 0).x(9.5));
        for w in 0..4 {
            v.push(Op::new(K::VElementMut).w(w).at(i, 0).x(3.0));
        }
    }
    for w in 0..4 {
        for x in [2.0, -3.0] {
            v.push(Op::new(K::VScalarMut).w(w).x(x));
        }
    }
    for idx in index_lists(n, if thorough && n <= 5 { 3 } else { 2 }) {
        v.push(Op::new(K::VTake).idx(idx));
    }
    v
}

pub fn vec_binary() -> Vec<Op> {
    let mut v = vec![Op::new(K::VDot), Op::new(K::VCopyFrom)];
    for x in [0.5, 1e4] {
        v.push(Op::new(K::VApproxEq).x(x));
    }
    for w in 0..4 {
        v.push(Op::new(K::VEwMut).w(w));
    }
    v
}
