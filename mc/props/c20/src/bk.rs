//! The three backends behind one generic interface: ONE generic evaluator per operation family,
//! instantiated at `DenseMatrix<f64>`, `ndarray::Array2<f64>` and `nalgebra::DMatrix<f64>`.

use crate::model::{scale_args, Op, Out, Val, K, M};
use mc_core as mc;
use smartcore::linalg::naive::dense_matrix::DenseMatrix;
use smartcore::linalg::{BaseMatrix, BaseVector, Matrix};

/// The three instantiations (in the order of `NAMES`).
pub trait Bk: Matrix<f64> + 'static {
    /// A matrix with logical content `m` whose MEMORY is unusual in a way only this backend's native
    /// API can produce (None: the backend has no such representation).
    fn exotic(_m: &M, _kind: usize) -> Option<Self> {
        None
    }
    /// The same for the row-vector type.
    fn vexotic(_v: &[f64]) -> Option<Self::RowVector> {
        None
    }
}
impl Bk for DenseMatrix<f64> {}
impl Bk for ndarray::Array2<f64> {
    /// kind 0: an owned array cut out of a larger table with `slice_move` (non-zero offset, row stride
    /// larger than the row length, buffer longer than the content); kind 1: rows stored in reverse and
    /// the axis inverted (negative stride)
    fn exotic(m: &M, kind: usize) -> Option<Self> {
        use ndarray::{s, Array2, Axis};
        if kind == 0 {
            let mut big = Array2::<f64>::from_elem((m.r + 1, m.c + 2), 777.0);
            for i in 0..m.r {
                for j in 0..m.c {
                    big[[i + 1, j + 1]] = m.at(i, j);
                }
            }
            Some(big.slice_move(s![1.., 1..m.c + 1]))
        } else {
            let mut x = Array2::<f64>::zeros((m.r, m.c));
            for i in 0..m.r {
                for j in 0..m.c {
                    x[[m.r - 1 - i, j]] = m.at(i, j);
                }
            }
            x.invert_axis(Axis(0));
            Some(x)
        }
    }
    fn vexotic(v: &[f64]) -> Option<ndarray::Array1<f64>> {
        let mut x = ndarray::Array1::<f64>::from_vec(v.iter().rev().cloned().collect());
        x.invert_axis(ndarray::Axis(0));
        Some(x)
    }
}
impl Bk for nalgebra::DMatrix<f64> {}

pub const NAMES: [&str; 3] = ["dense", "ndarray", "nalgebra"];
pub const LAYOUTS: [&str; 4] = ["built element by element", "transpose() of the transpose-shaped twin", "backend-native: cut out of a larger table (ndarray slice_move)", "backend-native: reversed rows with an inverted axis (ndarray)"];

/// Logical content of a backend matrix, read through `shape` + `get` only.
pub fn view<B: BaseMatrix<f64>>(x: &B) -> M {
    let (r, c) = x.shape();
    M::new(r, c, |i, j| x.get(i, j))
}

pub fn vview<V: BaseVector<f64>>(v: &V) -> Vec<f64> {
    (0..v.len()).map(|i| v.get(i)).collect()
}

fn vm<B: BaseMatrix<f64>>(x: &B) -> Val {
    Val::mat(&view(x))
}

fn vv<V: BaseVector<f64>>(v: &V) -> Val {
    Val::vec(vview(v))
}

/// Build the backend matrix holding `m`. Layout 0: `zeros` + `set`; layout 1: the transposed twin is
/// built that way and `transpose()`d, which leaves ndarray arrays in column-major memory order.
pub fn build<B: Bk>(m: &M, layout: usize) -> B {
    if layout >= 2 {
        // backend-native unusual memory; backends without one use the plain construction
        return B::exotic(m, layout - 2).unwrap_or_else(|| build::<B>(m, 0));
    }
    if layout == 0 {
        let mut x = B::zeros(m.r, m.c);
        for i in 0..m.r {
            for j in 0..m.c {
                x.set(i, j, m.at(i, j));
            }
        }
        x
    } else {
        let mut x = B::zeros(m.c, m.r);
        for i in 0..m.r {
            for j in 0..m.c {
                x.set(j, i, m.at(i, j));
            }
        }
        x.transpose()
    }
}

/// Build the backend row vector holding the 1 x n matrix `m`. Source 0: `from_array`; 1: `get_row(0)`
/// of a transposed-layout matrix; 2: `to_row_vector` of the n x 1 column matrix.
pub fn vbuild<B: Bk>(m: &M, source: usize) -> B::RowVector {
    match source {
        0 => B::RowVector::from_array(&m.v),
        1 => build::<B>(m, 1).get_row(0),
        2 => build::<B>(&m.tr(), 0).to_row_vector(),
        // backend-native: stored in reverse with the axis inverted (ndarray); others: from_array
        _ => B::vexotic(&m.v).unwrap_or_else(|| B::RowVector::from_array(&m.v)),
    }
}

/// The generic evaluator: applies `op` to operands held by backend `B` and returns plain values.
pub fn eval<B: Bk>(op: &Op, am: &M, la: usize, bm: Option<(&M, usize)>) -> Vec<Val> {
    if (op.k as usize) >= (K::VBasic as usize) {
        return veval::<B>(op, am, la, bm);
    }
    eval_on::<B>(op, build(am, la), bm.map(|(m, l)| build(m, l)))
}

/// `eval` on operands that already live in the backend (whatever their history / memory layout).
pub fn eval_on<B: Bk>(op: &Op, a: B, b: Option<B>) -> Vec<Val> {
    let am = &view(&a);
    let b = || b.as_ref().expect("second operand");
    let twin = |x: B, y: B| vec![vm(&x), vm(&y)];
    match op.k {
        K::ToRowVector => vec![vv(&a.to_row_vector())],
        K::FromRowVector => vec![vm(&B::from_row_vector(B::RowVector::from_array(&am.v)))],
        K::Rows => {
            let mut d = Vec::new();
            for i in 0..am.r {
                d.extend(vview(&a.get_row(i)));
                d.extend(a.get_row_as_vec(i));
                let mut buf = vec![0.0; am.c];
                a.copy_row_as_vec(i, &mut buf);
                d.extend(buf);
            }
            vec![Val::vec(d)]
        }
        K::Cols => {
            let mut d = Vec::new();
            for j in 0..am.c {
                d.extend(a.get_col_as_vec(j));
                let mut buf = vec![0.0; am.r];
                a.copy_col_as_vec(j, &mut buf);
                d.extend(buf);
            }
            vec![Val::vec(d)]
        }
        K::Transpose => vec![vm(&a.transpose())],
        K::NegativeMut => {
            let mut x = a.clone();
            x.negative_mut();
            twin(x, a.negative())
        }
        K::AbsMut => {
            let mut x = a.clone();
            x.abs_mut();
            twin(x, a.abs())
        }
        K::PowMut => {
            let mut x = a.clone();
            x.pow_mut(op.x);
            let mut y = a.clone();
            twin(x, y.pow(op.x))
        }
        K::SoftmaxMut => {
            let mut x = a;
            x.softmax_mut();
            vec![vm(&x)]
        }
        K::BinarizeMut => {
            let mut x = a.clone();
            x.binarize_mut(op.x);
            twin(x, a.binarize(op.x))
        }
        K::Norm2 => vec![Val::num(a.norm2())],
        K::Norm => vec![Val::num(a.norm(op.x))],
        K::Sum => vec![Val::num(a.sum())],
        K::Max => vec![Val::num(a.max())],
        K::Min => vec![Val::num(a.min())],
        K::ColumnMean => vec![Val::vec(a.column_mean())],
        K::Argmax => vec![Val::idx(&a.argmax())],
        K::Unique => vec![Val::vec(a.unique())],
        K::Cov => vec![vm(&a.cov())],
        K::Mean => vec![Val::vec(a.mean(op.w as u8))],
        K::Var => vec![Val::vec(a.var(op.w as u8))],
        K::Std => vec![Val::vec(a.std(op.w as u8))],
        K::ScaleMut => {
            let (mu, sd) = scale_args(if op.w == 0 { am.c } else { am.r }, op.x);
            let mut x = a;
            x.scale_mut(&mu, &sd, op.w as u8);
            vec![vm(&x)]
        }
        K::ScalarMut => {
            let mut x = a.clone();
            let y = match op.w {
                0 => {
                    x.add_scalar_mut(op.x);
                    a.add_scalar(op.x)
                }
                1 => {
                    x.sub_scalar_mut(op.x);
                    a.sub_scalar(op.x)
                }
                2 => {
                    x.mul_scalar_mut(op.x);
                    a.mul_scalar(op.x)
                }
                _ => {
                    x.div_scalar_mut(op.x);
                    a.div_scalar(op.x)
                }
            };
            twin(x, y)
        }
        K::ElementMut => {
            let mut x = a;
            match op.w {
                0 => x.add_element_mut(op.i, op.j, op.x),
                1 => x.sub_element_mut(op.i, op.j, op.x),
                2 => x.mul_element_mut(op.i, op.j, op.x),
                3 => x.div_element_mut(op.i, op.j, op.x),
                _ => x.set(op.i, op.j, op.x),
            }
            vec![vm(&x)]
        }
        K::Reshape => vec![vm(&a.reshape(op.i, op.j))],
        K::Slice => vec![vm(&a.slice(op.i..op.i2, op.j..op.j2))],
        K::Take => vec![vm(&a.take(&op.idx, op.w as u8))],
        K::EqSelf => {
            let mut x = a.clone();
            x.add_element_mut(am.r - 1, am.c - 1, 1.0);
            vec![Val::flag(a == a.clone()), Val::flag(a == x), Val::flag(a.approximate_eq(&a.clone(), 0.0)), Val::flag(a.approximate_eq(&x, 0.5))]
        }
        K::Ctor => vec![vm(&match op.w {
            0 => B::eye(am.r),
            1 => B::zeros(am.r, am.c),
            2 => B::ones(am.r, am.c),
            _ => B::fill(am.r, am.c, op.x),
        })],
        K::HStack => vec![vm(&a.h_stack(b()))],
        K::VStack => vec![vm(&a.v_stack(b()))],
        K::MatMul => vec![vm(&a.matmul(b()))],
        K::Dot => vec![Val::num(a.dot(b()))],
        K::ApproxEq => vec![Val::flag(a.approximate_eq(b(), op.x))],
        K::EqOp => vec![Val::flag(a == *b())],
        K::EwMut => {
            let mut x = a.clone();
            let y = match op.w {
                0 => {
                    x.add_mut(b());
                    a.add(b())
                }
                1 => {
                    x.sub_mut(b());
                    a.sub(b())
                }
                2 => {
                    x.mul_mut(b());
                    a.mul(b())
                }
                _ => {
                    x.div_mut(b());
                    a.div(b())
                }
            };
            twin(x, y)
        }
        K::MaxDiff => vec![Val::num(a.max_diff(b()))],
        K::CopyFrom => {
            let mut x = a;
            x.copy_from(b());
            vec![vm(&x)]
        }
        K::AB => vec![vm(&a.ab(op.i == 1, b(), op.j == 1))],
        _ => unreachable!(),
    }
}

fn veval<B: Bk>(op: &Op, am: &M, la: usize, bm: Option<(&M, usize)>) -> Vec<Val> {
    type V<B> = <B as BaseMatrix<f64>>::RowVector;
    let a: V<B> = vbuild::<B>(am, la);
    let b: Option<V<B>> = bm.map(|(m, l)| vbuild::<B>(m, l));
    let b = || b.as_ref().expect("second operand");
    let twin = |x: V<B>, y: V<B>| vec![vv(&x), vv(&y)];
    match op.k {
        K::VBasic => vec![Val::num(a.len() as f64), Val::flag(a.is_empty()), Val::vec(a.to_vec()), vv(&V::<B>::from_array(&am.v)), Val::flag(a.approximate_eq(&a.clone(), 0.0))],
        K::VSet => {
            let mut x = a;
            x.set(op.i, op.x);
            vec![vv(&x)]
        }
        K::VCtor => vec![vv(&match op.w {
            0 => V::<B>::zeros(am.c),
            1 => V::<B>::ones(am.c),
            _ => V::<B>::fill(am.c, op.x),
        })],
        K::VNorm2 => vec![Val::num(a.norm2())],
        K::VNorm => vec![Val::num(a.norm(op.x))],
        K::VSum => vec![Val::num(a.sum())],
        K::VUnique => vec![Val::vec(a.unique())],
        K::VMoments => vec![Val::num(a.mean()), Val::num(a.var()), Val::num(a.std())],
        K::VElementMut => {
            let mut x = a;
            match op.w {
                0 => x.add_element_mut(op.i, op.x),
                1 => x.sub_element_mut(op.i, op.x),
                2 => x.mul_element_mut(op.i, op.x),
                _ => x.div_element_mut(op.i, op.x),
            }
            vec![vv(&x)]
        }
        K::VScalarMut => {
            let mut x = a.clone();
            let y = match op.w {
                0 => {
                    x.add_scalar_mut(op.x);
                    a.add_scalar(op.x)
                }
                1 => {
                    x.sub_scalar_mut(op.x);
                    a.sub_scalar(op.x)
                }
                2 => {
                    x.mul_scalar_mut(op.x);
                    a.mul_scalar(op.x)
                }
                _ => {
                    x.div_scalar_mut(op.x);
                    a.div_scalar(op.x)
                }
            };
            twin(x, y)
        }
        K::VTake => vec![vv(&a.take(&op.idx))],
        K::VDot => vec![Val::num(a.dot(b()))],
        K::VApproxEq => vec![Val::flag(a.approximate_eq(b(), op.x))],
        K::VEwMut => {
            let mut x = a.clone();
            let y = match op.w {
                0 => {
                    x.add_mut(b());
                    a.add(b())
                }
                1 => {
                    x.sub_mut(b());
                    a.sub(b())
                }
                2 => {
                    x.mul_mut(b());
                    a.mul(b())
                }
                _ => {
                    x.div_mut(b());
                    a.div(b())
                }
            };
            twin(x, y)
        }
        K::VCopyFrom => {
            let mut x = a;
            x.copy_from(b());
            vec![vv(&x)]
        }
        _ => unreachable!(),
    }
}

/// Non-generic dispatch: run `op` on backend number `ix`, a panic becomes `Err`.
pub fn eval_ix(ix: usize, op: &Op, a: &M, la: usize, b: Option<(&M, usize)>) -> Out {
    match ix {
        0 => mc::guard(|| eval::<DenseMatrix<f64>>(op, a, la, b)),
        1 => mc::guard(|| eval::<ndarray::Array2<f64>>(op, a, la, b)),
        _ => mc::guard(|| eval::<nalgebra::DMatrix<f64>>(op, a, la, b)),
    }
}

/// `build` must reproduce the logical content on every backend (precondition of every case).
pub fn build_ok(ix: usize, m: &M, layout: usize) -> bool {
    let r = match ix {
        0 => mc::guard(|| view(&build::<DenseMatrix<f64>>(m, layout))),
        1 => mc::guard(|| view(&build::<ndarray::Array2<f64>>(m, layout))),
        _ => mc::guard(|| view(&build::<nalgebra::DMatrix<f64>>(m, layout))),
    };
    matches!(r, Ok(v) if v == *m)
}
