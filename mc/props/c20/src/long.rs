//! Extension (round 2): long vectors and long rows / columns. The original space stops at 4x4
//! (8x8 thorough), so code that only starts at a length threshold (unrolled / blocked loops of the
//! bindings' native `dot`, `sum`, norms, `matmul`) was never executed with a non-empty main loop
//! AND a non-empty remainder. This module defines the finite family that is enumerated completely:
//! the lengths, the index-coded alphabets for long operands, the operand shapes and partners, the
//! operation instances, and the data catalogue with N feature columns for the linear-kernel
//! SVR / SVC, k-NN, the distance functions and the kernels. Nothing here calls into the library.

use crate::model::{Op, K, M, SEED_SCALE};
use crate::ops::index_lists;

/// Vector lengths / long-dimension sizes: one below, at and one above the block sizes 16, 32, 64.
pub const LENGTHS_QUICK: [usize; 8] = [15, 16, 17, 31, 32, 33, 64, 65];
pub const LENGTHS_THOROUGH: [usize; 17] = [7, 8, 9, 15, 16, 17, 31, 32, 33, 63, 64, 65, 127, 128, 129, 256, 257];
/// lengths of the estimator / distance data in the thorough tier
pub const EST_LENGTHS_THOROUGH: [usize; 15] = [7, 8, 9, 15, 16, 17, 31, 32, 33, 63, 64, 65, 127, 128, 129];

pub fn lengths(thorough: bool) -> &'static [usize] {
    if thorough {
        &LENGTHS_THOROUGH
    } else {
        &LENGTHS_QUICK
    }
}

pub fn est_lengths(thorough: bool) -> &'static [usize] {
    if thorough {
        &EST_LENGTHS_THOROUGH
    } else {
        &LENGTHS_QUICK
    }
}

/// Index-coded data for long operands: the magnitude of entry (i, j) is its row-major position
/// (variant 0: `1 + i*c + j`) or three times its column-major position (variant 1, the second
/// operand: `2 + 3*(j*r + i)`), so every entry of an operand is distinct whatever the shape (the
/// stride 16 of `model::fill` would collide for more than 16 columns), a dropped, repeated or
/// permuted index changes every reduction, and all sums of products stay exact integers
/// (< 2^53) - a legitimately different summation order cannot cause a difference.
/// Kinds as in `model::FILLS`: 0 checkerboard signs, 1 all negative, 2 all positive, 3 the small
/// alphabet {-1,0,1} with ties / duplicates / zeros; kind 4 (one-operand matrix operations only) is
/// all negative with large magnitude, `-(400 + position)`: the magnitudes that long index-coded
/// operands reach anyway (VERIF_SEED 3 multiplies by 7), where `exp(x - max|x|)` underflows for
/// every entry although `exp(x - max x)` does not.
pub const LONG_FILLS: [&str; 5] = ["mixed-sign", "all-negative", "all-positive", "small-with-ties", "all-negative-large-magnitude"];

pub fn fill_long(kind: usize, r: usize, c: usize, variant: usize, seed: u64) -> M {
    let f = SEED_SCALE[(seed % 8) as usize];
    M::new(r, c, |i, j| {
        let base = if variant == 0 { (1 + i * c + j) as f64 } else { (2 + 3 * (j * r + i)) as f64 };
        match kind {
            0 => (if (i + j) % 2 == 0 { base } else { -base }) * f,
            1 => -base * f,
            2 => base * f,
            3 => (((i * 2 + j * j + variant) % 3) as f64 - 1.0) * f,
            _ => -(400.0 + base) * f.max(1.0),
        }
    })
}

/// The operand shapes with long dimension `n`.
pub fn shapes(n: usize) -> [(usize, usize); 4] {
    [(1, n), (n, 1), (2, n), (n, 2)]
}

/// Second operands offered to every long first operand: the four long shapes (compatible for some
/// operation each), their off-by-one neighbours (mismatch by one in the long dimension) and the
/// small shapes (broadcast candidates).
pub fn partners(n: usize) -> Vec<(usize, usize)> {
    vec![(1, n), (n, 1), (2, n), (n, 2), (1, n + 1), (n + 1, 1), (2, n - 1), (n - 1, 2), (1, 1), (1, 2), (2, 1), (2, 2)]
}

/// Lengths of the second vector offered to a first vector of length `n`.
pub fn vec_partners(n: usize) -> [usize; 4] {
    [n, n - 1, n + 1, 1]
}

/// Positions enumerated along an axis of length `n`: all of a short axis, {first, middle, last} of a long one.
fn positions(n: usize) -> Vec<usize> {
    if n <= 2 {
        (0..n).collect()
    } else {
        vec![0, n / 2, n - 1]
    }
}

/// Ranges enumerated along an axis of length `n`: every non-empty range of a short axis; the full
/// range, head / tail pieces and the interior of a long one.
fn ranges(n: usize) -> Vec<(usize, usize)> {
    if n <= 2 {
        (0..n).flat_map(|a| (a + 1..=n).map(move |b| (a, b))).collect()
    } else {
        vec![(0, n), (0, 1), (0, n / 2), (n / 2, n), (n - 1, n), (1, n - 1)]
    }
}

/// Index lists enumerated along an axis of length `n`: every list of length <= 2 of a short axis;
/// the reversal, every second index and a list with a repeat for a long one.
fn lists(n: usize) -> Vec<Vec<usize>> {
    if n <= 2 {
        index_lists(n, 2)
    } else {
        vec![(0..n).rev().collect(), (0..n).step_by(2).collect(), vec![n - 1, 0, n - 1]]
    }
}

/// One-operand matrix operation instances for a long r x c operand.
pub fn unary_long(r: usize, c: usize) -> Vec<Op> {
    const INF: f64 = f64::INFINITY;
    let mut v = Vec::new();
    for k in [K::ToRowVector, K::FromRowVector, K::Rows, K::Cols, K::Transpose, K::NegativeMut, K::AbsMut, K::SoftmaxMut, K::Norm2, K::Sum, K::Max, K::Min, K::ColumnMean, K::Argmax, K::Unique, K::Cov, K::EqSelf] {
        v.push(Op::new(k));
    }
    for x in [2.0, 3.0, 0.5] {
        v.push(Op::new(K::PowMut).x(x));
    }
    for x in [0.0, 10.0] {
        v.push(Op::new(K::BinarizeMut).x(x));
    }
    for x in [1.0, 2.0, 3.0, INF, -INF] {
        v.push(Op::new(K::Norm).x(x));
    }
    for k in [K::Mean, K::Var, K::Std, K::ScaleMut] {
        for axis in 0..2 {
            v.push(Op::new(k).w(axis));
        }
    }
    for w in 0..4 {
        for x in [2.0, -3.0] {
            v.push(Op::new(K::ScalarMut).w(w).x(x));
        }
    }
    for w in 0..5 {
        for i in positions(r) {
            for j in positions(c) {
                v.push(Op::new(K::ElementMut).w(w).at(i, j).x(3.0));
            }
        }
    }
    // reshape: every factorisation of r*c, and three targets of the wrong size
    let n = r * c;
    for i in 1..=n {
        if n % i == 0 {
            v.push(Op::new(K::Reshape).at(i, n / i));
        }
    }
    for (i, j) in [(r, c + 1), (r + 1, c), (1, n + 1)] {
        v.push(Op::new(K::Reshape).at(i, j));
    }
    for (i, i2) in ranges(r) {
        for (j, j2) in ranges(c) {
            v.push(Op::new(K::Slice).at(i, j).to(i2, j2));
        }
    }
    for (axis, n) in [(0usize, r), (1usize, c)] {
        for idx in lists(n) {
            v.push(Op::new(K::Take).w(axis).idx(idx));
        }
    }
    for w in 0..4 {
        v.push(Op::new(K::Ctor).w(w).x(2.5));
    }
    v
}

/// One-operand vector operation instances for a vector of length `n` (every position for the
/// element-wise updates).
pub fn vec_long(n: usize) -> Vec<Op> {
    const INF: f64 = f64::INFINITY;
    let mut v = Vec::new();
    for k in [K::VBasic, K::VNorm2, K::VSum, K::VUnique, K::VMoments] {
        v.push(Op::new(k));
    }
    for x in [1.0, 2.0, 3.0, INF, -INF] {
        v.push(Op::new(K::VNorm).x(x));
    }
    for w in 0..3 {
        v.push(Op::new(K::VCtor).w(w).x(2.5));
    }
    for i in 0..n {
        v.push(Op::new(K::VSet).at(i, 0).x(9.5));
        for w in 0..4 {
            v.push(Op::new(K::VElementMut).w(w).at(i, 0).x(3.0));
        }
    }
    for w in 0..4 {
        for x in [2.0, -3.0] {
            v.push(Op::new(K::VScalarMut).w(w).x(x));
        }
    }
    for i in 0..n {
        v.push(Op::new(K::VTake).idx(vec![i]));
    }
    for idx in lists(n) {
        v.push(Op::new(K::VTake).idx(idx));
    }
    v
}

/// Length of the contracted dimension of a product operation on in-domain operands (0 otherwise).
pub fn inner_dimension(op: &Op, a: &M) -> usize {
    match op.k {
        K::MatMul => a.c,
        K::AB => {
            if op.i == 1 {
                a.r
            } else {
                a.c
            }
        }
        K::Dot | K::VDot => a.r * a.c,
        _ => 0,
    }
}

// ------------------------------------------------------------------------------------------------
// data with N feature columns

/// Number of row patterns the data sets are drawn from.
pub fn n_patterns(thorough: bool) -> usize {
    if thorough {
        8
    } else {
        6
    }
}

/// Entry `j` of row pattern `k` for `n` feature columns: small integers / halves (every kernel
/// value and squared distance is exact in binary floating point). Patterns 3 and 6 are non-zero
/// only in the last columns, pattern 4 only in the first four: a dot product or distance that
/// loses the remainder of a blocked loop (or its first block) changes the fitted model.
pub fn pattern(k: usize, n: usize, j: usize) -> f64 {
    match k {
        0 => (j % 3) as f64 - 1.0,
        1 => {
            if j % 2 == 0 {
                1.0
            } else {
                -1.0
            }
        }
        2 => ((j * j + 1) % 5) as f64 - 2.0,
        3 => {
            if j + 3 >= n {
                2.0
            } else {
                0.0
            }
        }
        4 => {
            if j < 4 {
                1.0
            } else {
                0.0
            }
        }
        5 => ((j % 7) as f64 - 3.0) * 0.5,
        6 => {
            if j + 1 == n {
                3.0
            } else {
                0.0
            }
        }
        _ => 1.0,
    }
}

/// Query rows: every pattern, the zero row, the all-ones row and the unit vectors of the first,
/// middle and last column.
pub fn queries(n: usize, npat: usize, scale: f64) -> M {
    M::new(npat + 5, n, |i, j| {
        scale
            * if i < npat {
                pattern(i, n, j)
            } else {
                match i - npat {
                    0 => 0.0,
                    1 => 1.0,
                    2 => (j == 0) as u8 as f64,
                    3 => (j == n / 2) as u8 as f64,
                    _ => (j + 1 == n) as u8 as f64,
                }
            }
    })
}

/// Parameters of the kernels evaluated on pairs of backend row vectors (`distances_long`).
pub const RBF_GAMMA: f64 = 0.015625;
pub const POLY: (f64, f64, f64) = (2.0, 0.125, 1.0);
pub const SIGMOID: (f64, f64) = (0.0078125, 0.5);

/// Textbook values of everything `distances_long` observes for the pair of points (a, b), in the
/// order the harness records them: Euclidian, Manhattan, Minkowski p = 1, 2, 3, Hamming, and the
/// linear, RBF, polynomial and sigmoid kernels.
pub fn pair_model(a: &[f64], b: &[f64]) -> Vec<f64> {
    let n = a.len() as f64;
    let d: Vec<f64> = a.iter().zip(b).map(|(x, y)| x - y).collect();
    let sq: f64 = d.iter().map(|x| x * x).sum();
    let l1: f64 = d.iter().map(|x| x.abs()).sum();
    let l3: f64 = d.iter().map(|x| x.abs().powf(3.0)).sum();
    let ham = a.iter().zip(b).filter(|(x, y)| x != y).count() as f64 / n;
    let dot: f64 = a.iter().zip(b).map(|(x, y)| x * y).sum();
    vec![sq.sqrt(), l1, l1, sq.sqrt(), l3.powf(1.0 / 3.0), ham, dot, (-RBF_GAMMA * sq).exp(), (POLY.1 * dot + POLY.2).powf(POLY.0), (SIGMOID.0 * dot + SIGMOID.1).tanh()]
}
