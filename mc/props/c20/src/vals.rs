//! Extension (round 7): two VALUE families. The four value alphabets of `model::fill` are small
//! index-coded integers, so (1) a statistic that one backend computes by a cancelling one-pass
//! formula and (2) a function that one backend makes tolerant to nearly-equal values were never
//! distinguished from the careful / exact implementation. This module defines the two finite
//! families that are enumerated completely (alphabets, operation instances, reference values and
//! tolerances). Nothing here calls into the library.
//!
//! (1) OFF-CENTRE values: `offset + code`, code = one of the four old alphabets, offset in
//!     {1e6, -1e6} for every statistics operation and additionally {1e8, -1e8} for `cov`, `var`,
//!     `std`, `mean`, `column_mean`, `scale_mut` (vectors: `mean/var/std`). The reference is computed
//!     EXACTLY (on the codes, i.e. after removing the offset - all these statistics are shift
//!     invariant or shift equivariant, and `offset + code` is exact in f64), and the tolerance is
//!     stated relative to the SPREAD of the data (max - min of the operand): "up to rounding" for a
//!     covariance means rounding of a careful evaluation.
//! (2) NEARLY-EQUAL values: the alphabet {0.3, 0.1+0.2, 1.0, 1.0000000000000002} (two pairs of
//!     different numbers one ulp apart) for `unique`, `max`, `min`, `argmax`, `==`, `approximate_eq`
//!     (matrices and vectors) and as class labels / targets of estimators.

use crate::model::{fill, model, Exp, Op, Val, K, M};

// ------------------------------------------------------------------------------------------------
// (1) off-centre values

/// The first two offsets are used by every statistics operation, the last two only by the six
/// moment operations.
pub const OFFSETS: [f64; 4] = [1e6, -1e6, 1e8, -1e8];

#[derive(Clone, Copy, Debug)]
pub struct Stat {
    pub off: f64,
    /// max - min of the operand
    pub spread: f64,
}

/// `offset + code`, code = alphabet `kind` of `model::fill` (exact in f64 for every seed multiplier).
pub fn offset_fill(kind: usize, r: usize, c: usize, off: f64, seed: u64) -> M {
    fill(kind, r, c, 0, seed).map(|x| off + x)
}

fn large(off: f64) -> bool {
    off.abs() > 1e7
}

/// Statistics operation instances on a matrix holding `off + code`.
pub fn stat_ops(off: f64) -> Vec<Op> {
    const INF: f64 = f64::INFINITY;
    let mut v = vec![Op::new(K::Cov), Op::new(K::ColumnMean)];
    for axis in 0..2 {
        for k in [K::Mean, K::Var, K::Std] {
            v.push(Op::new(k).w(axis));
        }
        // the means handed to scale_mut are off-centre as well: offset + (1, 2, ..)
        v.push(Op::new(K::ScaleMut).w(axis).x(off));
    }
    if !large(off) {
        for k in [K::Sum, K::Max, K::Min, K::Argmax, K::Unique, K::Norm2, K::SoftmaxMut] {
            v.push(Op::new(k));
        }
        for x in [1.0, 2.0, 3.0, INF, -INF] {
            v.push(Op::new(K::Norm).x(x));
        }
    }
    v
}

/// Statistics operation instances on a vector holding `off + code`.
pub fn vstat_ops(off: f64) -> Vec<Op> {
    const INF: f64 = f64::INFINITY;
    let mut v = vec![Op::new(K::VMoments)];
    if !large(off) {
        for k in [K::VSum, K::VNorm2, K::VUnique] {
            v.push(Op::new(k));
        }
        for x in [1.0, 2.0, 3.0, INF, -INF] {
            v.push(Op::new(K::VNorm).x(x));
        }
    }
    v
}

/// Exact reference: the moment statistics are evaluated on the codes (`a - off`, exact), the
/// offset is added back to the means; everything else is the textbook model on `a` itself.
pub fn model_stat(op: &Op, a: &M, off: f64) -> Exp {
    let codes = a.map(|x| x - off);
    let shifted = |e: Exp, first_only: bool| match e {
        Exp::Val(vs) => Exp::Val(vs.into_iter().enumerate().map(|(k, v)| if k == 0 || !first_only { Val { sh: v.sh, d: v.d.iter().map(|x| off + x).collect() } } else { v }).collect()),
        r => r,
    };
    match op.k {
        K::Cov | K::Var | K::Std => model(op, &codes, None),
        K::Mean | K::ColumnMean => shifted(model(op, &codes, None), false),
        K::VMoments => shifted(model(op, &codes, None), true),
        _ => model(op, a, None),
    }
}

/// Absolute tolerance of every returned value of a moment operation (empty: the relative rule of
/// `model::close` applies): 1e-9 spread^2 for covariances / variances, 1e-9 spread for standard
/// deviations, 64 eps |offset| for means, 1e-12 spread for the (exactly centred) `scale_mut`.
pub fn stat_tols(op: &Op, st: &Stat) -> Vec<f64> {
    let s = st.spread;
    let mean = 64.0 * f64::EPSILON * st.off.abs();
    match op.k {
        K::Cov | K::Var => vec![1e-9 * s * s],
        K::Std => vec![1e-9 * s],
        K::Mean | K::ColumnMean => vec![mean],
        K::ScaleMut => vec![1e-12 * s],
        K::VMoments => vec![mean, 1e-9 * s * s, 1e-9 * s],
        _ => Vec::new(),
    }
}

// ------------------------------------------------------------------------------------------------
// (2) nearly-equal values

/// 0.3 and 0.1 + 0.2 differ by 2^-54 (one ulp), 1 and 1 + eps by 2^-52 (one ulp).
pub const NE: [f64; 4] = [0.3, 0.1 + 0.2, 1.0, 1.0 + f64::EPSILON];

/// Errors handed to `approximate_eq`: 0, exactly the two differences (the `<=` boundary), a value
/// between them and one above both.
pub const NE_ERRORS: [f64; 5] = [0.0, f64::EPSILON / 4.0, f64::EPSILON / 2.0, f64::EPSILON, 1e-15];

/// The `index`-th r x c matrix over the alphabet (base-4 digits of `index`, row-major).
pub fn ne_all(r: usize, c: usize, index: usize) -> M {
    M::new(r, c, |i, j| NE[(index >> (2 * (i * c + j))) & 3])
}

/// Pattern fill for shapes too large for `ne_all`: every row of >= 4 columns contains all four
/// values, the rotation `s` moves the row maximum 1 + eps through every residue.
pub fn ne_pattern(r: usize, c: usize, s: usize) -> M {
    M::new(r, c, |i, j| NE[(3 * i + j + s) % 4])
}

/// The other member of the value's nearly-equal pair.
pub fn twin(x: f64) -> f64 {
    let k = NE.iter().position(|v| v.to_bits() == x.to_bits()).expect("value of the nearly-equal alphabet");
    NE[k ^ 1]
}

/// `a` with the entries selected by `mask` (row-major bit positions) replaced by their twins.
pub fn twinned(a: &M, mask: usize) -> M {
    M { r: a.r, c: a.c, v: a.v.iter().enumerate().map(|(p, x)| if p < 64 && (mask >> p) & 1 == 1 { twin(*x) } else { *x }).collect() }
}

pub fn ne_unary_ops() -> Vec<Op> {
    [K::Unique, K::Max, K::Min, K::Argmax].iter().map(|k| Op::new(*k)).collect()
}

pub fn ne_binary_ops() -> Vec<Op> {
    let mut v = vec![Op::new(K::EqOp)];
    for e in NE_ERRORS {
        v.push(Op::new(K::ApproxEq).x(e));
    }
    v
}

pub fn ne_vec_unary_ops() -> Vec<Op> {
    vec![Op::new(K::VUnique), Op::new(K::VBasic)]
}

pub fn ne_vec_binary_ops() -> Vec<Op> {
    NE_ERRORS.iter().map(|e| Op::new(K::VApproxEq).x(*e)).collect()
}

/// Number of cells up to which EVERY matrix / vector over the alphabet is enumerated
/// (one-operand operations), and up to which every twin mask of every such matrix is the second operand.
pub fn ne_all_cells(thorough: bool) -> usize {
    if thorough {
        6
    } else {
        4
    }
}

pub fn ne_pair_cells(thorough: bool) -> usize {
    if thorough {
        4
    } else {
        3
    }
}

/// Order-preserving integer names of the alphabet (0.3 -> 0, 0.1+0.2 -> 1, 1 -> 2, 1+eps -> 3).
pub fn ne_rank(x: f64) -> Option<f64> {
    NE.iter().position(|v| v.to_bits() == x.to_bits()).map(|k| k as f64)
}

/// Class id (0, 1, 2) -> label, two assignments: the two members of a nearly-equal pair are the
/// first two classes.
pub const NE_LABELS: [[f64; 3]; 2] = [[NE[0], NE[1], NE[2]], [NE[2], NE[3], NE[0]]];
/// Regression targets over the alphabet.
pub const NE_TARGETS: [[f64; 5]; 3] = [[NE[0], NE[1], NE[2], NE[3], NE[0]], [NE[1], NE[0], NE[1], NE[0], NE[2]], [NE[3], NE[2], NE[2], NE[3], NE[1]]];
