//! C20 — all matrix backends give the same answers.
//!
//! E1, differential: one generic evaluator per operation family is instantiated at
//! `DenseMatrix<f64>`, `ndarray::Array2<f64>` and `nalgebra::DMatrix<f64>`; every operation instance
//! x operand shape(s) x value alphabet x operand layout is executed on all three and judged against
//! a plain row-major `Vec<f64>` reference model and against each other. E2: operation chains on the
//! three backends in lock-step. Decompositions and deterministic estimators on small data catalogues.

mod bk;
mod chain;
mod est;
mod judge;
mod long;
mod model;
mod ops;
mod vals;

use mc_core::{self as mc, json, Harness, Job, Plan, Tier, Value};
use model::{fill, Op, FILLS, M};
use std::cell::RefCell;
use std::collections::HashMap;
use std::rc::Rc;

struct C20;

thread_local! {
    static OPS: RefCell<HashMap<(u8, usize, usize, bool), Rc<Vec<Op>>>> = RefCell::new(HashMap::new());
}

fn ops_for(kind: u8, r: usize, c: usize, t: bool) -> Rc<Vec<Op>> {
    OPS.with(|m| {
        m.borrow_mut()
            .entry((kind, r, c, t))
            .or_insert_with(|| {
                Rc::new(match kind {
                    0 => ops::unary(r, c, t),
                    1 => ops::binary(),
                    2 => ops::vec_unary(c, t),
                    3 => ops::vec_binary(),
                    4 => long::unary_long(r, c),
                    _ => long::vec_long(c),
                })
            })
            .clone()
    })
}

impl Harness for C20 {
    fn id(&self) -> &'static str {
        "C20"
    }

    fn plan(&self, tier: Tier, seed: u64) -> Plan {
        let t = tier.is_thorough();
        let nmax = if t { 8 } else { 4 };
        let vmax = if t { 8 } else { 5 };
        let mut jobs = Vec::new();
        let mut shapes: Vec<(usize, usize)> = (1..=nmax).flat_map(|r| (1..=nmax).map(move |c| (r, c))).collect();
        shapes.sort_by_key(|(r, c)| (r * c, *r));
        for &(r, c) in &shapes {
            jobs.push(Job::new(format!("un-{}x{}", r, c), json!({"kind": "un", "r": r, "c": c, "t": t, "seed": seed})));
        }
        for n in 1..=vmax {
            jobs.push(Job::new(format!("vec-n{}", n), json!({"kind": "vec", "n": n, "t": t, "seed": seed})));
            jobs.push(Job::new(format!("vbin-n{}", n), json!({"kind": "vbin", "n": n, "nmax": vmax, "t": t, "seed": seed})));
        }
        // estimators and decompositions (before the long list of binary-operation jobs: the
        // termination probes of the hang-prone estimators should start early)
        for (e, (name, _, _)) in est::ESTS.iter().enumerate() {
            let firsts = match (e >= est::FIRST_DECOMPOSITION, t) {
                (true, false) => 3,
                (true, true) => 25,
                (false, false) => 6,
                (false, true) => 9,
            };
            // the slow iterative logistic regression is split further (by target pattern)
            let parts = if e == 4 { 3 } else { 1 };
            for f in 0..firsts {
                for part in 0..parts {
                    jobs.push(Job::new(format!("est-{}-first{}{}", name, f, if parts > 1 { format!("-part{}", part) } else { String::new() }), json!({"kind": "est", "e": e, "first": f, "part": part, "parts": parts, "t": t, "seed": seed})));
                }
            }
        }
        for &(r, c) in &shapes {
            for rb in 1..=nmax {
                jobs.push(Job::new(format!("bin-{}x{}-with-{}xN", r, c, rb), json!({"kind": "bin", "r": r, "c": c, "rb": rb, "nmax": nmax, "t": t, "seed": seed})));
            }
        }
        // Extension (round 2): long vectors and long rows / columns (`long.rs`)
        for &n in long::lengths(t) {
            jobs.push(Job::new(format!("Lv1-n{}", n), json!({"kind": "lvec", "n": n, "t": t, "seed": seed})));
            jobs.push(Job::new(format!("Lv2-n{}", n), json!({"kind": "lvbin", "n": n, "t": t, "seed": seed})));
            for (r, c) in long::shapes(n) {
                jobs.push(Job::new(format!("L1op-{}x{}", r, c), json!({"kind": "lun", "r": r, "c": c, "t": t, "seed": seed})));
            }
        }
        for &n in long::est_lengths(t) {
            for (i, (name, _, _)) in est::LONG_ESTS.iter().enumerate() {
                let e = est::LONG_BASE + i;
                for f in 0..long::n_patterns(t) {
                    let job = Job::new(format!("Lfeat-{}-n{}-first{}", name, n, f), json!({"kind": "lest", "e": e, "n": n, "first": f, "t": t, "seed": seed}));
                    // the SVC trainer's shuffles are answered by the explorer: default answer only
                    jobs.push(if e == est::E_SVC_LONG { job.with_dev_bound(0) } else { job });
                }
            }
        }
        for &n in long::lengths(t) {
            for (r, c) in long::shapes(n) {
                jobs.push(Job::new(format!("L2op-{}x{}", r, c), json!({"kind": "lbin", "r": r, "c": c, "n": n, "t": t, "seed": seed})));
            }
        }
        // Extension (round 7): the two value families of `vals.rs`. (1) off-centre values for the
        // statistics operations and the estimators that consume them; (2) nearly-equal values.
        let (vr, vc) = if t { (8, 6) } else { (4, 3) };
        let mut vshapes: Vec<(usize, usize)> = (1..=vr).flat_map(|r| (1..=vc).map(move |c| (r, c))).collect();
        vshapes.sort_by_key(|(r, c)| (r * c, *r));
        for &(r, c) in &vshapes {
            jobs.push(Job::new(format!("Voff1-{}x{}", r, c), json!({"kind": "voff1", "r": r, "c": c, "t": t, "seed": seed})));
        }
        for n in 1..=vmax {
            jobs.push(Job::new(format!("VoffV-n{}", n), json!({"kind": "voffv", "n": n, "t": t, "seed": seed})));
        }
        for &(e, cfgs) in OFFSET_ESTS.iter() {
            for f in 0..if t { 9 } else { 6 } {
                jobs.push(Job::new(format!("VoffE-{}-first{}", est::ESTS[e].0, f), json!({"kind": "est", "e": e, "first": f, "part": 0, "parts": 1, "t": t, "seed": seed, "off": OFFSET_EST, "cfgs": cfgs})));
            }
        }
        for &e in NE_ESTS.iter() {
            // the k-NN classifier rejects k = 1: only its configurations with k in {2, 3}
            let cfgs: Vec<usize> = (0..est::ESTS[e].1).filter(|c| e != 9 || c % 3 != 0).collect();
            for f in 0..if t { 9 } else { 6 } {
                jobs.push(Job::new(format!("VneE-{}-first{}", est::ESTS[e].0, f), json!({"kind": "est", "e": e, "first": f, "part": 0, "parts": 1, "t": t, "seed": seed, "ne": true, "cfgs": cfgs})));
            }
        }
        for &(r, c) in &shapes {
            jobs.push(Job::new(format!("Vne1-{}x{}", r, c), json!({"kind": "vne1", "r": r, "c": c, "t": t})));
            jobs.push(Job::new(format!("Vne2-{}x{}", r, c), json!({"kind": "vne2", "r": r, "c": c, "t": t})));
        }
        for n in 1..=vmax {
            jobs.push(Job::new(format!("VneV1-n{}", n), json!({"kind": "vnev1", "n": n, "t": t})));
            jobs.push(Job::new(format!("VneV2-n{}", n), json!({"kind": "vnev2", "n": n, "t": t})));
        }
        Plan {
            jobs,
            budget_s: if t { 2400 } else { 40 },
            case_deadline_ms: 20_000,
            floors: {
                let mut f = vec![
                    ("cases_in_domain", 20_000),
                    ("cases_shape_mismatch", 20_000),
                    ("mismatch_rejected_by_all_three", 20_000),
                    ("cases_with_transposed_layout_operand", 10_000),
                    ("chain_nonsquare_after_transpose", 300),
                    ("chain_reached_1x1", 1_000),
                    ("chain_reached_1xN", 2_000),
                    ("chain_reached_Nx1", 2_000),
                    ("cases_with_values_from_all_three_backends", 300_000),
                    ("estimator_cases_with_transposed_layout_input", 200_000),
                    ("estimator_runs_in_guard_process", 24),
                ];
                // every estimator / decomposition must have produced values (on the built-in backend) often
                for (name, _, _) in est::ESTS.iter() {
                    f.push((*name, if *name == "gaussian_nb" { 500 } else { 1_000 }));
                }
                // Extension (round 2): the long family must be in domain, reach products with a long
                // contracted dimension on transposed-layout operands, and every long estimator must
                // have produced values on all three backends
                f.extend([
                    ("long_vector_cases_in_domain", 10_000),
                    ("long_matrix_cases_in_domain", 20_000),
                    ("long_two_operand_cases_in_domain", 8_000),
                    ("long_products_with_inner_dimension_ge_15", 3_000),
                    ("long_cases_with_transposed_layout_operand", 20_000),
                    ("long_shape_mismatch_by_one", 10_000),
                    ("long_estimator_cases_with_values_from_all_three_backends", 100_000),
                    ("long_distance_cases_equal_to_the_textbook_value", 50_000),
                ]);
                for (name, _, _) in est::LONG_ESTS.iter() {
                    f.push((*name, 10_000));
                }
                // Extension (round 7): the value families must be in domain, reach the moment
                // operations at |offset| = 1e8, compare operand pairs that differ by <= eps, and
                // the estimators must have produced values on all three backends
                f.extend([
                    ("offset_statistic_cases_in_domain", 5_000),
                    ("offset_moment_cases_with_offset_1e8", 1_500),
                    ("offset_vector_cases_in_domain", 1_000),
                    ("offset_estimator_cases_with_values_from_all_three_backends", 10_000),
                    ("nearly_equal_matrix_cases_in_domain", 40_000),
                    ("nearly_equal_vector_cases_in_domain", 10_000),
                    ("nearly_equal_cases_with_both_members_of_a_pair", 20_000),
                    ("nearly_equal_operand_pairs_differing_by_at_most_epsilon", 10_000),
                    ("nearly_equal_label_cases_with_values", 50_000),
                ]);
                f
            },
            bounds: json!({
                "matrix_operations": format!("every BaseMatrix / MatrixStats / MatrixPreprocessing / HighOrderOperations method (all parameter instances: every slice range, every reshape target, every index list of length <= 2{}, every element position) x every shape 1<=r,c<={} x 4 value alphabets x 2 operand layouts; two-operand methods x every pair of shapes within the bound x 4 layout combinations (compatible and incompatible)", if t { " (3 for axes <= 4)" } else { "" }, nmax),
                "vector_operations": format!("every BaseVector method x every length 1..={} (pairs of lengths for two-operand methods) x 4 value alphabets x 3 vector sources (from_array, get_row of a transposed-layout matrix, to_row_vector of a column matrix)", vmax),
                "value_alphabets": FILLS,
                "norm_orders": "norm(p) of matrices and vectors for p in {1, 2, 3, 0.5, -1, +inf, -inf} (p = -1 on operands containing an exact zero gives 0 by IEEE arithmetic: inf^-1)",
                "layouts": bk::LAYOUTS,
                "chains_E2": format!("6 start shapes <= 2x3, 16 actions, every history of length <= {}", if t { 5 } else { 3 }),
                "estimators": format!("{} estimators x every data set of {} rows drawn (with repetition, ordered) from a {}-point lattice x 3-6 target patterns x every listed configuration x 2 input layouts; queries = the 3x3 lattice", est::FIRST_DECOMPOSITION, if t { 5 } else { 4 }, if t { 9 } else { 6 }),
                "decompositions": format!("LU, QR, SVD, EVD (general, symmetric on A+A^T), Cholesky (on A^T A + I) and their solvers on every 3x3 matrix over {} x 2 layouts", if t { "{0,1,-1,2,-2}" } else { "{0,1,-1}" }),
                "long_operands_round2": format!("lengths / long-dimension sizes N in {:?}: every BaseVector method (element updates at every position; take with every single index, the reversal, every second index, a repeat) x 4 value alphabets (position-coded, mixed-sign / all-negative / all-positive / small with ties) x 3 vector sources; two-vector methods with second lengths N, N-1, N+1, 1 x 9 source pairs; one-operand matrix methods on 1xN, Nx1, 2xN, Nx2 (every reshape factorisation, element updates / slices / takes at first, middle, last of the long axis) x 5 alphabets (the 4 + all-negative with magnitudes 401.. ) x 2 layouts; every two-operand method on each of these with every second operand in {{1xN, Nx1, 2xN, Nx2, 1x(N+1), (N+1)x1, 2x(N-1), (N-1)x2, 1x1, 1x2, 2x1, 2x2}} x 4 alphabets x 4 layout combinations", long::lengths(t)),
                "long_feature_data_round2": format!("N feature columns, N in {:?}: linear-kernel SVR (predictions), linear-kernel SVC (decision values and labels; trainer visiting order = default answer to every draw), k-NN classifier (k in {{1,2}} x linear search / cover tree), and Euclidian / Manhattan / Minkowski(1,2,3) / Hamming distances + linear / RBF / polynomial / sigmoid kernels on every (data row, query row) pair, on EVERY ordered data set of 4 rows drawn with repetition from {} row patterns x 3-4 target patterns x 2 input layouts; queries = the patterns, the zero row, the all-ones row and 3 unit vectors", long::est_lengths(t), long::n_patterns(t)),
                "off_centre_values_round7": format!("value alphabet 'offset' = offset + code (code = each of the 4 alphabets): offsets {:?} for cov, column_mean, mean / var / std / scale_mut on both axes (scale_mut with means offset + 1, 2, ..), offsets +-1e6 also for sum, max, min, argmax, unique, norm2, norm p in {{1,2,3,+inf,-inf}}, softmax_mut, on every shape 1<=r<={}, 1<=c<={} x 2 layouts x 3 backends; vectors of every length 1..={} x 3 sources: mean/var/std at all 4 offsets, sum, norm2, norms, unique at +-1e6. Reference = the exact statistic (computed on the codes); tolerance relative to the spread s = max - min of the operand: 1e-9 s^2 (cov, var), 1e-9 s (std), 64 eps |offset| (means), 1e-12 s (scale_mut); same verdict rule. Estimators on x = 1e6 + lattice (queries 1e6 + the 3x3 lattice), every data set of the estimator family (standard layout): ridge (Cholesky, SVD) / Lasso (alpha 0.1, 1) / elastic net with normalize, Gaussian NB, PCA x4, Mahalanobis", vals::OFFSETS, vr, vc, vmax),
                "nearly_equal_values_round7": format!("value alphabet {:?}: unique, max, min, argmax on EVERY matrix over the alphabet with <= {} cells (4 rotations of a pattern containing all four values per row for the larger shapes <= {}x{}) x 2 layouts; == and approximate_eq with errors {:?} on operand pairs (a, b): every pair for <= 2 cells, every a x every subset of entries replaced by their nearly-equal twin for <= {} cells, 4 patterns x (no / one (every position) / all entries twinned) for larger shapes, x 4 layout combinations; the same for vectors of length <= {} (unique, to_vec, approximate_eq; 3 sources each); as class labels (2 assignments of {{0.3, 0.1+0.2, 1}} / {{1, 1+eps, 0.3}} to the classes of 4 label patterns) of the 4 naive Bayes, k-NN classifier x8 (k in {{2,3}}; k = 1 is rejected by the library), decision tree classifier x3 and as targets (3 patterns) of k-NN regressor x12 and tree regressor, on every data set of the estimator family (standard layout); classifiers additionally against the same fit with the classes renamed 0..3 on the same backend", vals::NE, vals::ne_all_cells(t), nmax, nmax, vals::NE_ERRORS, vals::ne_pair_cells(t), vmax),
                "termination": "per-case deadline 20 s (driver); Lasso / ElasticNet on the two bindings run in a child process with a deadline of 0.25 s CPU time (10 s wall) per fit",
                "seed": format!("VERIF_SEED {} selects the multiplier applied to the alphabets (8 fixed multipliers, 0 = plain)", seed),
            }),
        }
    }

    fn run(&self, job: &Job) {
        let t = job.b("t");
        let seed = job.params["seed"].as_u64().unwrap_or(0);
        match job.kind() {
            "un" => {
                let (r, c) = (job.u("r"), job.u("c"));
                let f = mc::choose(FILLS.len());
                // layouts 2 and 3: backend-native unusual memory (ndarray: cut out of a larger table,
                // inverted axis); the other backends use the plain construction there
                let la = mc::choose(4);
                if la >= 2 {
                    mc::count("native_unusual_memory_operands");
                }
                let ops = ops_for(0, r, c, t);
                let op = &ops[mc::choose(ops.len())];
                judge::case(op, &fill(f, r, c, 0, seed), la, None);
            }
            "bin" => {
                let (r, c, rb) = (job.u("r"), job.u("c"), job.u("rb"));
                let cb = 1 + mc::choose(job.u("nmax"));
                let f = mc::choose(FILLS.len());
                let la = mc::choose(2);
                let lb = mc::choose(2);
                let ops = ops_for(1, 0, 0, t);
                let op = &ops[mc::choose(ops.len())];
                judge::case(op, &fill(f, r, c, 0, seed), la, Some((&fill(f, rb, cb, 1, seed), lb)));
            }
            "vec" => {
                let n = job.u("n");
                let f = mc::choose(FILLS.len());
                let src = mc::choose(4);
                let ops = ops_for(2, 1, n, t);
                let op = &ops[mc::choose(ops.len())];
                judge::case(op, &fill(f, 1, n, 0, seed), src, None);
            }
            "vbin" => {
                let n = job.u("n");
                let nb = 1 + mc::choose(job.u("nmax"));
                let f = mc::choose(FILLS.len());
                let sa = mc::choose(3);
                let sb = mc::choose(3);
                let ops = ops_for(3, 0, 0, t);
                let op = &ops[mc::choose(ops.len())];
                judge::case(op, &fill(f, 1, n, 0, seed), sa, Some((&fill(f, 1, nb, 1, seed), sb)));
            }
            "est" => est_case(job, t, seed),
            "lun" => {
                let (r, c) = (job.u("r"), job.u("c"));
                let f = mc::choose(long::LONG_FILLS.len());
                let la = mc::choose(2);
                let ops = ops_for(4, r, c, t);
                let op = &ops[mc::choose(ops.len())];
                if judge::case(op, &long::fill_long(f, r, c, 0, seed), la, None) {
                    mc::count("long_matrix_cases_in_domain");
                    if la > 0 {
                        mc::count("long_cases_with_transposed_layout_operand");
                    }
                }
            }
            "lbin" => {
                let (r, c) = (job.u("r"), job.u("c"));
                let partners = long::partners(job.u("n"));
                let (rb, cb) = partners[mc::choose(partners.len())];
                let f = mc::choose(FILLS.len());
                let la = mc::choose(2);
                let lb = mc::choose(2);
                let ops = ops_for(1, 0, 0, t);
                let op = &ops[mc::choose(ops.len())];
                let a = long::fill_long(f, r, c, 0, seed);
                if judge::case(op, &a, la, Some((&long::fill_long(f, rb, cb, 1, seed), lb))) {
                    mc::count("long_two_operand_cases_in_domain");
                    if long::inner_dimension(op, &a) >= 15 {
                        mc::count("long_products_with_inner_dimension_ge_15");
                    }
                    if la + lb > 0 {
                        mc::count("long_cases_with_transposed_layout_operand");
                    }
                } else if rb.max(cb) > 2 && rb.max(cb) != r.max(c) {
                    mc::count("long_shape_mismatch_by_one");
                }
            }
            "lvec" => {
                let n = job.u("n");
                let f = mc::choose(FILLS.len());
                let src = mc::choose(3);
                let ops = ops_for(5, 1, n, t);
                let op = &ops[mc::choose(ops.len())];
                if judge::case(op, &long::fill_long(f, 1, n, 0, seed), src, None) {
                    mc::count("long_vector_cases_in_domain");
                }
            }
            "lvbin" => {
                let n = job.u("n");
                let nb = mc::pick(&long::vec_partners(n));
                let f = mc::choose(FILLS.len());
                let sa = mc::choose(3);
                let sb = mc::choose(3);
                let ops = ops_for(3, 0, 0, t);
                let op = &ops[mc::choose(ops.len())];
                let a = long::fill_long(f, 1, n, 0, seed);
                if judge::case(op, &a, sa, Some((&long::fill_long(f, 1, nb, 1, seed), sb))) {
                    mc::count("long_vector_cases_in_domain");
                    if long::inner_dimension(op, &a) >= 15 {
                        mc::count("long_products_with_inner_dimension_ge_15");
                    }
                }
            }
            "lest" => long_est_case(job, t, seed),
            "voff1" => {
                let (r, c) = (job.u("r"), job.u("c"));
                let off = mc::pick(&vals::OFFSETS);
                let f = mc::choose(FILLS.len());
                let la = mc::choose(2);
                let ops = vals::stat_ops(off);
                let op = &ops[mc::choose(ops.len())];
                let a = vals::offset_fill(f, r, c, off, seed);
                let st = vals::Stat { off, spread: model::spread(&a.v) };
                if judge::case_with(op, &a, la, None, Some(&st)) {
                    mc::count("offset_statistic_cases_in_domain");
                    if off.abs() > 1e7 {
                        mc::count("offset_moment_cases_with_offset_1e8");
                    }
                }
            }
            "voffv" => {
                let n = job.u("n");
                let off = mc::pick(&vals::OFFSETS);
                let f = mc::choose(FILLS.len());
                let src = mc::choose(3);
                let ops = vals::vstat_ops(off);
                let op = &ops[mc::choose(ops.len())];
                let a = vals::offset_fill(f, 1, n, off, seed);
                let st = vals::Stat { off, spread: model::spread(&a.v) };
                if judge::case_with(op, &a, src, None, Some(&st)) {
                    mc::count("offset_vector_cases_in_domain");
                    if off.abs() > 1e7 {
                        mc::count("offset_moment_cases_with_offset_1e8");
                    }
                }
            }
            "vne1" | "vnev1" => {
                let vec = job.kind() == "vnev1";
                let (r, c) = if vec { (1, job.u("n")) } else { (job.u("r"), job.u("c")) };
                let a = ne_operand(r, c, vals::ne_all_cells(t));
                let la = mc::choose(if vec { 3 } else { 2 });
                let ops = if vec { vals::ne_vec_unary_ops() } else { vals::ne_unary_ops() };
                let op = &ops[mc::choose(ops.len())];
                if judge::case(op, &a, la, None) {
                    ne_counts(vec, &a, None);
                }
            }
            "vne2" | "vnev2" => {
                let vec = job.kind() == "vnev2";
                let (r, c) = if vec { (1, job.u("n")) } else { (job.u("r"), job.u("c")) };
                let cells = r * c;
                let a = ne_operand(r, c, vals::ne_pair_cells(t));
                let b = if cells <= 2 {
                    // every pair of operands
                    vals::ne_all(r, c, mc::choose(1 << (2 * cells)))
                } else if cells <= vals::ne_pair_cells(t) {
                    // every subset of the entries replaced by their nearly-equal twins
                    vals::twinned(&a, mc::choose(1 << cells))
                } else {
                    // no entry, one entry (every position), every entry
                    match mc::choose(cells + 2) {
                        0 => a.clone(),
                        k if k <= cells => vals::twinned(&a, 1 << (k - 1)),
                        _ => M { r, c, v: a.v.iter().map(|x| vals::twin(*x)).collect() },
                    }
                };
                let nl = if vec { 3 } else { 2 };
                let la = mc::choose(nl);
                let lb = mc::choose(nl);
                let ops = if vec { vals::ne_vec_binary_ops() } else { vals::ne_binary_ops() };
                let op = &ops[mc::choose(ops.len())];
                if judge::case(op, &a, la, Some((&b, lb))) {
                    ne_counts(vec, &a, Some(&b));
                }
            }
            "chain" => {
                let acts: Vec<u8> = job.params["acts"].as_array().map(|a| a.iter().map(|x| x.as_u64().unwrap_or(0) as u8).collect()).unwrap_or_default();
                chain::run_replay(job.u("init"), &acts);
            }
            other => panic!("unknown job kind {}", other),
        }
    }

    fn cleanup(&self) {
        mc_sc::release_rng();
    }

    fn extra(&self, tier: Tier, _seed: u64) -> Vec<mc::ExtraResult> {
        let depth = if tier.is_thorough() { 5 } else { 3 };
        vec![mc::bfs::search("operation chains on the three backends in lock-step", &chain::Chains, depth, 6_000_000)]
    }

    fn rule(&self) -> String {
        "one execution = one operation instance (or one estimator / decomposition configuration) on one fully determined operand tuple (shape(s), value alphabet, layout(s); data set, targets, layout) run on all three backends; non-trivial = the operands are inside the operation's domain (estimators: the built-in backend returned values); distinct = distinct digest of the three backends' returned values / panics; E2: one state = one operation history applied to a real object of each backend".into()
    }

    fn assumptions(&self) -> Vec<String> {
        vec![
            "operands are brought into each backend through zeros + set (+ transpose); that this reproduces the logical content is checked in every case through shape + get".into(),
            "no unowned RNG is involved in any explored path (BaseMatrix::rand and k-means are excluded; the forests use their seeded StdRng, identical on all backends; the shuffles of the SVC trainer in the long-feature family go through the verif-hooks seam and get the default answer on every backend - the schedules themselves are C10's matter)".into(),
            "Lasso / ElasticNet fits on the two bindings run in a child process of the same binary under a CPU-time deadline; a fit that exceeds it is reported as not terminating".into(),
            "HashMap iteration order only influences the last ulp of entropy-based metrics; observation digests of estimators are rounded to 9 significant digits".into(),
        ]
    }

    fn engine(&self) -> &'static str {
        "E1 stateless choice-tree exploration of the real code on three backends (differential + reference model) and E2 explicit-state search over operation histories"
    }
}

/// Off-centre estimator family: (estimator, configurations) that consume column means / standard
/// deviations / covariances - ridge, Lasso, elastic net with `normalize`, Gaussian NB, PCA, Mahalanobis.
const OFFSET_ESTS: [(usize, &[usize]); 6] = [(1, &[2, 3]), (2, &[2, 3]), (3, &[1]), (5, &[0]), (16, &[0, 1, 2, 3]), (20, &[0])];
const OFFSET_EST: f64 = 1e6;
/// Nearly-equal labels / targets: 4 naive Bayes, k-NN classifier / regressor, tree classifier / regressor.
const NE_ESTS: [usize; 8] = [5, 6, 7, 8, 9, 10, 11, 12];
/// Label patterns of the nearly-equal family (indices into `Y_CLS`: two 2-class, two 3-class).
const NE_PATTERNS: [usize; 4] = [0, 1, 4, 5];

/// First operand of a nearly-equal case: every matrix over the alphabet up to `all_cells` cells,
/// 4 rotations of the pattern beyond.
fn ne_operand(r: usize, c: usize, all_cells: usize) -> M {
    if r * c <= all_cells {
        vals::ne_all(r, c, mc::choose(1 << (2 * r * c)))
    } else {
        vals::ne_pattern(r, c, mc::choose(4))
    }
}

fn ne_counts(vec: bool, a: &M, b: Option<&M>) {
    mc::count(if vec { "nearly_equal_vector_cases_in_domain" } else { "nearly_equal_matrix_cases_in_domain" });
    if model::has_near_pair(&[&a.v[..], b.map(|m| &m.v[..]).unwrap_or(&[])].concat()) {
        mc::count("nearly_equal_cases_with_both_members_of_a_pair");
    }
    if b.map(|m| model::differ_by_at_most_eps(a, m)).unwrap_or(false) {
        mc::count("nearly_equal_operand_pairs_differing_by_at_most_epsilon");
    }
}

const LATTICE: [(f64, f64); 9] = [(0.0, 0.0), (1.0, 0.0), (0.0, 1.0), (1.0, 1.0), (2.0, 1.0), (1.0, 2.0), (2.0, 0.0), (0.0, 2.0), (2.0, 2.0)];
const SIGMA5: [f64; 5] = [0.0, 1.0, -1.0, 2.0, -2.0];
const Y_REG: [[f64; 5]; 3] = [[1.0, 2.0, 3.0, 5.0, 4.0], [0.0, -1.0, 4.0, 2.0, -2.0], [2.0, 2.0, -3.0, 1.0, 2.0]];
const Y_CLS: [[f64; 5]; 6] = [[0.0, 1.0, 0.0, 1.0, 1.0], [0.0, 0.0, 1.0, 1.0, 0.0], [1.0, 0.0, 0.0, 1.0, 0.0], [0.0, 1.0, 1.0, 1.0, 0.0], [0.0, 1.0, 2.0, 1.0, 2.0], [2.0, 0.0, 1.0, 0.0, 1.0]];
const SIGMA3: [f64; 3] = [0.0, 1.0, -1.0];

/// One estimator / decomposition case: the data are drawn from the job's finite catalogue.
fn est_case(job: &Job, t: bool, seed: u64) {
    let e = job.u("e");
    let first = job.u("first");
    let (_, ncfg, target) = est::ESTS[e];
    let scale = [1.0, 2.0, 0.5, 4.0, 0.25, 8.0, 2.0, 0.5][(seed % 8) as usize];
    let off = job.params["off"].as_f64().unwrap_or(0.0);
    let ne = job.params["ne"].as_bool().unwrap_or(false);
    let data = if e >= est::FIRST_DECOMPOSITION {
        // every 3x3 matrix over {0,1,-1} (first entry fixed by the job); made symmetric / SPD where the decomposition needs it
        // (thorough: over {0,1,-1,2,-2}, first two entries fixed by the job)
        let mut v = if t { vec![SIGMA5[first / 5], SIGMA5[first % 5]] } else { vec![SIGMA3[first]] };
        while v.len() < 9 {
            v.push(if t { mc::pick(&SIGMA5) } else { mc::pick(&SIGMA3) });
        }
        let a = model::M { r: 3, c: 3, v: v.iter().map(|x| x * scale).collect() };
        let x = match e {
            26 => a.zip(&a.tr(), |p, q| p + q),
            27 => a.tr().mul(&a).zip(&model::M::new(3, 3, |i, j| if i == j { 1.0 } else { 0.0 }), |p, q| p + q),
            _ => a,
        };
        est::Data { x, y: vec![0.0; 3], q: model::M::new(1, 3, |_, _| 0.0), label: String::new() }
    } else {
        // n rows from the 6-point lattice (first row fixed by the job), targets from the pattern list
        let n = if t { 5 } else { 4 };
        let lat = &LATTICE[..if t { 9 } else { 6 }];
        let mut rows = vec![lat[first]];
        for i in 1..n {
            // rotated so that the first explored data set of every job has distinct rows
            rows.push(lat[(mc::choose(lat.len()) + first + i + 1) % lat.len()]);
        }
        let y: Vec<f64> = match (target, ne) {
            // nearly-equal value family: targets / class labels over {0.3, 0.1+0.2, 1, 1+eps}
            (0, true) => vals::NE_TARGETS[mc::choose(vals::NE_TARGETS.len())][..n].to_vec(),
            (1 | 2, true) => {
                let pat = &Y_CLS[mc::pick(&NE_PATTERNS)];
                let names = &vals::NE_LABELS[mc::choose(vals::NE_LABELS.len())];
                pat[..n].iter().map(|c| names[*c as usize]).collect()
            }
            (0, _) => Y_REG[mc::choose(Y_REG.len())][..n].to_vec(),
            (1, _) => Y_CLS[mc::choose(4)][..n].to_vec(),
            (2, _) => {
                let (part, parts) = (job.u("part"), job.u("parts").max(1));
                Y_CLS[part + parts * mc::choose(Y_CLS.len() / parts)][..n].to_vec()
            }
            _ => vec![0.0; n],
        };
        // integer-valued (count / category) inputs are not scaled
        let sc = if matches!(e, 6 | 7 | 8 | 18) { 1.0 } else { scale };
        // off-centre value family: x = off + lattice, queries = off + the 3x3 lattice (`off` is 0 otherwise)
        est::Data { x: model::M::new(n, 2, |i, j| off + if j == 0 { rows[i].0 * sc } else { rows[i].1 * sc }), y, q: model::M::new(9, 2, |i, j| off + (if j == 0 { i / 3 } else { i % 3 }) as f64 * sc), label: String::new() }
    };
    // the quick tier runs the (slow, iterative) logistic regression with one regularisation only
    let cfg = match job.params["cfgs"].as_array() {
        Some(list) => list[mc::choose(list.len())].as_u64().unwrap_or(0) as usize,
        None => mc::choose(if !t && e == 4 { 1 } else { ncfg }),
    };
    // the estimator jobs of the two value families use the standard layout only (layouts are the old family's matter)
    let lx = if ne || off != 0.0 { 0 } else { mc::choose(2) };
    est::run_case(&job.name, e, cfg, &data, lx);
}

/// One case of the long-feature family: 4 rows drawn (ordered, with repetition; the first fixed by
/// the job) from the row patterns of `long::pattern` with `n` feature columns.
fn long_est_case(job: &Job, t: bool, seed: u64) {
    let (e, n, first) = (job.u("e"), job.u("n"), job.u("first"));
    let (_, ncfg, target) = est::entry(e);
    let npat = long::n_patterns(t);
    let scale = [1.0, 2.0, 0.5, 4.0, 0.25, 8.0, 2.0, 0.5][(seed % 8) as usize];
    let mut rows = vec![first];
    for i in 1..4 {
        // rotated so that the first explored data set of every job has distinct rows
        rows.push((mc::choose(npat) + first + i) % npat);
    }
    let y: Vec<f64> = match target {
        0 => Y_REG[mc::choose(Y_REG.len())][..4].to_vec(),
        1 => Y_CLS[mc::choose(4)][..4].to_vec(),
        _ => vec![0.0; 4],
    };
    let x = model::M::new(4, n, |i, j| long::pattern(rows[i], n, j) * scale);
    let cfg = mc::choose(ncfg);
    let lx = mc::choose(2);
    let label = format!("4x{} with rows = patterns {:?} of long::pattern times {} (queries: the {} patterns, zero, ones, unit vectors 0, {}, {})", n, rows, scale, npat, n / 2, n - 1);
    est::run_case(&job.name, e, cfg, &est::Data { x, y, q: long::queries(n, npat, scale), label }, lx);
}

fn main() {
    let args: Vec<String> = std::env::args().collect();
    if args.len() >= 2 && args[1] == est::PROBE_FLAG {
        est::probe_main();
    }
    mc::main(C20)
}

#[allow(dead_code)]
fn _v(_: Value) {}
