//! C17 — distance functions are metrics and equal their closed forms.
//!
//! E1 (stateless choice-tree exploration) over complete finite spaces of vectors: every pair and
//! every triple of vectors of a lattice alphabet^len (lengths 1..5), of a catalogue of structured
//! vectors for every length 1..30, each at several magnitudes and for f64 and f32; every metric
//! (Euclidean, Manhattan, Minkowski p = 1..8, Hamming over float and integer elements, Mahalanobis)
//! is called through `Distances::*` / `Distance::distance` on the real library code. Mahalanobis is
//! additionally built from every small integer SPD covariance matrix, from structured SPD families
//! up to order 12, and from every full-rank lattice data set of up to 5 rows — also rescaled by
//! powers of two (round 2) and shifted by a large common offset vector (round 3); and (round 4) from
//! the structured SPD families at orders up to 30 with variances down to 2^-40 and from 8- / 12-column
//! data sets of small spread, where the determinant leaves the range of the type; and (round 5) from
//! data sets with 17..113 (thorough: up to 1039) rows, and on vectors with one large and one tiny
//! coordinate that differ only in the tiny one.
//!
//! The oracle is a double-double evaluation of the closed forms (module `dd`), the metric axioms,
//! the coincidence clauses and the rejection of mismatched lengths.

mod cat;
mod dd;

use mc_core::{self as mc, json, Harness, Job, Plan, Tier};
use smartcore::linalg::naive::dense_matrix::DenseMatrix;
use smartcore::math::distance::euclidian::Euclidian;
use smartcore::math::distance::hamming::Hamming;
use smartcore::math::distance::mahalanobis::Mahalanobis;
use smartcore::math::distance::manhattan::Manhattan;
use smartcore::math::distance::minkowski::Minkowski;
use smartcore::math::distance::{Distance, Distances};
use smartcore::math::num::RealNumber;
use std::any::Any;
use std::cell::RefCell;
use std::rc::Rc;

struct C17;

// ------------------------------------------------------------------------------------------------
// the two floating-point types

trait Fl: RealNumber + 'static {
    const NAME: &'static str;
    const EPS: f64;
    /// 2^EMAX overflows
    const EMAX: i32;
    /// 2^EMIN is the smallest positive normal number
    const EMIN: i32;
    fn of(v: f64) -> Self;
    fn f(self) -> f64;
}

impl Fl for f64 {
    const NAME: &'static str = "f64";
    const EPS: f64 = f64::EPSILON;
    const EMAX: i32 = 1024;
    const EMIN: i32 = -1022;
    fn of(v: f64) -> f64 {
        v
    }
    fn f(self) -> f64 {
        self
    }
}

impl Fl for f32 {
    const NAME: &'static str = "f32";
    const EPS: f64 = f32::EPSILON as f64;
    const EMAX: i32 = 128;
    const EMIN: i32 = -126;
    fn of(v: f64) -> f32 {
        v as f32
    }
    fn f(self) -> f64 {
        self as f64
    }
}

// ------------------------------------------------------------------------------------------------
// metrics of the "lp" executions

#[derive(Clone, Copy, PartialEq, Debug)]
enum Met {
    Eu,
    Ma,
    Mi(u16),
    /// Hamming over the float elements themselves
    HaF,
    /// Hamming over i64 codes of the elements (equal codes <=> equal values)
    HaI,
    /// Mahalanobis with the identity covariance of matching order
    MhI,
}

const METS: [Met; 13] = [Met::Eu, Met::Ma, Met::Mi(1), Met::Mi(2), Met::Mi(3), Met::Mi(4), Met::Mi(5), Met::Mi(6), Met::Mi(7), Met::Mi(8), Met::HaF, Met::HaI, Met::MhI];
const I_EU: usize = 0;
const I_MA: usize = 1;
const I_MI1: usize = 2;
const I_MI2: usize = 3;
const I_MHI: usize = 12;

impl Met {
    fn comp(self) -> &'static str {
        match self {
            Met::Eu => "euclidian",
            Met::Ma => "manhattan",
            Met::Mi(_) => "minkowski",
            Met::HaF | Met::HaI => "hamming",
            Met::MhI => "mahalanobis",
        }
    }
    fn label(self) -> String {
        match self {
            Met::Eu => "Euclidian".into(),
            Met::Ma => "Manhattan".into(),
            Met::Mi(p) => format!("Minkowski(p={})", p),
            Met::HaF => "Hamming<float elements>".into(),
            Met::HaI => "Hamming<i64 elements>".into(),
            Met::MhI => "Mahalanobis(identity covariance)".into(),
        }
    }
    /// exponent of the powers the straightforward evaluation forms (None: no powers)
    fn power(self) -> Option<i32> {
        match self {
            Met::Eu | Met::MhI => Some(2),
            Met::Mi(p) if p >= 2 => Some(p as i32),
            _ => None,
        }
    }
    fn over_name(self) -> &'static str {
        match self {
            Met::Mi(_) => "powers-overflow",
            _ => "squares-overflow",
        }
    }
    fn under_name(self) -> &'static str {
        match self {
            Met::Mi(_) => "powers-underflow",
            _ => "squares-underflow",
        }
    }
    /// Input class "an intermediate power leaves the range of T although the distance itself is
    /// comfortably representable", decided from the input alone: `l2` = floor(log2(max |x_i-y_i|)).
    fn range_class<T: Fl>(self, n: usize, l2: i32) -> Option<&'static str> {
        let p = self.power()?;
        let logn = (n as f64).log2().ceil() as i32;
        if (l2 + 1) * p + logn >= T::EMAX {
            Some(self.over_name())
        } else if l2 * p < T::EMIN {
            Some(self.under_name())
        } else {
            None
        }
    }
    /// tolerance of the closed-form comparison in units of eps_T * |reference|
    fn tol_units(self, n: usize, refv: f64) -> f64 {
        let n = n as f64;
        match self {
            Met::Eu | Met::Ma => 8.0 + n,
            // the exponent 1/p is rounded: relative effect |ln d| * eps/2 on the root
            Met::Mi(_) => 8.0 + n + if refv > 0.0 && refv.is_finite() { refv.ln().abs() } else { 0.0 },
            Met::HaF | Met::HaI => 2.0,
            Met::MhI => maha_tol_units(n as usize, 1.0),
        }
    }
}

fn maha_tol_units(n: usize, cond: f64) -> f64 {
    (8.0 + 2.0 * (n * n) as f64) * cond
}

/// 2-norm condition number of a matrix given at any overall scale: the matrix is first multiplied by
/// the power of two that brings its largest entry into [1,2) (exact, and the condition number is
/// invariant under it), so that the Jacobi sweeps of `oracle::cond2` never see squares of 2^±120.
fn cond2_any_scale(a: &cat::Mat) -> f64 {
    let amax = a.iter().flatten().fold(0.0f64, |m, v| m.max(v.abs()));
    if !(amax > 0.0 && amax.is_finite()) {
        return f64::INFINITY;
    }
    let e = -dd::ilog2(amax);
    let scaled: cat::Mat = a.iter().map(|r| r.iter().map(|v| dd::ldexp(*v, e)).collect()).collect();
    mc::oracle::cond2(&scaled)
}

// ------------------------------------------------------------------------------------------------
// per-job caches (pure functions of the job; workers run one job after the other)

thread_local! {
    static CACHE: RefCell<Option<(String, Rc<dyn Any>)>> = RefCell::new(None);
}

fn cached<V: 'static>(key: &str, build: impl FnOnce() -> V) -> Rc<V> {
    let hit = CACHE.with(|c| match &*c.borrow() {
        Some((k, v)) if k == key => v.clone().downcast::<V>().ok(),
        _ => None,
    });
    if let Some(v) = hit {
        return v;
    }
    let v = Rc::new(build());
    CACHE.with(|c| *c.borrow_mut() = Some((key.to_string(), v.clone() as Rc<dyn Any>)));
    v
}

/// A catalogue of vectors in type T.
struct Cat<T: Fl> {
    names: Vec<String>,
    /// the exact values of the typed vectors, widened to f64
    vals: Vec<Vec<f64>>,
    typed: Vec<Vec<T>>,
    /// integer codes: equal code <=> equal value
    codes: Vec<Vec<i64>>,
    n: usize,
    /// Library distances already observed in this job, [a][b][metric], filled lazily by real
    /// library calls (the distances are pure functions of their arguments, so an entry is what any
    /// later call on the same pair returns; a replay of a single case simply refills what it needs).
    table: RefCell<Vec<f64>>,
}

/// "not computed yet" marker of the distance table (a NaN payload no computation produces)
const UNSET: u64 = 0x7ff8_dead_beef_0001;

fn build_cat<T: Fl>(vs: Vec<(String, Vec<f64>)>, scale: f64) -> Cat<T> {
    let n = vs.first().map(|v| v.1.len()).unwrap_or(0);
    let typed: Vec<Vec<T>> = vs.iter().map(|(_, v)| v.iter().map(|x| T::of(x * scale)).collect()).collect();
    let vals: Vec<Vec<f64>> = typed.iter().map(|v| v.iter().map(|x| x.f()).collect()).collect();
    let codes = vals.iter().map(|v| v.iter().map(|x| (x + 0.0).to_bits() as i64).collect()).collect();
    Cat { names: vs.into_iter().map(|v| v.0).collect(), vals, typed, codes, n, table: RefCell::new(Vec::new()) }
}

fn scale_of(job: &Job) -> f64 {
    let s10 = match job.params["sc10"].as_i64().unwrap_or(0) {
        0 => 1.0,
        6 => 1e6,
        -6 => 1e-6,
        3 => 1e3,
        -3 => 1e-3,
        other => panic!("unsupported decimal scale exponent {}", other),
    };
    dd::ldexp(s10, job.params["sc2"].as_i64().unwrap_or(0) as i32)
}

fn scale_text(job: &Job) -> String {
    format!("1e{} * 2^{}", job.params["sc10"].as_i64().unwrap_or(0), job.params["sc2"].as_i64().unwrap_or(0))
}

fn lp_catalogue<T: Fl>(job: &Job) -> Cat<T> {
    let scale = scale_of(job);
    let vs: Vec<(String, Vec<f64>)> = match job.s("src") {
        "lattice" => {
            let (a, b) = cat::perturbation(job.params["seed"].as_u64().unwrap_or(0));
            cat::lattice(cat::alphabet(job.s("alpha")), job.u("len")).into_iter().map(|v| (String::new(), v.iter().map(|x| a * x + b).collect())).collect()
        }
        "structured" => cat::structured(job.u("len"), job.b("full")),
        // round 5: one large and one tiny coordinate per vector (the values depend on the type)
        "wide" => cat::wide(T::NAME, job.u("len"), job.b("full")),
        other => panic!("unknown vector source {}", other),
    };
    build_cat::<T>(vs, scale)
}

// ------------------------------------------------------------------------------------------------
// calling the library

fn eval<T: Fl>(m: Met, mh: Option<&Mahalanobis<T, DenseMatrix<T>>>, c: &Cat<T>, a: usize, b: usize) -> Result<f64, mc::PanicInfo> {
    mc::guard(|| match m {
        Met::Eu => Distances::euclidian().distance(&c.typed[a], &c.typed[b]).f(),
        Met::Ma => Distances::manhattan().distance(&c.typed[a], &c.typed[b]).f(),
        Met::Mi(p) => Distances::minkowski(p).distance(&c.typed[a], &c.typed[b]).f(),
        Met::HaF => <Hamming as Distance<Vec<T>, T>>::distance(&Distances::hamming(), &c.typed[a], &c.typed[b]).f(),
        Met::HaI => <Hamming as Distance<Vec<i64>, T>>::distance(&Distances::hamming(), &c.codes[a], &c.codes[b]).f(),
        Met::MhI => mh.expect("identity Mahalanobis built").distance(&c.typed[a], &c.typed[b]).f(),
    })
}

/// All 13 library distances of the ordered pair (a, b), through the job's table.
fn table_row<T: Fl>(mh: Option<&Mahalanobis<T, DenseMatrix<T>>>, c: &Cat<T>, a: usize, b: usize) -> [f64; 13] {
    let big = c.typed.len();
    let at = (a * big + b) * METS.len();
    {
        let mut t = c.table.borrow_mut();
        if t.is_empty() {
            t.resize(big * big * METS.len(), f64::from_bits(UNSET));
        }
        if t[at].to_bits() != UNSET {
            let mut r = [0.0; 13];
            r.copy_from_slice(&t[at..at + 13]);
            return r;
        }
    }
    let mut r = [f64::NAN; 13];
    for (mi, m) in METS.iter().enumerate() {
        if *m == Met::MhI && mh.is_none() {
            continue;
        }
        // a panic is reported by the execution whose pair this is; here it only leaves a NaN
        r[mi] = eval(*m, mh, c, a, b).unwrap_or(f64::NAN);
    }
    c.table.borrow_mut()[at..at + 13].copy_from_slice(&r);
    r
}

fn identity_maha<T: Fl>(n: usize) -> Result<Mahalanobis<T, DenseMatrix<T>>, mc::PanicInfo> {
    mc::guard(|| {
        let id: DenseMatrix<T> = mc_sc::dm::<T>(&mc::oracle::eye(n));
        Mahalanobis::new_from_covariance(&id)
    })
}

// ------------------------------------------------------------------------------------------------
// judging

/// counters of how much of the tolerance the unchanged library uses (calibration headroom)
fn headroom(comp: &'static str, ratio: f64) {
    let name = match (comp, ratio > 0.5, ratio > 0.25, ratio > 0.125) {
        (_, false, false, false) => return,
        ("euclidian", true, _, _) => "tol_used_gt_1/2:euclidian",
        ("euclidian", _, true, _) => "tol_used_gt_1/4:euclidian",
        ("euclidian", _, _, _) => "tol_used_gt_1/8:euclidian",
        ("manhattan", true, _, _) => "tol_used_gt_1/2:manhattan",
        ("manhattan", _, true, _) => "tol_used_gt_1/4:manhattan",
        ("manhattan", _, _, _) => "tol_used_gt_1/8:manhattan",
        ("minkowski", true, _, _) => "tol_used_gt_1/2:minkowski",
        ("minkowski", _, true, _) => "tol_used_gt_1/4:minkowski",
        ("minkowski", _, _, _) => "tol_used_gt_1/8:minkowski",
        ("hamming", true, _, _) => "tol_used_gt_1/2:hamming",
        ("hamming", _, true, _) => "tol_used_gt_1/4:hamming",
        ("hamming", _, _, _) => "tol_used_gt_1/8:hamming",
        (_, true, _, _) => "tol_used_gt_1/2:mahalanobis",
        (_, _, true, _) => "tol_used_gt_1/4:mahalanobis",
        (_, _, _, _) => "tol_used_gt_1/8:mahalanobis",
    };
    mc::count(name);
}

/// Development aid: `C17_CALIB=<fraction>` prints every in-range case that uses more than that
/// fraction of its tolerance (how the headroom table in NOTES.md was measured).
fn calib_threshold() -> Option<f64> {
    static THR: std::sync::OnceLock<Option<f64>> = std::sync::OnceLock::new();
    *THR.get_or_init(|| std::env::var("C17_CALIB").ok().and_then(|v| v.parse::<f64>().ok()))
}

thread_local! {
    /// (current job, site keys already reported with their full message in this job)
    static REPORTED: RefCell<(String, Vec<String>)> = RefCell::new((String::new(), Vec::new()));
}

/// Record a violation. The driver keeps the message of the first violation per (job, site key) and
/// only counts the others, so the message is rendered for that first one only (rendering the inputs
/// of hundreds of thousands of cases of an already known site would dominate the run time).
fn report(site: impl Into<String>, what: impl FnOnce() -> String) {
    let site = site.into();
    let first = REPORTED.with(|r| {
        let mut r = r.borrow_mut();
        if r.1.contains(&site) {
            false
        } else {
            r.1.push(site.clone());
            true
        }
    });
    // while a description is requested (sample, replay, re-run of a violating case) always render
    if first || mc::sampling() {
        mc::violation(site, what());
    } else {
        mc::violation(site, "(same site key as an earlier case of this job; message not rendered)");
    }
}

macro_rules! viol {
    ($site:expr, $what:expr $(,)?) => {
        report($site, || $what)
    };
}

fn site(comp: &str, clause: &str, class: Option<&'static str>) -> String {
    format!("{}.distance:{}", comp, class.unwrap_or(clause))
}

struct PairObs {
    dxy: f64,
    refv: f64,
    tol: f64,
    ok: bool,
}

/// The clauses that concern one pair (x, y) and one metric. `ctx` renders the case for messages.
#[allow(clippy::too_many_arguments)]
fn judge_pair<T: Fl>(comp: &'static str, label: &str, class: Option<&'static str>, same: bool, d: [Result<f64, mc::PanicInfo>; 3], refv: f64, tol_units: f64, ctx: &dyn Fn() -> String) -> PairObs {
    let mut vals = [0.0f64; 3];
    for (k, r) in d.iter().enumerate() {
        match r {
            Ok(v) => vals[k] = *v,
            Err(p) => {
                viol!(format!("{}.distance:panic", comp), format!("{} {}: {} on equal-length finite vectors", label, ctx(), p.brief()));
                return PairObs { dxy: f64::NAN, refv, tol: 0.0, ok: false };
            }
        }
    }
    let [dxy, dyx, dxx] = vals;
    let tol = tol_units * T::EPS * refv;
    let mut ok = true;
    if dxy.is_nan() || dxy < 0.0 {
        viol!(site(comp, "not-nonnegative", class), format!("{} {}: d(x,y) = {:e} is not a non-negative number (closed form {:e})", label, ctx(), dxy, refv));
        ok = false;
    }
    if !(dxx == 0.0) {
        viol!(site(comp, "identical-arguments", None), format!("{} {}: d(x,x) = {:e}, expected 0", label, ctx(), dxx));
        ok = false;
    }
    if same && !(dxy == 0.0) {
        viol!(site(comp, "identical-arguments", None), format!("{} {}: x and y have identical components but d(x,y) = {:e}", label, ctx(), dxy));
        ok = false;
    }
    if !((dxy - dyx).abs() <= tol || dxy == dyx) {
        viol!(site(comp, "symmetry", class), format!("{} {}: d(x,y) = {:e} but d(y,x) = {:e}", label, ctx(), dxy, dyx));
        ok = false;
    } else if dxy.to_bits() == dyx.to_bits() {
        mc::count("symmetry_bit_exact");
    }
    if !same && !dxy.is_nan() && dxy >= 0.0 {
        let err = (dxy - refv).abs();
        if !(err <= tol) {
            viol!(
                site(comp, "closed-form", class),
                format!("{} {} [{}]: d(x,y) = {:e}, closed form {:e} (error {:.3e} = {:.1} eps_{} relative, allowed {:.1})", label, ctx(), T::NAME, dxy, refv, err, err / (T::EPS * refv), T::NAME, tol_units),
            );
            ok = false;
        } else if class.is_none() {
            if calib_threshold().map(|thr| err / tol > thr).unwrap_or(false) {
                use std::io::Write;
                let line = format!("CALIB {} [{}] ratio {:.4} (err {:.2} eps, allowed {:.1}) {}\n", label, T::NAME, err / tol, err / (T::EPS * refv), tol_units, ctx());
                let _ = std::io::stderr().write_all(line.as_bytes());
            }
            headroom(comp, err / tol);
        }
    }
    PairObs { dxy, refv, tol, ok }
}

/// d(x,y) <= d(x,z) + d(z,y) up to rounding: each of the three values may be off by `rel` relative.
fn triangle_ok(dxy: f64, dxz: f64, dzy: f64, rel: f64) -> bool {
    let sum = dxz + dzy;
    dxy <= sum + 3.0 * rel * (sum + dxy) || (dxy.is_infinite() && sum.is_infinite())
}

// ------------------------------------------------------------------------------------------------
// "lp" executions: one ordered pair (x, y) of a vector catalogue, all 13 metrics, and — for the
// triangle inequality — every z of the catalogue

fn max_l2(x: &[f64], y: &[f64]) -> Option<i32> {
    let m = x.iter().zip(y).fold(0.0f64, |m, (a, b)| m.max((a - b).abs()));
    if m > 0.0 && m.is_finite() {
        Some(dd::ilog2(m))
    } else {
        None
    }
}

fn lp_exec<T: Fl>(job: &Job) {
    let c: Rc<Cat<T>> = cached(&job.name, || lp_catalogue::<T>(job));
    let big = c.typed.len();
    let (lo, hi) = (job.params["lo"].as_u64().unwrap_or(0) as usize, job.params["hi"].as_u64().map(|h| h as usize).unwrap_or(big).min(big));
    let i = lo + mc::choose(hi - lo);
    let j = mc::choose(big);
    let n = c.n;
    let (xv, yv) = (&c.vals[i], &c.vals[j]);
    let df = dd::diff(xv, yv);
    let same = df.zero;
    let l2 = if same { None } else { Some(df.log2_max()) };
    let ctx = || {
        let nm = |k: usize| if c.names[k].is_empty() { String::new() } else { format!(" ({})", c.names[k]) };
        format!("n={} x={:?}{} y={:?}{}", n, xv, nm(i), yv, nm(j))
    };
    let mh = match identity_maha::<T>(n) {
        Ok(m) => Some(m),
        Err(p) => {
            viol!("mahalanobis.new_from_covariance:panic", format!("identity covariance of order {} [{}]: {}", n, T::NAME, p.brief()));
            None
        }
    };
    let refs = [df.euclid().to_f64(), df.manhattan().to_f64()];
    let mut obs: Vec<Option<PairObs>> = Vec::with_capacity(METS.len());
    let mut digest = 0x17u64;
    for m in METS {
        if m == Met::MhI && mh.is_none() {
            obs.push(None);
            continue;
        }
        let refv = if same {
            0.0
        } else {
            match m {
                Met::Eu | Met::MhI => refs[0],
                Met::Ma => refs[1],
                Met::Mi(p) => df.minkowski(p as u32).to_f64(),
                Met::HaF | Met::HaI => df.mismatches() as f64 / n as f64,
            }
        };
        let class = l2.and_then(|l| m.range_class::<T>(n, l));
        if class.is_some() {
            mc::count("intermediate_out_of_range_cases");
        }
        let d = [eval(m, mh.as_ref(), &c, i, j), eval(m, mh.as_ref(), &c, j, i), eval(m, mh.as_ref(), &c, i, i)];
        let o = judge_pair::<T>(m.comp(), &m.label(), class, same, d, refv, m.tol_units(n, refv), &ctx);
        digest = mc::hash::mix(digest, mc::hash::canon_bits(o.dxy));
        obs.push(Some(o));
    }
    // round 5 (wide-range catalogue): pairs that share the large coordinate and differ only in the
    // tiny one — the expected distance is the tiny gap itself (machinery check of the reference), and
    // the library has to return it (not 0) unless a power of the gap leaves the range of T
    if job.s("src") == "wide" && !same && df.mismatches() == 1 {
        let b = (0..n).find(|k| xv[*k] != yv[*k]).expect("one differing coordinate");
        let gap = (xv[b] - yv[b]).abs();
        let largest = xv.iter().fold(0.0f64, |m, v| m.max(v.abs()));
        if gap <= 1e-9 * largest {
            assert!(gap > 0.0 && (refs[0] - gap).abs() <= 1e-15 * gap && (refs[1] - gap).abs() <= 1e-15 * gap, "reference of a tiny-gap pair is not the gap: x={:?} y={:?} gap {:e} euclid {:e} manhattan {:e}", xv, yv, gap, refs[0], refs[1]);
            mc::count("wide_range_tiny_gap_pairs");
            for (mi, m) in METS.iter().enumerate() {
                if matches!(m, Met::HaF | Met::HaI) {
                    continue;
                }
                let Some(o) = &obs[mi] else { continue };
                if l2.and_then(|l| m.range_class::<T>(n, l)).is_some() {
                    mc::count("wide_range_tiny_gap_checks_power_out_of_range");
                } else if o.ok && o.dxy > 0.0 && o.dxy.is_finite() {
                    mc::count("wide_range_tiny_gap_checks_in_tolerance");
                }
            }
        }
    }
    // coincidence clauses
    let coincide = |a: usize, b: usize, comp: &str, clause: &str| {
        if let (Some(oa), Some(ob)) = (&obs[a], &obs[b]) {
            if oa.dxy.is_nan() || ob.dxy.is_nan() {
                return;
            }
            let class = l2.and_then(|l| METS[a].range_class::<T>(n, l).or(METS[b].range_class::<T>(n, l)));
            mc::count("coincidence_checks");
            if !((oa.dxy - ob.dxy).abs() <= oa.tol + ob.tol || oa.dxy == ob.dxy) {
                viol!(site(comp, clause, class), format!("{} = {:e} but {} = {:e} for {} [{}]", METS[a].label(), oa.dxy, METS[b].label(), ob.dxy, ctx(), T::NAME));
            }
        }
    };
    coincide(I_MI1, I_MA, "minkowski", "p1-vs-manhattan");
    coincide(I_MI2, I_EU, "minkowski", "p2-vs-euclidian");
    coincide(I_MHI, I_EU, "mahalanobis", "identity-vs-euclidian");

    // triangle inequality through every z of the catalogue
    let (mut triples, mut tight) = (0u64, 0u64);
    if job.params["tri"].as_bool().unwrap_or(true) {
        let near = 1.0 - 64.0 * T::EPS;
        for k in 0..big {
            let dxz_all = table_row(mh.as_ref(), &c, i, k);
            let dzy_all = table_row(mh.as_ref(), &c, k, j);
            for (mi, m) in METS.iter().enumerate() {
                let Some(o) = &obs[mi] else { continue };
                let (dxz, dzy) = (dxz_all[mi], dzy_all[mi]);
                if o.dxy.is_nan() || dxz.is_nan() || dzy.is_nan() {
                    continue; // reported when (x,y) / (x,z) / (z,y) is the pair of an execution
                }
                triples += 1;
                let sum = dxz + dzy;
                if o.dxy <= sum {
                    if o.dxy > 0.0 && dxz > 0.0 && dzy > 0.0 && o.dxy >= sum * near {
                        tight += 1;
                    }
                    continue;
                }
                let rel = m.tol_units(n, o.refv).max(m.tol_units(n, dxz)).max(m.tol_units(n, dzy)) * T::EPS;
                if !triangle_ok(o.dxy, dxz, dzy, rel) {
                    // an intermediate of any of the three legs out of range?
                    let zv = &c.vals[k];
                    let legs = [l2, max_l2(xv, zv), max_l2(zv, yv)];
                    let class = legs.iter().flatten().find_map(|l| m.range_class::<T>(n, *l));
                    viol!(
                        site(m.comp(), "triangle", class),
                        format!("{} {} z={:?} [{}]: d(x,y) = {:e} > d(x,z) + d(z,y) = {:e} + {:e}", m.label(), ctx(), zv, T::NAME, o.dxy, dxz, dzy),
                    );
                } else {
                    tight += 1;
                }
            }
        }
    }
    mc::count_n("triples_checked", triples);
    mc::count_n("triangle_tight", tight);
    mc::count_n("pair_metric_checks", METS.len() as u64);
    if !same {
        mc::nontrivial();
        mc::count("pairs_distinct_vectors");
        if df.mismatches() == 1 {
            mc::count("pairs_one_coordinate_differs");
        }
    } else {
        mc::count("pairs_identical_vectors");
    }
    mc::outcome(digest);
    mc::describe(|| {
        json!({
            "family": job.s("src"), "type": T::NAME, "scale": scale_text(job), "n": n,
            "x": xv, "y": yv,
            "distances": METS.iter().zip(&obs).map(|(m, o)| json!({"metric": m.label(), "library": o.as_ref().map(|o| o.dxy), "closed_form": o.as_ref().map(|o| o.refv), "ok": o.as_ref().map(|o| o.ok)})).collect::<Vec<_>>(),
            "triples_checked": triples,
        })
    });
}

// ------------------------------------------------------------------------------------------------
// Mahalanobis from a covariance matrix

struct CovCat<T: Fl> {
    mats: Vec<(String, cat::Mat, f64)>, // name, exact typed entries (scaled), cond2
    q: Cat<T>,
}

fn cov_catalogue<T: Fl>(job: &Job) -> CovCat<T> {
    let n = job.u("dim");
    let cs = dd::ldexp(1.0, job.params["cs2"].as_i64().unwrap_or(0) as i32);
    let raw = match job.s("set") {
        "spd2" => cat::spd2(),
        "spd3q" => cat::spd3(2, &[0, 1, -1]),
        "spd3t" => cat::spd3(3, &[0, 1, -1, 2, -2]),
        "spd4" => cat::spd4(),
        "struct" => cat::spd_structured(n),
        other => panic!("unknown covariance set {}", other),
    };
    let mats = raw
        .into_iter()
        .map(|(name, m)| {
            let typed: cat::Mat = m.iter().map(|r| r.iter().map(|v| T::of(v * cs).f()).collect()).collect();
            let cond = cond2_any_scale(&typed);
            (name, typed, cond)
        })
        .filter(|(_, _, cond)| *cond <= 1e4)
        .collect();
    let qv: Vec<(String, Vec<f64>)> = match job.s("queries") {
        "S5" => cat::lattice(cat::S5, n).into_iter().map(|v| (String::new(), v)).collect(),
        "S3" => cat::lattice(cat::S3, n).into_iter().map(|v| (String::new(), v)).collect(),
        "structured" => cat::structured(n, false),
        other => panic!("unknown query set {}", other),
    };
    CovCat { mats, q: build_cat::<T>(qv, scale_of(job)) }
}

fn maha_class<T: Fl>(n: usize, l2: i32, inv_max_l2: i32) -> Option<&'static str> {
    let logn = ((n * n) as f64).log2().ceil() as i32;
    if 2 * (l2 + 1) + inv_max_l2 + 1 + logn >= T::EMAX {
        Some("squares-overflow")
    } else if 2 * l2 + inv_max_l2 < T::EMIN {
        Some("squares-underflow")
    } else {
        None
    }
}

fn mcov_exec<T: Fl>(job: &Job) {
    let cc: Rc<CovCat<T>> = cached(&job.name, || cov_catalogue::<T>(job));
    let (lo, hi) = (job.params["mlo"].as_u64().unwrap_or(0) as usize, job.params["mhi"].as_u64().map(|h| h as usize).unwrap_or(cc.mats.len()).min(cc.mats.len()));
    if hi <= lo {
        mc::count("empty_matrix_chunk");
        return;
    }
    let mi = lo + mc::choose(hi - lo);
    let (name, sigma, cond) = &cc.mats[mi];
    let q = &cc.q;
    let i = mc::choose(q.typed.len());
    let j = mc::choose(q.typed.len());
    let n = q.n;
    let what = || format!("covariance {} = {:?} (cond2 {:.1}) [{}]", name, sigma, cond, T::NAME);
    let md = match mc::guard(|| Mahalanobis::new_from_covariance(&mc_sc::dm::<T>(sigma))) {
        Ok(m) => m,
        Err(p) => {
            viol!("mahalanobis.new_from_covariance:panic", format!("{}: {}", what(), p.brief()));
            return;
        }
    };
    let Some(inv) = dd::inverse(&dd::dd_mat(sigma)) else {
        panic!("reference inverse failed on a catalogue matrix {:?}", sigma);
    };
    let inv_max = inv.iter().flatten().fold(0.0f64, |m, v| m.max(v.hi.abs()));
    let (xv, yv) = (&q.vals[i], &q.vals[j]);
    let df = dd::diff(xv, yv);
    let ctx = || format!("{} x={:?} y={:?}", what(), xv, yv);
    let refv = if df.zero { 0.0 } else { df.quadratic(&inv).to_f64() };
    let class = if df.zero { None } else { maha_class::<T>(n, df.log2_max(), dd::ilog2(inv_max)) };
    let call = |a: usize, b: usize| mc::guard(|| md.distance(&q.typed[a], &q.typed[b]).f());
    let units = maha_tol_units(n, *cond);
    let o = judge_pair::<T>("mahalanobis", "Mahalanobis", class, df.zero, [call(i, j), call(j, i), call(i, i)], refv, units, &ctx);
    let is_identity = (0..n).all(|a| (0..n).all(|b| sigma[a][b] == if a == b { 1.0 } else { 0.0 }));
    if is_identity && !o.dxy.is_nan() {
        if let Ok(e) = mc::guard(|| Distances::euclidian().distance(&q.typed[i], &q.typed[j]).f()) {
            mc::count("coincidence_checks");
            if !((e - o.dxy).abs() <= o.tol + (8.0 + n as f64) * T::EPS * refv || e == o.dxy) {
                viol!(site("mahalanobis", "identity-vs-euclidian", class), format!("Mahalanobis(I) = {:e} but Euclidian = {:e} for {}", o.dxy, e, ctx()));
            }
        }
    } else if !is_identity {
        mc::count("maha_nonidentity_covariance");
    }
    // round-2 family: covariance * 2^cs2 with the query vectors * 2^(cs2/2) (distances stay O(1))
    if job.b("xs") && !df.zero && !o.dxy.is_nan() {
        mc::count("maha_cov_rescaled_pairs");
        if o.ok && class.is_none() && o.dxy > 0.0 && o.dxy.is_finite() {
            mc::count("maha_cov_rescaled_pairs_in_tolerance");
        }
    }
    let (mut triples, mut tight) = (0u64, 0u64);
    if !o.dxy.is_nan() {
        let rel = units * T::EPS;
        for k in 0..q.typed.len() {
            let (Ok(dxz), Ok(dzy)) = (call(i, k), call(k, j)) else { continue };
            triples += 1;
            if !triangle_ok(o.dxy, dxz, dzy, rel) {
                let legs = [max_l2(xv, yv), max_l2(xv, &q.vals[k]), max_l2(&q.vals[k], yv)];
                let class = legs.iter().flatten().find_map(|l| maha_class::<T>(n, *l, dd::ilog2(inv_max)));
                viol!(site("mahalanobis", "triangle", class), format!("Mahalanobis {} z={:?}: d(x,y) = {:e} > d(x,z) + d(z,y) = {:e} + {:e}", ctx(), q.vals[k], o.dxy, dxz, dzy));
            } else if o.dxy > 0.0 && dxz > 0.0 && dzy > 0.0 && o.dxy >= (dxz + dzy) * (1.0 - rel) {
                tight += 1;
            }
        }
    }
    mc::count_n("triples_checked", triples);
    mc::count_n("triangle_tight", tight);
    mc::count("pair_metric_checks");
    if !df.zero {
        mc::nontrivial();
        mc::count("pairs_distinct_vectors");
    }
    mc::outcome(mc::hash::mix(0x18, mc::hash::canon_bits(o.dxy)));
    mc::describe(|| json!({"family": "mahalanobis from covariance", "type": T::NAME, "covariance": sigma, "covariance_name": name, "cond2": cond, "vector_scale": scale_text(job), "x": xv, "y": yv, "library": o.dxy, "closed_form": refv, "triples_checked": triples}));
}

// ------------------------------------------------------------------------------------------------
// Mahalanobis from data: one execution = one data set; all pairs and triples of a small query set

/// query points of the from-data families: the lattice itself (d <= 2) or a fixed 8-point subset (d = 3)
fn cat_points(d: usize) -> Vec<Vec<f64>> {
    if d <= 2 {
        cat::data_points(d)
    } else {
        vec![vec![0.0, 0.0, 0.0], vec![1.0, 0.0, 0.0], vec![0.0, 1.0, 0.0], vec![0.0, 0.0, 1.0], vec![-1.0, 0.0, 0.0], vec![1.0, 1.0, 1.0], vec![1.0, -1.0, 0.0], vec![-1.0, 1.0, 1.0]]
    }
}

/// Round 3 (data with a large common offset): what an *accurate two-pass* covariance cannot avoid.
/// The computed column mean is mu_j + delta_j with |delta_j| <= u |mu_j| (u = eps_T / 2) at best; the
/// centred values x_kj - (mu_j + delta_j) are exact (Sterbenz), the first-order terms
/// delta_i * sum_k (x_kj - mu_j) vanish, and what remains is S + m/(m-1) * delta delta^T, a relative
/// perturbation of at most m/(m-1) * u^2 |mu|^2 / ||S||_2 of the covariance, hence at most
/// cond2 * m/(m-1) * |mu|^2 eps_T^2 / (8 ||S||_2) relative of the distance. Allowed here, in units of
/// eps_T relative to the closed form: cond2 * eps_T * |mu|^2 / spread^2 with spread^2 = the largest
/// column variance (<= ||S||_2) — 4 to 8 times the bound above; it is 4.4 * d / spread^2 * cond2 at
/// the largest offsets (1e8 for f64, 4096 for f32) and negligible at the smaller ones. The
/// differences x - y of the shifted points are exact (Sterbenz), so they add nothing. A one-pass
/// formula (sum of products minus m * mean * mean) loses |mu|^2 eps_T / spread^2 *relative*, i.e.
/// 1/eps_T times this allowance.
fn shift_extra_units<T: Fl>(mu: &[f64], spread2: f64, cond: f64) -> f64 {
    let mu2: f64 = mu.iter().map(|v| v * v).sum();
    cond * T::EPS * mu2 / spread2
}

fn mdata_exec<T: Fl>(job: &Job) {
    let d = job.u("d");
    let m = job.u("m");
    let ordered = job.b("ordered");
    let ds = dd::ldexp(1.0, job.params["ds2"].as_i64().unwrap_or(0) as i32);
    let pts = cat::data_points(d);
    let np = pts.len();
    let mut idx: Vec<usize> = Vec::with_capacity(m);
    let r0 = job.u("r0");
    idx.push(r0);
    for _ in 1..m {
        let prev = *idx.last().unwrap();
        let k = if ordered { mc::choose(np) } else { prev + mc::choose(np - prev) };
        idx.push(k);
    }
    let rows_int: Vec<Vec<f64>> = idx.iter().map(|k| pts[*k].clone()).collect();
    if !cat::full_rank(&rows_int) {
        mc::count("data_sets_rank_deficient_skipped");
        return;
    }
    mc::count("data_sets_full_rank");
    if job.params["ds2"].as_i64().unwrap_or(0).abs() >= 20 {
        // round-2 family in the quick tier (data and query points * 2^ds2)
        mc::count("maha_data_rescaled_sets");
    }
    // round 3: a common offset vector added to every data row and to every query point
    let off: Option<Vec<f64>> = job.params["off"].as_array().map(|a| a.iter().map(|v| v.as_f64().expect("numeric offset")).collect());
    if let Some(o) = &off {
        assert!(o.len() == d && ds == 1.0, "shifted family: one offset per column, unit data scale");
    }
    let shift = |j: usize| off.as_ref().map(|o| o[j]).unwrap_or(0.0);
    let rows: Vec<Vec<f64>> = rows_int.iter().map(|r| r.iter().enumerate().map(|(j, v)| T::of(v * ds + shift(j)).f()).collect()).collect();
    if off.is_some() {
        // the lattice must survive the shift exactly in T (spacing 1 stays spacing 1)
        for (r, ri) in rows.iter().zip(&rows_int) {
            for j in 0..d {
                assert!(r[j] - shift(j) == ri[j] && T::of(shift(j)).f() == shift(j), "offset {:?} does not keep the lattice exact in {}", off, T::NAME);
            }
        }
        mc::count("maha_data_shifted_sets");
    }
    let what = || match &off {
        None => format!("data rows {:?} [{}]", rows, T::NAME),
        Some(o) => format!("data rows {:?} = lattice rows {:?} + common offset {:?} [{}]", rows, rows_int, o, T::NAME),
    };
    let md = match mc::guard(|| Distances::mahalanobis(&mc_sc::dm::<T>(&rows))) {
        Ok(v) => v,
        Err(p) => {
            viol!("mahalanobis.new:panic", format!("{}: {}", what(), p.brief()));
            return;
        }
    };
    let cov = dd::sample_cov(&rows);
    let covf: cat::Mat = cov.iter().map(|r| r.iter().map(|v| v.to_f64()).collect()).collect();
    let cond = cond2_any_scale(&covf);
    // shifted family: the library built from the unshifted lattice rows (for the agreement clause),
    // and a machinery check that the double-double reference itself is translation invariant here
    let mut unshifted: Option<(Mahalanobis<T, DenseMatrix<T>>, Cat<T>)> = None;
    // extra tolerance units of the shifted family (0 for every older job), see `shift_extra_units`
    let mut extra_units = 0.0;
    if off.is_some() {
        let rows0: Vec<Vec<f64>> = rows_int.iter().map(|r| r.iter().map(|v| T::of(*v).f()).collect()).collect();
        let cov0 = dd::sample_cov(&rows0);
        for a in 0..d {
            for b in 0..d {
                let (s, u) = (cov[a][b], cov0[a][b]);
                let err = s.sub(u).to_f64().abs();
                assert!(err <= 1e-20 * (cov0[a][a].to_f64() * cov0[b][b].to_f64()).sqrt(), "reference covariance not translation invariant: {:?} vs {:?} for rows {:?}", s, u, rows);
            }
        }
        let mu: Vec<f64> = (0..d).map(|j| rows.iter().map(|r| r[j]).sum::<f64>() / m as f64).collect();
        let spread2 = (0..d).fold(0.0f64, |s, j| s.max(covf[j][j]));
        extra_units = shift_extra_units::<T>(&mu, spread2, cond);
        match mc::guard(|| Distances::mahalanobis(&mc_sc::dm::<T>(&rows0))) {
            Ok(v) => unshifted = Some((v, build_cat::<T>(cat_points(d).into_iter().map(|v| (String::new(), v)).collect(), 1.0))),
            Err(p) => {
                viol!("mahalanobis.new:panic", format!("data rows {:?} [{}]: {}", rows0, T::NAME, p.brief()));
                return;
            }
        }
    }
    let Some(inv) = dd::inverse(&cov) else { panic!("reference inverse failed for full-rank data {:?}", rows) };
    let inv_max = inv.iter().flatten().fold(0.0f64, |m, v| m.max(v.hi.abs()));
    // query points: the lattice itself (d <= 2) or a fixed 8-point subset (d = 3), scaled like the data
    let qraw: Vec<Vec<f64>> = cat_points(d).into_iter().map(|v| v.iter().enumerate().map(|(j, x)| x * ds + shift(j)).collect()).collect();
    let q = build_cat::<T>(qraw.into_iter().map(|v| (String::new(), v)).collect(), 1.0);
    let nq = q.typed.len();
    let units = maha_tol_units(d, cond) + extra_units;
    let units0 = maha_tol_units(d, cond);
    let mut dist = vec![vec![f64::NAN; nq]; nq];
    let mut digest = 0x19u64;
    let (mut shifted_ok, mut shifted_agree, mut shifted_bit_equal) = (0u64, 0u64, 0u64);
    let (mut base_buckets, mut base_buckets_big) = ([0u64; 5], [0u64; 5]);
    // a column offset at which |mean|^2 eps_T is of order one (1e8 for f64, 4096 for f32)
    let off_big = off.as_ref().map(|o| o.iter().any(|v| v * v * T::EPS >= 1.0)).unwrap_or(false);
    for i in 0..nq {
        for j in 0..nq {
            let (xv, yv) = (&q.vals[i], &q.vals[j]);
            let df = dd::diff(xv, yv);
            let refv = if df.zero { 0.0 } else { df.quadratic(&inv).to_f64() };
            let class = if df.zero { None } else { maha_class::<T>(d, df.log2_max(), dd::ilog2(inv_max)) };
            let call = |a: usize, b: usize| mc::guard(|| md.distance(&q.typed[a], &q.typed[b]).f());
            let ctx = || format!("{} (sample covariance {:?}, cond2 {:.1}) x={:?} y={:?}", what(), covf, cond, xv, yv);
            let o = judge_pair::<T>("mahalanobis", "Mahalanobis(from data)", class, df.zero, [call(i, j), call(j, i), call(i, i)], refv, units, &ctx);
            dist[i][j] = o.dxy;
            digest = mc::hash::mix(digest, mc::hash::canon_bits(o.dxy));
            if let Some((md0, q0)) = &unshifted {
                // agreement with the library's own result on the unshifted data and points
                if !df.zero && !o.dxy.is_nan() {
                    match mc::guard(|| md0.distance(&q0.typed[i], &q0.typed[j]).f()) {
                        Ok(d0) => {
                            let tol0 = units0 * T::EPS * refv;
                            if !((o.dxy - d0).abs() <= o.tol + tol0 || o.dxy == d0) {
                                viol!(
                                    site("mahalanobis", "translation-invariance", class),
                                    format!("Mahalanobis(from data) {}: d(x,y) = {:e} but the unshifted data set {:?} and points x={:?} y={:?} give {:e} (closed form of both {:e}; allowed difference {:.3e})", ctx(), o.dxy, rows_int, q0.vals[i], q0.vals[j], d0, refv, o.tol + tol0),
                                );
                            } else {
                                shifted_agree += 1;
                                if o.dxy.to_bits() == d0.to_bits() {
                                    shifted_bit_equal += 1;
                                }
                            }
                        }
                        Err(p) => viol!("mahalanobis.distance:panic", format!("Mahalanobis(from data) rows {:?} x={:?} y={:?} [{}]: {}", rows_int, q0.vals[i], q0.vals[j], T::NAME, p.brief())),
                    }
                    if o.ok && class.is_none() && o.dxy > 0.0 && o.dxy.is_finite() {
                        shifted_ok += 1;
                        // calibration: how much of the tolerance of the *unshifted* families
                        // (without the mean-rounding allowance) the library uses on shifted data
                        let r0 = (o.dxy - refv).abs() / (units0 * T::EPS * refv);
                        let b = if r0 > 1.0 { 0 } else if r0 > 0.5 { 1 } else if r0 > 0.25 { 2 } else if r0 > 0.125 { 3 } else { 4 };
                        base_buckets[b] += 1;
                        if off_big {
                            base_buckets_big[b] += 1;
                        }
                    }
                }
            }
        }
    }
    for (b, name) in ["shifted_err_gt_unshifted_tol", "shifted_err_gt_1/2_unshifted_tol", "shifted_err_gt_1/4_unshifted_tol", "shifted_err_gt_1/8_unshifted_tol"].iter().enumerate() {
        mc::count_n(*name, base_buckets[b]);
    }
    for (b, name) in ["largest_offset_err_gt_unshifted_tol", "largest_offset_err_gt_1/2_unshifted_tol", "largest_offset_err_gt_1/4_unshifted_tol", "largest_offset_err_gt_1/8_unshifted_tol", "largest_offset_err_le_1/8_unshifted_tol"].iter().enumerate() {
        mc::count_n(*name, base_buckets_big[b]);
    }
    mc::count_n("maha_data_shifted_pairs_in_tolerance", shifted_ok);
    mc::count_n("maha_data_shifted_pairs_agree_with_unshifted", shifted_agree);
    mc::count_n("maha_data_shifted_pairs_bit_equal_to_unshifted", shifted_bit_equal);
    mc::count_n("pair_metric_checks", (nq * nq) as u64);
    mc::count_n("pairs_distinct_vectors", (nq * nq - nq) as u64);
    let rel = units * T::EPS;
    let (mut triples, mut tight) = (0u64, 0u64);
    for i in 0..nq {
        for j in 0..nq {
            for k in 0..nq {
                let (dxy, dxz, dzy) = (dist[i][j], dist[i][k], dist[k][j]);
                if dxy.is_nan() || dxz.is_nan() || dzy.is_nan() {
                    continue;
                }
                triples += 1;
                if !triangle_ok(dxy, dxz, dzy, rel) {
                    viol!("mahalanobis.distance:triangle", format!("Mahalanobis(from data) {} x={:?} y={:?} z={:?}: d(x,y) = {:e} > d(x,z) + d(z,y) = {:e} + {:e}", what(), q.vals[i], q.vals[j], q.vals[k], dxy, dxz, dzy));
                } else if dxy > 0.0 && dxz > 0.0 && dzy > 0.0 && dxy >= (dxz + dzy) * (1.0 - rel) {
                    tight += 1;
                }
            }
        }
    }
    mc::count_n("triples_checked", triples);
    mc::count_n("triangle_tight", tight);
    mc::nontrivial();
    mc::outcome(digest);
    mc::describe(|| json!({"family": "mahalanobis from data", "type": T::NAME, "rows": rows, "common_offset": off, "sample_covariance": covf, "cond2": cond, "query_points": q.vals, "library_distances": dist}));
}

// ------------------------------------------------------------------------------------------------
// round 4: larger orders combined with small variances. One execution = one covariance matrix
// (from-covariance) or one data set (from-data): ONE construction / factorisation by the library, and
// inside it every ordered pair and every ordered triple of the structured vector catalogue of that
// length (documented inner loop; a violation carries the matrix, the scale and the two vectors).

/// Input class of a construction failure, decided from the input alone: the determinant of the
/// (well-conditioned, cond2 <= 1e4) covariance — the product of the pivots, about variance^order —
/// lies outside the normal range of T although every entry and every pivot is comfortably inside.
fn det_out_of_range<T: Fl>(log2det: Option<f64>) -> bool {
    matches!(log2det, Some(l) if l < T::EMIN as f64 || l >= T::EMAX as f64)
}

fn construction_site(op: &str, det_out: bool) -> String {
    if det_out {
        format!("mahalanobis.{}:panic-large-order-small-variance", op)
    } else {
        format!("mahalanobis.{}:panic", op)
    }
}

/// Development aid: `C17_BIG_INFO=1` prints one line per execution of the round-4 families
/// (condition number, log2 of the determinant, largest error in units of the tolerance and in units
/// of cond2 * eps) — how the calibration figures in NOTES.md were measured.
fn big_info() -> bool {
    static ON: std::sync::OnceLock<bool> = std::sync::OnceLock::new();
    *ON.get_or_init(|| std::env::var("C17_BIG_INFO").is_ok())
}

struct AllPairs {
    digest: u64,
    distinct: u64,
    in_tol: u64,
    /// largest |d - ref| / tolerance over the in-range pairs
    max_ratio: f64,
    /// largest |d - ref| / (cond2 * eps_T * ref)
    max_cond_units: f64,
    triples: u64,
    dist: Vec<Vec<f64>>,
}

/// All clauses for every ordered pair and every ordered triple of the query catalogue `q` under the
/// library instance `md`; `inv` is the double-double inverse of the exact covariance.
#[allow(clippy::too_many_arguments)]
fn judge_all_pairs<T: Fl>(md: &Mahalanobis<T, DenseMatrix<T>>, inv: &[Vec<dd::DD>], q: &Cat<T>, n: usize, cond: f64, extra_units: f64, label: &str, what: &dyn Fn() -> String) -> AllPairs {
    let nq = q.typed.len();
    let inv_max = inv.iter().flatten().fold(0.0f64, |m, v| m.max(v.hi.abs()));
    // `extra_units` is 0 for every family except data with a common offset (see `shift_extra_units`)
    let units = maha_tol_units(n, cond) + extra_units;
    let mut r = AllPairs { digest: 0x21, distinct: 0, in_tol: 0, max_ratio: 0.0, max_cond_units: 0.0, triples: 0, dist: vec![vec![f64::NAN; nq]; nq] };
    for i in 0..nq {
        for j in 0..nq {
            let (xv, yv) = (&q.vals[i], &q.vals[j]);
            let df = dd::diff(xv, yv);
            let refv = if df.zero { 0.0 } else { df.quadratic(inv).to_f64() };
            let class = if df.zero { None } else { maha_class::<T>(n, df.log2_max(), dd::ilog2(inv_max)) };
            let call = |a: usize, b: usize| mc::guard(|| md.distance(&q.typed[a], &q.typed[b]).f());
            let ctx = || format!("{} x={:?} ({}) y={:?} ({})", what(), xv, q.names[i], yv, q.names[j]);
            let o = judge_pair::<T>("mahalanobis", label, class, df.zero, [call(i, j), call(j, i), call(i, i)], refv, units, &ctx);
            r.dist[i][j] = o.dxy;
            r.digest = mc::hash::mix(r.digest, mc::hash::canon_bits(o.dxy));
            if !df.zero && !o.dxy.is_nan() {
                r.distinct += 1;
                if o.ok && class.is_none() && o.dxy > 0.0 && o.dxy.is_finite() {
                    r.in_tol += 1;
                    let err = (o.dxy - refv).abs();
                    r.max_ratio = r.max_ratio.max(err / o.tol);
                    r.max_cond_units = r.max_cond_units.max(err / (cond * T::EPS * refv));
                }
            }
        }
    }
    let rel = units * T::EPS;
    let mut tight = 0u64;
    for i in 0..nq {
        for j in 0..nq {
            for k in 0..nq {
                let (dxy, dxz, dzy) = (r.dist[i][j], r.dist[i][k], r.dist[k][j]);
                if dxy.is_nan() || dxz.is_nan() || dzy.is_nan() {
                    continue;
                }
                r.triples += 1;
                if !triangle_ok(dxy, dxz, dzy, rel) {
                    let legs = [max_l2(&q.vals[i], &q.vals[j]), max_l2(&q.vals[i], &q.vals[k]), max_l2(&q.vals[k], &q.vals[j])];
                    let class = legs.iter().flatten().find_map(|l| maha_class::<T>(n, *l, dd::ilog2(inv_max)));
                    viol!(site("mahalanobis", "triangle", class), format!("{} {} x={:?} y={:?} z={:?}: d(x,y) = {:e} > d(x,z) + d(z,y) = {:e} + {:e}", label, what(), q.vals[i], q.vals[j], q.vals[k], dxy, dxz, dzy));
                } else if dxy > 0.0 && dxz > 0.0 && dzy > 0.0 && dxy >= (dxz + dzy) * (1.0 - rel) {
                    tight += 1;
                }
            }
        }
    }
    mc::count_n("triples_checked", r.triples);
    mc::count_n("triangle_tight", tight);
    mc::count_n("pair_metric_checks", (nq * nq) as u64);
    mc::count_n("pairs_distinct_vectors", r.distinct);
    r
}

/// Every nonzero entry of the matrix is a normal, finite number of T (the only reason to leave a
/// (matrix, scale, type) combination out of the round-4 family).
fn entries_in_normal_range<T: Fl>(m: &cat::Mat, raw: &cat::Mat) -> bool {
    let tiny = dd::ldexp(1.0, T::EMIN);
    m.iter().flatten().zip(raw.iter().flatten()).all(|(v, r)| if *r == 0.0 { *v == 0.0 } else { v.is_finite() && v.abs() >= tiny })
}

fn covl_catalogue<T: Fl>(job: &Job) -> CovCat<T> {
    let n = job.u("dim");
    let cs = dd::ldexp(1.0, job.params["cs2"].as_i64().unwrap_or(0) as i32);
    let mats = cat::spd_structured(n)
        .into_iter()
        .filter_map(|(name, m)| {
            let typed: cat::Mat = m.iter().map(|r| r.iter().map(|v| T::of(v * cs).f()).collect()).collect();
            if !entries_in_normal_range::<T>(&typed, &m) {
                return None;
            }
            let cond = cond2_any_scale(&typed);
            (cond <= 1e4).then_some((name, typed, cond))
        })
        .collect();
    CovCat { mats, q: build_cat::<T>(cat::structured(n, job.b("full")), scale_of(job)) }
}

fn mcovl_exec<T: Fl>(job: &Job) {
    let cc: Rc<CovCat<T>> = cached(&job.name, || covl_catalogue::<T>(job));
    if cc.mats.is_empty() {
        mc::count("empty_matrix_chunk");
        return;
    }
    let mi = mc::choose(cc.mats.len());
    let (name, sigma, cond) = &cc.mats[mi];
    let q = &cc.q;
    let n = q.n;
    let cs2 = job.params["cs2"].as_i64().unwrap_or(0);
    let log2det = dd::log2_abs_det(&dd::dd_mat(sigma));
    let det_out = det_out_of_range::<T>(log2det);
    // the matrix is determined by (family, order, scale, type); `describe` carries every entry
    let what = || format!("covariance '{}' of order {} times 2^{} (cond2 {:.1}, det = 2^{:.1}, diagonal {:e} .. {:e}) with the vectors times {} [{}]", name, n, cs2, cond, log2det.unwrap_or(f64::NAN), sigma[0][0], sigma[n - 1][n - 1], scale_text(job), T::NAME);
    mc::count("maha_large_order_matrices");
    if det_out {
        mc::count("maha_large_order_det_outside_range_of_type");
    }
    let md = match mc::guard(|| Mahalanobis::new_from_covariance(&mc_sc::dm::<T>(sigma))) {
        Ok(m) => m,
        Err(p) => {
            viol!(construction_site("new_from_covariance", det_out), format!("{}: construction from a well-conditioned SPD matrix failed: {}", what(), p.brief()));
            mc::nontrivial();
            mc::outcome(mc::hash::mix(0x21, 1));
            mc::describe(|| json!({"family": "mahalanobis from covariance, larger orders x small variances", "type": T::NAME, "covariance": sigma, "covariance_name": name, "order": n, "cond2": cond, "log2_det": log2det, "observed": p.brief()}));
            return;
        }
    };
    mc::count("maha_large_order_constructed");
    if det_out {
        mc::count("maha_large_order_constructed_det_outside_range");
    }
    let Some(inv) = dd::inverse(&dd::dd_mat(sigma)) else {
        panic!("reference inverse failed on a catalogue matrix {:?}", sigma);
    };
    let r = judge_all_pairs::<T>(&md, &inv, q, n, *cond, 0.0, "Mahalanobis", &what);
    mc::count_n("maha_large_order_pairs", r.distinct);
    mc::count_n("maha_large_order_pairs_in_tolerance", r.in_tol);
    if (0..n).any(|a| (0..n).any(|b| a != b && sigma[a][b] != 0.0)) {
        mc::count_n("maha_nonidentity_covariance", r.distinct);
    }
    if big_info() {
        eprintln!("BIGINFO mcov {} n={} cs2={} '{}' cond={:.1} log2det={:.1} det_out={} pairs={} in_tol={} max_ratio={:.5} max_cond_units={:.3}", T::NAME, n, cs2, name, cond, log2det.unwrap_or(f64::NAN), det_out, r.distinct, r.in_tol, r.max_ratio, r.max_cond_units);
    }
    mc::nontrivial();
    mc::outcome(r.digest);
    mc::describe(|| json!({"family": "mahalanobis from covariance, larger orders x small variances", "type": T::NAME, "covariance": sigma, "covariance_name": name, "order": n, "cond2": cond, "log2_det": log2det, "vector_scale": scale_text(job), "vectors": q.vals, "library_distances": r.dist, "triples_checked": r.triples}));
}

/// Round 4, from data: one of the deterministic d = 8 / 12 column designs with m = d+2 .. d+4 rows,
/// one column scaling; query points = the structured catalogue of length d, scaled per column.
fn mdatal_exec<T: Fl>(job: &Job) {
    let d = job.u("d");
    let m = job.u("m");
    let design = mc::choose(cat::BIG_DESIGNS.len());
    let variant = mc::choose(cat::BIG_COLSCALES.len());
    let cscale = cat::big_data_colscale(variant, d);
    let rows_int = cat::big_data_rows(d, m, design);
    let rows: Vec<Vec<f64>> = rows_int.iter().map(|r| r.iter().zip(&cscale).map(|(v, c)| T::of(v * c).f()).collect()).collect();
    let cov = dd::sample_cov(&rows);
    let covf: cat::Mat = cov.iter().map(|r| r.iter().map(|v| v.to_f64()).collect()).collect();
    let cond = cond2_any_scale(&covf);
    // the designs are fixed and well conditioned; this is a guard of the family definition
    assert!(cond <= 1e4, "design '{}' d={} m={} scaling {}: cond2 {} > 1e4", cat::BIG_DESIGNS[design], d, m, cat::BIG_COLSCALES[variant], cond);
    let log2det = dd::log2_abs_det(&cov);
    let det_out = det_out_of_range::<T>(log2det);
    let (vmin, vmax) = (0..d).fold((f64::INFINITY, 0.0f64), |(lo, hi), j| (lo.min(covf[j][j]), hi.max(covf[j][j])));
    let what = || format!("data set '{}' with {} rows, {} columns, columns {} (column variances {:.3e} .. {:.3e}, cond2 {:.1}, det = 2^{:.1}) rows {:?} [{}]", cat::BIG_DESIGNS[design], m, d, cat::BIG_COLSCALES[variant], vmin, vmax, cond, log2det.unwrap_or(f64::NAN), rows, T::NAME);
    mc::count("maha_data_large_sets");
    if variant != 0 {
        mc::count("maha_data_large_small_variance_sets");
    }
    if det_out {
        mc::count("maha_data_large_det_outside_range_of_type");
    }
    let md = match mc::guard(|| Distances::mahalanobis(&mc_sc::dm::<T>(&rows))) {
        Ok(v) => v,
        Err(p) => {
            viol!(construction_site("new", det_out), format!("{}: construction from full-rank, well-conditioned data failed: {}", what(), p.brief()));
            mc::nontrivial();
            mc::outcome(mc::hash::mix(0x22, 1));
            mc::describe(|| json!({"family": "mahalanobis from data, 8 / 12 columns of small spread", "type": T::NAME, "rows": rows, "sample_covariance": covf, "cond2": cond, "log2_det": log2det, "observed": p.brief()}));
            return;
        }
    };
    mc::count("maha_data_large_constructed");
    let Some(inv) = dd::inverse(&cov) else { panic!("reference inverse failed for full-rank data {:?}", rows) };
    let qraw: Vec<(String, Vec<f64>)> = cat::structured(d, false).into_iter().map(|(nm, v)| (nm, v.iter().zip(&cscale).map(|(x, c)| x * c).collect())).collect();
    let q = build_cat::<T>(qraw, 1.0);
    let r = judge_all_pairs::<T>(&md, &inv, &q, d, cond, 0.0, "Mahalanobis(from data)", &what);
    mc::count_n("maha_data_large_pairs", r.distinct);
    mc::count_n("maha_data_large_pairs_in_tolerance", r.in_tol);
    mc::count("data_sets_full_rank");
    if big_info() {
        eprintln!("BIGINFO mdata {} d={} m={} '{}' {} cond={:.1} var={:.2e}..{:.2e} log2det={:.1} det_out={} pairs={} in_tol={} max_ratio={:.5} max_cond_units={:.3}", T::NAME, d, m, cat::BIG_DESIGNS[design], cat::BIG_COLSCALES[variant], cond, vmin, vmax, log2det.unwrap_or(f64::NAN), det_out, r.distinct, r.in_tol, r.max_ratio, r.max_cond_units);
    }
    mc::nontrivial();
    mc::outcome(mc::hash::mix(0x22, r.digest));
    mc::describe(|| json!({"family": "mahalanobis from data, 8 / 12 columns of small spread", "type": T::NAME, "design": cat::BIG_DESIGNS[design], "column_scaling": cat::BIG_COLSCALES[variant], "rows": rows, "sample_covariance": covf, "cond2": cond, "log2_det": log2det, "query_points": q.vals, "library_distances": r.dist}));
}

// ------------------------------------------------------------------------------------------------
// round 5: Mahalanobis from data with many rows (17 .. 113 quick, up to 1039 thorough): column means
// and covariances over more than one 16-row block, pairs of blocks, runs longer than 64. One
// execution = one data set (pattern, number of rows, common offset): one construction by the
// library, then every ordered pair and triple of 5 query points.

fn mdatam_exec<T: Fl>(job: &Job) {
    let d = job.u("d");
    let ms: Vec<usize> = job.params["ms"].as_array().expect("row counts").iter().map(|v| v.as_u64().expect("row count") as usize).collect();
    let offs: Vec<f64> = job.params["offs"].as_array().expect("offsets").iter().map(|v| v.as_f64().expect("numeric offset")).collect();
    let pats: Vec<usize> = job.params["patterns"].as_array().expect("patterns").iter().map(|v| v.as_u64().expect("pattern") as usize).collect();
    let m = ms[mc::choose(ms.len())];
    let pattern = pats[mc::choose(pats.len())];
    let off = offs[mc::choose(offs.len())];
    let rows_int = cat::many_rows_data(d, m, pattern);
    // guards of the family definition (machinery errors, not verdicts): full rank (exact), the
    // offset keeps the integers exact in T, and every column sum is an integer that T represents
    // exactly (so a correctly computed mean is the correctly rounded quotient, as in round 3)
    assert!(cat::full_rank_gram(&rows_int), "many-rows data set '{}' d={} m={} is rank deficient", cat::MANY_PATTERNS[pattern], d, m);
    let rows: Vec<Vec<f64>> = rows_int.iter().map(|r| r.iter().map(|v| T::of(v + off).f()).collect()).collect();
    for (r, ri) in rows.iter().zip(&rows_int) {
        for j in 0..d {
            assert!(r[j] - off == ri[j] && T::of(off).f() == off, "offset {} does not keep the integers exact in {}", off, T::NAME);
        }
    }
    for j in 0..d {
        let s: f64 = rows.iter().map(|r| r[j]).sum();
        assert!(s.abs() <= 1.0 / T::EPS, "column sum {} of the many-rows family is not exact in {}", s, T::NAME);
    }
    let cov = dd::sample_cov(&rows);
    let covf: cat::Mat = cov.iter().map(|r| r.iter().map(|v| v.to_f64()).collect()).collect();
    let cond = cond2_any_scale(&covf);
    assert!(cond <= 1e4, "many-rows data set '{}' d={} m={}: cond2 {} > 1e4", cat::MANY_PATTERNS[pattern], d, m, cond);
    let mu: Vec<f64> = (0..d).map(|j| rows.iter().map(|r| r[j]).sum::<f64>() / m as f64).collect();
    let spread2 = (0..d).fold(0.0f64, |s, j| s.max(covf[j][j]));
    // Tolerance of this family, in eps_T relative to the closed form: (8 + 2 d^2 + m) * cond2 (+ the
    // round-3 offset term). The term m * cond2 is what the m-term accumulations cost that define the
    // sample covariance: a recursive sum of m rounded products is accurate to (m-1) eps/2 relative
    // to the sum of the magnitudes at best (Higham, Accuracy and Stability, section 4.2), a relative perturbation of
    // that size of the covariance entries moves the distance by up to cond2 * d/2 times it — with
    // m <= 7 (16) rows in the older families this was covered by the constant. Observed on the
    // unchanged library: <= 6.3 eps at m = 113 (d = 1, cond2 = 1), growing like sqrt(m).
    // The second-order effect of a mean that is off by eps*|mean| (round 3) is 0.03 d cond2 units for
    // f32 at offset 1000 and nothing at offset 0.
    let extra_units = m as f64 * cond + if off != 0.0 { shift_extra_units::<T>(&mu, spread2, cond) } else { 0.0 };
    let what = || format!("data set '{}' with {} rows, {} column(s), common offset {} (column means {:?}, sample covariance {:?}, cond2 {:.2}) rows {:?} [{}]", cat::MANY_PATTERNS[pattern], m, d, off, mu, covf, cond, rows, T::NAME);
    mc::count("maha_many_rows_sets");
    if m > 64 {
        mc::count("maha_many_rows_sets_longer_than_64");
    }
    if m % 16 != 0 {
        mc::count("maha_many_rows_sets_with_partial_16_row_block");
    }
    let md = match mc::guard(|| Distances::mahalanobis(&mc_sc::dm::<T>(&rows))) {
        Ok(v) => v,
        Err(p) => {
            viol!("mahalanobis.new:panic", format!("{}: construction from full-rank, well-conditioned data failed: {}", what(), p.brief()));
            mc::nontrivial();
            mc::outcome(mc::hash::mix(0x23, 1));
            mc::describe(|| json!({"family": "mahalanobis from data, many rows", "type": T::NAME, "pattern": cat::MANY_PATTERNS[pattern], "rows": rows, "common_offset": off, "sample_covariance": covf, "cond2": cond, "observed": p.brief()}));
            return;
        }
    };
    let Some(inv) = dd::inverse(&cov) else { panic!("reference inverse failed for full-rank data {:?}", rows) };
    let qint = cat::many_rows_queries(d);
    let q = build_cat::<T>(qint.iter().enumerate().map(|(k, v)| (format!("q{}", k), v.iter().map(|x| x + off).collect())).collect(), 1.0);
    let r = judge_all_pairs::<T>(&md, &inv, &q, d, cond, extra_units, "Mahalanobis(from data)", &what);
    mc::count("data_sets_full_rank");
    mc::count_n("maha_many_rows_pairs", r.distinct);
    mc::count_n("maha_many_rows_pairs_in_tolerance", r.in_tol);
    // with an offset: the reference covariance must be translation invariant (machinery check), and
    // the library's distances must agree with its own result on the unshifted rows and points
    let mut agree = 0u64;
    if off != 0.0 {
        let rows0: Vec<Vec<f64>> = rows_int.iter().map(|r| r.iter().map(|v| T::of(*v).f()).collect()).collect();
        let cov0 = dd::sample_cov(&rows0);
        for a in 0..d {
            for b in 0..d {
                let err = cov[a][b].sub(cov0[a][b]).to_f64().abs();
                assert!(err <= 1e-20 * (cov0[a][a].to_f64() * cov0[b][b].to_f64()).sqrt(), "reference covariance not translation invariant for rows {:?}", rows);
            }
        }
        match mc::guard(|| Distances::mahalanobis(&mc_sc::dm::<T>(&rows0))) {
            Ok(md0) => {
                let q0 = build_cat::<T>(qint.iter().map(|v| (String::new(), v.clone())).collect(), 1.0);
                let units0 = maha_tol_units(d, cond);
                let units = units0 + extra_units;
                for i in 0..q.typed.len() {
                    for j in 0..q.typed.len() {
                        let ds = r.dist[i][j];
                        if i == j || ds.is_nan() {
                            continue;
                        }
                        let refv = dd::diff(&q0.vals[i], &q0.vals[j]).quadratic(&inv).to_f64();
                        match mc::guard(|| md0.distance(&q0.typed[i], &q0.typed[j]).f()) {
                            Ok(d0) => {
                                if !((ds - d0).abs() <= (units + units0) * T::EPS * refv || ds == d0) {
                                    viol!(
                                        "mahalanobis.distance:translation-invariance",
                                        format!("Mahalanobis(from data) {} x={:?} y={:?}: d(x,y) = {:e} but the unshifted rows and points x={:?} y={:?} give {:e} (closed form of both {:e})", what(), q.vals[i], q.vals[j], ds, q0.vals[i], q0.vals[j], d0, refv),
                                    );
                                } else {
                                    agree += 1;
                                }
                            }
                            Err(p) => viol!("mahalanobis.distance:panic", format!("Mahalanobis(from data) rows {:?} x={:?} y={:?} [{}]: {}", rows0, q0.vals[i], q0.vals[j], T::NAME, p.brief())),
                        }
                    }
                }
            }
            Err(p) => viol!("mahalanobis.new:panic", format!("data rows {:?} [{}]: {}", rows0, T::NAME, p.brief())),
        }
        mc::count("maha_many_rows_shifted_sets");
    }
    mc::count_n("maha_many_rows_shifted_pairs_agree_with_unshifted", agree);
    if big_info() {
        eprintln!("BIGINFO mrows {} d={} m={} '{}' off={} cond={:.2} pairs={} in_tol={} max_ratio={:.5} max_cond_units={:.3} extra_units={:.3e}", T::NAME, d, m, cat::MANY_PATTERNS[pattern], off, cond, r.distinct, r.in_tol, r.max_ratio, r.max_cond_units, extra_units);
    }
    mc::nontrivial();
    mc::outcome(mc::hash::mix(0x23, r.digest));
    mc::describe(|| json!({"family": "mahalanobis from data, many rows", "type": T::NAME, "pattern": cat::MANY_PATTERNS[pattern], "rows_count": m, "rows": rows, "common_offset": off, "sample_covariance": covf, "cond2": cond, "query_points": q.vals, "library_distances": r.dist}));
}

// ------------------------------------------------------------------------------------------------
// mismatched lengths must be rejected (the distances return a plain number, so rejection = panic)

fn mismatch_exec<T: Fl>(_job: &Job) {
    let kind = mc::choose(15);
    let lx = mc::choose(5);
    let ly = mc::choose(5);
    let content = mc::choose(2);
    // content 0: the shorter vector is a prefix of the longer one (a zip-style truncation would
    // silently return 0); content 1: all values distinct
    let x: Vec<T> = (0..lx).map(|i| T::of((i + 1) as f64)).collect();
    let y: Vec<T> = (0..ly).map(|i| T::of(if content == 0 { (i + 1) as f64 } else { 10.0 + i as f64 })).collect();
    let (xi, yi): (Vec<i64>, Vec<i64>) = (x.iter().map(|v| v.f() as i64).collect(), y.iter().map(|v| v.f() as i64).collect());
    let (comp, label, expect_reject, r): (&str, String, bool, Result<f64, mc::PanicInfo>) = if kind < 12 {
        let m = METS[kind];
        let r = mc::guard(|| match m {
            Met::Eu => Euclidian {}.distance(&x, &y).f(),
            Met::Ma => Manhattan {}.distance(&x, &y).f(),
            Met::Mi(p) => Minkowski { p }.distance(&x, &y).f(),
            Met::HaF => <Hamming as Distance<Vec<T>, T>>::distance(&Hamming {}, &x, &y).f(),
            Met::HaI => <Hamming as Distance<Vec<i64>, T>>::distance(&Hamming {}, &xi, &yi).f(),
            Met::MhI => unreachable!(),
        });
        (m.comp(), m.label(), lx != ly, r)
    } else {
        let dim = kind - 11; // 1..=3
        let cov: Vec<Vec<f64>> = (0..dim).map(|a| (0..dim).map(|b| if a == b { 2.0 } else { 0.5 }).collect()).collect();
        let md = match mc::guard(|| Mahalanobis::new_from_covariance(&mc_sc::dm::<T>(&cov))) {
            Ok(m) => m,
            Err(p) => {
                viol!("mahalanobis.new_from_covariance:panic", format!("covariance {:?} [{}]: {}", cov, T::NAME, p.brief()));
                return;
            }
        };
        let r = mc::guard(|| md.distance(&x, &y).f());
        ("mahalanobis", format!("Mahalanobis(covariance of order {})", dim), lx != dim || ly != dim, r)
    };
    let xs: Vec<f64> = x.iter().map(|v| v.f()).collect();
    let ys: Vec<f64> = y.iter().map(|v| v.f()).collect();
    match (&r, expect_reject) {
        (Ok(v), true) => {
            viol!(format!("{}.distance:mismatched-lengths-accepted", comp), format!("{} [{}]: x={:?} (length {}) y={:?} (length {}) was not rejected, returned {:e}", label, T::NAME, xs, lx, ys, ly, v));
        }
        (Err(p), false) => {
            viol!(format!("{}.distance:panic", comp), format!("{} [{}]: x={:?} y={:?} of matching length: {}", label, T::NAME, xs, ys, p.brief()));
        }
        (Err(_), true) => mc::count("mismatched_lengths_rejected"),
        (Ok(_), false) => mc::count("matching_lengths_accepted"),
    }
    mc::nontrivial();
    mc::outcome(mc::hash::mix(0x20, match &r {
        Ok(v) => mc::hash::canon_bits(*v),
        Err(_) => 1,
    }));
    mc::describe(|| json!({"family": "mismatched lengths", "type": T::NAME, "metric": label, "x": xs, "y": ys, "expected": if expect_reject { "rejected (panic)" } else { "accepted" }, "observed": match &r { Ok(v) => format!("returned {:e}", v), Err(p) => p.brief() }}));
}

// ------------------------------------------------------------------------------------------------

fn dispatch(job: &Job) {
    REPORTED.with(|r| {
        let mut r = r.borrow_mut();
        if r.0 != job.name {
            r.0 = job.name.clone();
            r.1.clear();
        }
    });
    let f32_ = job.s("ty") == "f32";
    match (job.kind(), f32_) {
        ("lp", false) => lp_exec::<f64>(job),
        ("lp", true) => lp_exec::<f32>(job),
        ("mcov", false) => mcov_exec::<f64>(job),
        ("mcov", true) => mcov_exec::<f32>(job),
        ("mdata", false) => mdata_exec::<f64>(job),
        ("mdata", true) => mdata_exec::<f32>(job),
        ("mcovl", false) => mcovl_exec::<f64>(job),
        ("mcovl", true) => mcovl_exec::<f32>(job),
        ("mdatal", false) => mdatal_exec::<f64>(job),
        ("mdatal", true) => mdatal_exec::<f32>(job),
        ("mdatam", false) => mdatam_exec::<f64>(job),
        ("mdatam", true) => mdatam_exec::<f32>(job),
        ("mismatch", false) => mismatch_exec::<f64>(job),
        ("mismatch", true) => mismatch_exec::<f32>(job),
        (other, _) => panic!("unknown job kind {}", other),
    }
}

const TYPES: [&str; 2] = ["f64", "f32"];

/// lp jobs for one vector catalogue of `count` vectors, split into chunks of x. Every job with the
/// triangle clause fills the whole table of library distances of its catalogue once, so the chunks
/// are kept coarse.
#[allow(clippy::too_many_arguments)]
fn push_lp(jobs: &mut Vec<Job>, src: &str, alpha: &str, len: usize, full: bool, count: usize, chunks: usize, tri: bool, sc10: i64, sc2: i64, ty: &str, seed: u64) {
    let chunks = chunks.max(1).min(count.max(1));
    for c in 0..chunks {
        let (lo, hi) = (count * c / chunks, count * (c + 1) / chunks);
        let what = match src {
            "lattice" => format!("{}^{}", alpha, len),
            "wide" => format!("wide-range{}-n{}", if full { "-full" } else { "" }, len),
            _ => format!("structured{}-n{}", if full { "-full" } else { "" }, len),
        };
        let name = format!("lp-{}{}-x1e{}x2^{}-{}-part{}of{}", what, if tri { "" } else { "-pairs" }, sc10, sc2, ty, c + 1, chunks);
        jobs.push(Job::new(name, json!({"kind": "lp", "src": src, "alpha": alpha, "len": len, "full": full, "tri": tri, "sc10": sc10, "sc2": sc2, "ty": ty, "lo": lo, "hi": hi, "seed": seed})));
    }
}

/// Round 2: exponents k of the overall factors 2^k applied to covariance matrices (query vectors
/// * 2^(k/2)) — all even, none in the older {0, ±20} (f64: nor ±40 of the thorough tier's
/// uncompensated family; here the vectors are rescaled too, which is a different input).
fn rescale_exponents(ty: &str) -> &'static [i64] {
    if ty == "f32" {
        &[-20, -30, 20]
    } else {
        &[-40, -60, 40, 60]
    }
}

/// Round 3: the common offset vectors of the shifted from-data families (one entry per column).
/// Equal offsets 1e3, 1e6, 1e8 (f64) / 100, 1000, 4096 (f32) in every coordinate — with lattice
/// spacing 1 that is |mean|/spread up to 1e8 resp. 4096, where |mean|^2 eps is about 2 — and vectors
/// with a different offset (sign, magnitude) per coordinate. Every entry and every entry ± 2 is an
/// integer exactly representable in the type.
fn shift_offsets(ty: &str, d: usize) -> Vec<Vec<f64>> {
    let (equal, mixed): (&[f64], &[f64]) = if ty == "f32" { (&[100.0, 1000.0, 4096.0], &[1000.0, -300.0, 4096.0]) } else { (&[1e3, 1e6, 1e8], &[1e6, -3e5, 1e8]) };
    let mut out: Vec<Vec<f64>> = equal.iter().map(|o| vec![*o; d]).collect();
    match d {
        // d = 1: a negative offset as the fourth member
        1 => out.push(vec![mixed[1]]),
        // (1e6, -3e5), and one hugely offset column next to a centred one
        2 => {
            out.push(vec![mixed[0], mixed[1]]);
            out.push(vec![0.0, mixed[2]]);
        }
        _ => out.push((0..d).map(|j| mixed[j % 3]).collect()),
    }
    out
}

/// Round 4: exponents k of the overall covariance scales 2^k of the larger-order family (variance
/// 1, 0.008, 6e-5, 1e-6, 9e-13 on the diagonal of the identity; both types — the smallest entry of any
/// family member is 1e-3 * 2^-40 = 2^-50, a normal number of f32 as well).
const LARGE_COV_EXP: &[i64] = &[0, -7, -14, -20, -40];

const ALL_SCALES: &[i64] = &[0, -6, 6];
const UNIT_SCALE: &[i64] = &[0];

impl Harness for C17 {
    fn id(&self) -> &'static str {
        "C17"
    }

    fn plan(&self, tier: Tier, seed: u64) -> Plan {
        let t = tier.is_thorough();
        let mut jobs: Vec<Job> = Vec::new();
        for ty in TYPES {
            jobs.push(Job::new(format!("mismatch-{}", ty), json!({"kind": "mismatch", "ty": ty})));
        }
        // ---- lattices: (alphabet, len, chunks, with triangle clause, scales, types) simplest first.
        // With the triangle clause every ordered triple of the lattice is covered; the largest
        // lattices (thorough) are enumerated as pairs only.
        type L = (&'static str, usize, usize, bool, &'static [i64], &'static [&'static str]);
        let lattices: Vec<L> = if t {
            vec![
                ("S5", 1, 1, true, ALL_SCALES, &TYPES),
                ("S9", 1, 1, true, ALL_SCALES, &TYPES),
                ("S5", 2, 1, true, ALL_SCALES, &TYPES),
                ("S9", 2, 1, true, ALL_SCALES, &TYPES),
                ("S3", 3, 1, true, ALL_SCALES, &TYPES),
                ("MIX", 2, 1, true, UNIT_SCALE, &TYPES),
                ("S5", 3, 2, true, ALL_SCALES, &TYPES),
                ("MIX", 3, 2, true, UNIT_SCALE, &TYPES),
                ("S3", 4, 1, true, ALL_SCALES, &TYPES),
                ("S3", 5, 4, true, ALL_SCALES, &TYPES),
                ("S5", 4, 16, true, ALL_SCALES, &TYPES),
                ("MIX", 4, 16, true, UNIT_SCALE, &TYPES),
                ("S9", 3, 16, true, UNIT_SCALE, &TYPES),
                ("S3", 6, 16, true, UNIT_SCALE, &TYPES),
                ("S3", 7, 24, false, ALL_SCALES, &TYPES),
                ("S5", 5, 48, false, UNIT_SCALE, &TYPES),
                ("S9", 4, 192, false, UNIT_SCALE, &["f64"]),
            ]
        } else {
            vec![
                ("S5", 1, 1, true, ALL_SCALES, &TYPES),
                ("S5", 2, 1, true, ALL_SCALES, &TYPES),
                ("S3", 3, 1, true, ALL_SCALES, &TYPES),
                ("MIX", 2, 1, true, UNIT_SCALE, &TYPES),
                ("S5", 3, 2, true, ALL_SCALES, &TYPES),
                ("S3", 4, 1, true, ALL_SCALES, &TYPES),
                ("MIX", 3, 2, true, UNIT_SCALE, &TYPES),
                ("S3", 5, 4, true, ALL_SCALES, &TYPES),
            ]
        };
        for (alpha, len, chunks, tri, scales, types) in &lattices {
            let count = cat::alphabet(alpha).len().pow(*len as u32);
            for sc10 in scales.iter() {
                for ty in types.iter() {
                    push_lp(&mut jobs, "lattice", alpha, *len, false, count, *chunks, *tri, *sc10, 0, ty, seed);
                }
            }
        }
        // ---- extreme magnitudes: squares / powers of the differences leave the range of T
        let extreme: [(&str, &[i64]); 2] = [("f64", &[520, -520, -540, 600, -600]), ("f32", &[70, -70, -80, 100, -100])];
        for (ty, exps) in extreme {
            for sc2 in exps {
                for len in 1..=(if t { 3 } else { 2 }) {
                    push_lp(&mut jobs, "lattice", "S3", len, false, 3usize.pow(len as u32), 1, true, 0, *sc2, ty, seed);
                }
            }
        }
        // ---- structured vectors, every length 1..30
        for n in 1..=30usize {
            let count = cat::structured(n, t).len();
            for sc10 in [0i64, -6, 6] {
                for ty in TYPES {
                    push_lp(&mut jobs, "structured", "-", n, t, count, 1, true, sc10, 0, ty, seed);
                }
            }
        }
        // ---- Mahalanobis from covariance matrices
        let cov_scales: &[i64] = if t { &[0, 20, -20, 40, -40] } else { &[0, 20, -20] };
        let set3 = if t { "spd3t" } else { "spd3q" };
        let n3 = if t { cat::spd3(3, &[0, 1, -1, 2, -2]).len() } else { cat::spd3(2, &[0, 1, -1]).len() };
        let n4 = if t { cat::spd4().len() } else { 0 };
        for ty in TYPES {
            for cs2 in cov_scales {
                for sc10 in [0i64, -6, 6] {
                    jobs.push(Job::new(format!("mcov-spd2-cov2^{}-x1e{}-{}", cs2, sc10, ty), json!({"kind": "mcov", "set": "spd2", "dim": 2, "queries": "S5", "cs2": cs2, "sc10": sc10, "ty": ty})));
                    let chunks = if t { 16 } else { 2 };
                    for c in 0..chunks {
                        jobs.push(Job::new(
                            format!("mcov-{}-cov2^{}-x1e{}-{}-part{}of{}", set3, cs2, sc10, ty, c + 1, chunks),
                            json!({"kind": "mcov", "set": set3, "dim": 3, "queries": "S3", "cs2": cs2, "sc10": sc10, "ty": ty, "mlo": n3 * c / chunks, "mhi": n3 * (c + 1) / chunks}),
                        ));
                    }
                }
            }
            if t {
                // every small integer SPD 4x4 on S3^4 (6561 pairs x 81 z per matrix)
                let chunks = 32;
                for c in 0..chunks {
                    jobs.push(Job::new(
                        format!("mcov-spd4-cov2^0-x1e0-{}-part{}of{}", ty, c + 1, chunks),
                        json!({"kind": "mcov", "set": "spd4", "dim": 4, "queries": "S3", "cs2": 0, "sc10": 0, "ty": ty, "mlo": n4 * c / chunks, "mhi": n4 * (c + 1) / chunks}),
                    ));
                }
            }
            for n in 4..=(if t { 12 } else { 8 }) {
                for sc10 in [0i64, 6] {
                    jobs.push(Job::new(format!("mcov-structured-n{}-x1e{}-{}", n, sc10, ty), json!({"kind": "mcov", "set": "struct", "dim": n, "queries": "structured", "cs2": 0, "sc10": sc10, "ty": ty})));
                }
            }
            // ---- round 2: tiny and huge overall scales. Covariance * 2^k with the query vectors
            // * 2^(k/2) (k even, so both factors are exact and the distances are those of k = 0; the
            // condition number does not change, so the same relative tolerance applies).
            for cs2 in rescale_exponents(ty) {
                jobs.push(Job::new(
                    format!("mcov-rescaled-spd2-cov2^{}-x2^{}-{}", cs2, cs2 / 2, ty),
                    json!({"kind": "mcov", "set": "spd2", "dim": 2, "queries": "S5", "cs2": cs2, "sc10": 0, "sc2": cs2 / 2, "ty": ty, "xs": true}),
                ));
                if t {
                    let chunks = 16;
                    for c in 0..chunks {
                        jobs.push(Job::new(
                            format!("mcov-rescaled-{}-cov2^{}-x2^{}-{}-part{}of{}", set3, cs2, cs2 / 2, ty, c + 1, chunks),
                            json!({"kind": "mcov", "set": set3, "dim": 3, "queries": "S3", "cs2": cs2, "sc10": 0, "sc2": cs2 / 2, "ty": ty, "xs": true, "mlo": n3 * c / chunks, "mhi": n3 * (c + 1) / chunks}),
                        ));
                    }
                }
            }
        }
        // ---- Mahalanobis from data: (d, m, ordered sequences / multisets, data scales 2^k, types)
        const DS_ALL: &[i64] = &[0, 20, -20];
        // round 2: data (and query points) * 2^k at tiny and huge scales; the f32 exponents that
        // DS_ALL already contains are not repeated in the thorough tier
        const DS_X64: &[i64] = &[-40, -60, 40, 60];
        const DS_X32: &[i64] = &[-20, -30, 20];
        const DS_X32T: &[i64] = &[-30];
        const F64: &[&str] = &["f64"];
        const F32: &[&str] = &["f32"];
        type D = (usize, usize, bool, &'static [i64], &'static [&'static str]);
        let mut data: Vec<D> = if t {
            vec![
                (1, 2, true, DS_ALL, &TYPES),
                (1, 3, true, DS_ALL, &TYPES),
                (1, 4, true, DS_ALL, &TYPES),
                (1, 5, true, DS_ALL, &TYPES),
                (2, 3, true, DS_ALL, &TYPES),
                (2, 4, true, DS_ALL, &TYPES),
                (2, 5, true, DS_ALL, &TYPES),
                (2, 6, true, UNIT_SCALE, &TYPES),
                (2, 7, false, DS_ALL, &TYPES),
                (3, 4, true, DS_ALL, &TYPES),
                (3, 5, false, DS_ALL, &TYPES),
                (3, 5, true, UNIT_SCALE, &["f64"]),
            ]
        } else {
            vec![
                (1, 2, true, UNIT_SCALE, &TYPES),
                (1, 3, true, UNIT_SCALE, &TYPES),
                (1, 4, true, UNIT_SCALE, &TYPES),
                (2, 3, true, UNIT_SCALE, &TYPES),
                (2, 4, true, UNIT_SCALE, &TYPES),
                (2, 5, true, UNIT_SCALE, &TYPES),
                (3, 4, false, UNIT_SCALE, &TYPES),
            ]
        };
        let rescaled_shapes: &[(usize, usize, bool)] = if t {
            &[(1, 2, true), (1, 3, true), (1, 4, true), (1, 5, true), (2, 3, true), (2, 4, true), (2, 5, true), (2, 6, true), (2, 7, false), (3, 4, true), (3, 5, false)]
        } else {
            &[(1, 2, true), (1, 3, true), (1, 4, true), (2, 3, true), (2, 4, true), (2, 5, true)]
        };
        for (d, m, ordered) in rescaled_shapes {
            data.push((*d, *m, *ordered, DS_X64, F64));
            data.push((*d, *m, *ordered, if t { DS_X32T } else { DS_X32 }, F32));
        }
        // ---- round 3: the same data sets and query points shifted by a common offset vector
        // (translation invariance of the distance built from data; lattice spacing stays 1)
        let shifted_shapes: &[(usize, usize, bool)] = if t {
            &[(1, 2, true), (1, 3, true), (1, 4, true), (1, 5, true), (2, 3, true), (2, 4, true), (2, 5, true), (2, 6, true), (2, 7, false), (3, 4, true), (3, 5, false)]
        } else {
            &[(1, 2, true), (1, 3, true), (1, 4, true), (2, 3, true), (2, 4, true), (2, 5, true)]
        };
        let mut shifted_jobs: Vec<Job> = Vec::new();
        for (d, m, ordered) in shifted_shapes {
            let np = cat::data_points(*d).len();
            for ty in TYPES {
                for off in shift_offsets(ty, *d) {
                    let label = off.iter().map(|v| format!("{:e}", v)).collect::<Vec<_>>().join(",");
                    for r0 in 0..np {
                        shifted_jobs.push(Job::new(
                            format!("mdata-shifted-d{}-m{}-{}-off({})-{}-first{}", d, m, if *ordered { "sequences" } else { "multisets" }, label, ty, r0),
                            json!({"kind": "mdata", "d": d, "m": m, "ordered": ordered, "ds2": 0, "ty": ty, "r0": r0, "off": off}),
                        ));
                    }
                }
            }
        }
        for (d, m, ordered, dscales, types) in &data {
            let np = cat::data_points(*d).len();
            for ds2 in dscales.iter() {
                for ty in types.iter() {
                    for r0 in 0..np {
                        jobs.push(Job::new(
                            format!("mdata-d{}-m{}-{}-x2^{}-{}-first{}", d, m, if *ordered { "sequences" } else { "multisets" }, ds2, ty, r0),
                            json!({"kind": "mdata", "d": d, "m": m, "ordered": ordered, "ds2": ds2, "ty": ty, "r0": r0}),
                        ));
                    }
                }
            }
        }
        jobs.extend(shifted_jobs);
        // ---- round 4: larger orders combined with small variances (one execution = one matrix /
        // one data set; one construction by the library, all pairs and triples of the vector
        // catalogue inside). Covariance * 2^k with the vectors * 2^floor(k/2), an exact power of two
        // within a factor sqrt(2) of sqrt(2^k), so the distances stay O(1).
        let large_orders: Vec<usize> = if t { (9..=30).collect() } else { vec![12, 16, 24, 30] };
        for n in &large_orders {
            for cs2 in LARGE_COV_EXP {
                for ty in TYPES {
                    let sc2 = cs2.div_euclid(2);
                    jobs.push(Job::new(
                        format!("mcov-large-n{}-cov2^{}-x2^{}-{}", n, cs2, sc2, ty),
                        json!({"kind": "mcovl", "dim": n, "cs2": cs2, "sc10": 0, "sc2": sc2, "ty": ty, "full": t}),
                    ));
                }
            }
        }
        let large_data_cols: Vec<usize> = if t { (4..=16).collect() } else { vec![8, 12] };
        for d in &large_data_cols {
            for m in d + 2..=d + 4 {
                for ty in TYPES {
                    jobs.push(Job::new(format!("mdata-large-d{}-m{}-{}", d, m, ty), json!({"kind": "mdatal", "d": d, "m": m, "ty": ty})));
                }
            }
        }
        // ---- round 5 (a): Mahalanobis from data with many rows. Quick: one job per (d, type) with
        // every (row count, pattern, offset) as its executions; thorough: one job per (d, type, pattern).
        let many_ms = cat::many_rows_counts(t);
        let many_ds: Vec<usize> = if t { vec![1, 2, 3, 4] } else { vec![1, 2, 3] };
        let many_patterns: Vec<usize> = if t { vec![0, 1, 2] } else { vec![0, 1] };
        let many_offsets = |ty: &str| -> Vec<f64> {
            match (t, ty) {
                (false, _) => vec![0.0, 1000.0],
                (true, "f32") => vec![0.0, 1000.0, 4096.0, -300.0],
                (true, _) => vec![0.0, 1000.0, 1e6, -3e5],
            }
        };
        for d in &many_ds {
            for ty in TYPES {
                let groups: Vec<Vec<usize>> = if t { many_patterns.iter().map(|p| vec![*p]).collect() } else { vec![many_patterns.clone()] };
                for g in groups {
                    let label = g.iter().map(|p| p.to_string()).collect::<Vec<_>>().join("+");
                    jobs.push(Job::new(format!("mdata-manyrows-d{}-patterns{}-{}", d, label, ty), json!({"kind": "mdatam", "d": d, "ms": many_ms, "patterns": g, "offs": many_offsets(ty), "ty": ty})));
                }
            }
        }
        // ---- round 5 (b): vectors whose components differ by many orders of magnitude (one large
        // and one tiny coordinate; pairs that differ only in the tiny one), all 13 metrics, every
        // ordered pair and triple of the catalogue
        let wide_lens: &[usize] = if t { &[2, 3, 4] } else { &[2, 3] };
        for len in wide_lens {
            for ty in TYPES {
                let count = cat::wide(ty, *len, t).len();
                push_lp(&mut jobs, "wide", "-", *len, t, count, if count > 100 { 4 } else { 1 }, true, 0, 0, ty, seed);
            }
        }
        Plan {
            jobs,
            budget_s: if t { 2700 } else { 40 },
            case_deadline_ms: 20_000,
            floors: vec![
                ("pairs_distinct_vectors", 10_000),
                ("pairs_identical_vectors", 500),
                ("pairs_one_coordinate_differs", 500),
                ("triples_checked", 1_000_000),
                ("triangle_tight", 1_000),
                ("coincidence_checks", 10_000),
                ("mismatched_lengths_rejected", 100),
                ("matching_lengths_accepted", 20),
                ("maha_nonidentity_covariance", 1_000),
                ("data_sets_full_rank", 1_000),
                ("data_sets_rank_deficient_skipped", 100),
                ("intermediate_out_of_range_cases", 100),
                ("symmetry_bit_exact", 10_000),
                ("maha_cov_rescaled_pairs", 100_000),
                ("maha_cov_rescaled_pairs_in_tolerance", 100_000),
                ("maha_data_rescaled_sets", 100_000),
                ("maha_data_shifted_sets", 100_000),
                ("maha_data_shifted_pairs_in_tolerance", 10_000_000),
                ("maha_data_shifted_pairs_agree_with_unshifted", 10_000_000),
                // round 4 (quick: 280 / 108 / 84 840 / 240 / 75 / 72 720)
                ("maha_large_order_constructed", 200),
                ("maha_large_order_constructed_det_outside_range", 80),
                ("maha_large_order_pairs_in_tolerance", 60_000),
                ("maha_data_large_constructed", 150),
                ("maha_data_large_det_outside_range_of_type", 50),
                ("maha_data_large_pairs_in_tolerance", 50_000),
                // round 5 (quick: 288 / 96 / 5760 / 2880; 96 / 736 + replays of known-finding cases)
                ("maha_many_rows_sets", 250),
                ("maha_many_rows_sets_longer_than_64", 80),
                ("maha_many_rows_pairs_in_tolerance", 5_000),
                ("maha_many_rows_shifted_pairs_agree_with_unshifted", 2_500),
                ("wide_range_tiny_gap_pairs", 90),
                ("wide_range_tiny_gap_checks_in_tolerance", 700),
            ],
            bounds: json!({
                "types": "f64 and f32 for every family",
                "metrics": "Euclidian, Manhattan, Minkowski p=1..8, Hamming over float and over i64 elements, Mahalanobis(identity) on every pair; Mahalanobis from covariance / from data in their own families",
                "lattices": lattices.iter().map(|(a, l, _, tri, sc, ty)| format!("{}^{} ({}; {} scale(s); {})", a, l, if *tri { "pairs and triples" } else { "pairs only" }, sc.len(), ty.join("+"))).collect::<Vec<_>>(),
                "lattice_scales": "1, 1e-6, 1e6 where 3 scales are listed; alphabet MIX = {0,1,-1e6,1e-6,-3} mixes magnitudes inside a vector",
                "extreme_scales": "S3^len (len<=2 quick / 3 thorough) times 2^{±520,-540,±600} (f64), 2^{±70,-80,±100} (f32)",
                "pairs_and_triples": "every ordered pair (x,y) of each catalogue is one execution; inside it every z of the catalogue is used for the triangle inequality (library distances d(x,z), d(z,y) come from a per-job table filled by real library calls), so every ordered triple is covered — except for the lattices marked 'pairs only'",
                "structured": format!("every length 1..30, {} catalogue (zero, ones, ramps, alternating, unit vectors, one-coordinate modifications incl. +1e-9, mixed magnitudes, fractions), scales 1, 1e-6, 1e6", if t { "full" } else { "reduced" }),
                "mahalanobis_covariance": format!("every integer SPD 2x2 with |entries|<=3 on S5^2; every integer SPD 3x3 with {} and cond2<=1e4 on S3^3; structured SPD families (identity, Toeplitz(2,-1), min(i,j), rank-one+ridge, graded diagonal, D*T*D) of order 4..{}; covariance scaled by 2^k, k in {:?}; vector scales 1, 1e-6, 1e6", if t { "diag 1..3, off-diag in -2..2" } else { "diag 1..2, off-diag in -1..1" }, if t { 12 } else { 8 }, cov_scales),
                "mahalanobis_data": format!("rows from S5 (d=1) / S3^d (d=2,3); (d, m, sequences|multisets, data scales 2^k, types): {:?}; every data set with positive-definite sample covariance; all pairs and triples of the lattice (d<=2) / 8 fixed points (d=3) as arguments", data.iter().map(|(d, m, o, sc, ty)| format!("d={} m={} {} 2^{:?} {}", d, m, if *o { "sequences" } else { "multisets" }, sc, ty.join("+"))).collect::<Vec<_>>()),
                "mahalanobis_tiny_and_huge_scales": format!("round 2 — new_from_covariance: every integer SPD 2x2 with |entries|<=3{} times 2^k with the query lattice times 2^(k/2), k in {:?} (f64) / {:?} (f32), all pairs and triples; from-data constructor: the (d, m) families {:?} with data rows and query points times 2^k, k in {:?} (f64) / {:?} (f32){}; same double-double closed form and the same (8+2n^2)*cond2 eps relative tolerance (cond2 is scale-invariant)", if t { " and every integer SPD 3x3 of the thorough set" } else { "" }, rescale_exponents("f64"), rescale_exponents("f32"), rescaled_shapes.iter().map(|(d, m, o)| format!("d={} m={} {}", d, m, if *o { "sequences" } else { "multisets" })).collect::<Vec<_>>(), DS_X64, DS_X32, if t { " (f32 at 2^±20 is part of the older data-scale list)" } else { "" }),
                "mahalanobis_data_common_offset": format!("round 3 — from-data constructor on the (d, m) families {:?} (every sequence / multiset of lattice rows with positive-definite sample covariance) with one common offset vector added to every data row and every query point, lattice spacing 1 kept exactly: offsets f64 d=1 {:?}, d=2 {:?}{}; f32 d=1 {:?}, d=2 {:?}{}; all ordered pairs and triples of the shifted query points; closed form (double-double, checked to be translation invariant to 1e-20), symmetry, d(x,x)=0, triangle, and agreement with the library's result on the unshifted data; tolerance (8+2d^2)*cond2 + cond2*eps*|mean|^2/max column variance, in eps relative", shifted_shapes.iter().map(|(d, m, o)| format!("d={} m={} {}", d, m, if *o { "sequences" } else { "multisets" })).collect::<Vec<_>>(), shift_offsets("f64", 1), shift_offsets("f64", 2), if t { format!(", d=3 {:?}", shift_offsets("f64", 3)) } else { String::new() }, shift_offsets("f32", 1), shift_offsets("f32", 2), if t { format!(", d=3 {:?}", shift_offsets("f32", 3)) } else { String::new() }),
                "mahalanobis_larger_orders_small_variances": format!("round 4 — new_from_covariance: the structured SPD families (identity, Toeplitz(2,-1), min(i,j), ones*ones'+I, ramp*ramp'+2I, graded diagonal 10^(-3i/(n-1)), D*Toeplitz*D; all 7 have cond2 <= 1e4 at every order used) of order {:?}, each times 2^k, k in {:?}, in f64 and f32 (no combination is skipped: the smallest matrix entry is 1e-3 * 2^-40, a normal f32), on the {} structured vector catalogue of that length times 2^floor(k/2); one execution = one matrix (one construction), every ordered pair and triple of the catalogue inside. From data (Distances::mahalanobis): d in {:?} columns, m = d+2..d+4 rows, the {} deterministic integer designs {:?} times the {} column scalings {:?} (column variances about 1e-5..3e-4, resp. 1e-7..3e-6 for 2^-10; 'x1' is the control), f64 and f32, every ordered pair and triple of the reduced structured catalogue of length d scaled per column. Construction must succeed (site mahalanobis.new_from_covariance|new:panic, or :panic-large-order-small-variance when the determinant — about variance^order — lies outside the normal range of the type although cond2 <= 1e4); then the same double-double closed form, axioms and (8+2n^2)*cond2 eps tolerance as the older Mahalanobis families", large_orders, LARGE_COV_EXP, if t { "full" } else { "reduced" }, large_data_cols, cat::BIG_DESIGNS.len(), cat::BIG_DESIGNS, cat::BIG_COLSCALES.len(), cat::BIG_COLSCALES),
                "mahalanobis_data_many_rows": format!("round 5 — from-data constructor (Distances::mahalanobis) on deterministic small-integer data sets with d in {:?} columns and m in {} rows (more than one 16-row block, pairs of blocks, runs longer than 64), patterns {:?} (entry of row i, column c; every data set checked exactly to be full rank, cond2 <= 1e4 asserted), each also with the common offset(s) {:?} (f64) / {:?} (f32) added to every row and query point (all values and column sums exact in the type), f64 and f32; every ordered pair and triple of 5 query points {:?}; double-double closed form, d(x,x)=0, symmetry, non-negativity, triangle, agreement with the library's result on the unshifted data; tolerance (8+2d^2+m)*cond2 eps relative (+ the round-3 offset term): the m-term accumulation of the sample covariance is accurate to (m-1) eps/2 at best", many_ds, if t { format!("17..=288 and {:?}", &many_ms[272..]) } else { format!("{:?}", many_ms) }, many_patterns.iter().map(|p| cat::MANY_PATTERNS[*p]).collect::<Vec<_>>(), &many_offsets("f64")[1..], &many_offsets("f32")[1..], cat::many_rows_queries(3)),
                "wide_range_vectors": format!("round 5 — all 13 metrics on every ordered pair and triple of the wide-range catalogue of length {:?}: one large coordinate L, one tiny coordinate g, fillers 0.5, -3; f32: L in {:?}, g in {:?}; f64: L in {:?}, g in {:?}; {}; pairs sharing L differ only by a gap 18..251 orders of magnitude below L and the distance must be that gap (not 0) unless a power of the gap itself leaves the range of the type (the known unscaled-powers findings: f32 gap 1e-20 for p >= 2, gap 1e-12 for p >= 4; f64 gap 2e-151 for p >= 3)", wide_lens, cat::wide_values("f32").0, cat::wide_values("f32").1, cat::wide_values("f64").0, cat::wide_values("f64").1, if t { "every ordered pair of positions for (L, g) and both signs of L" } else { "L first, g second, L positive (8 vectors per length and type)" }),
                "mismatched_lengths": "every metric x lengths 0..4 x 0..4 (Mahalanobis of order 1..3) x {prefix-consistent, distinct} contents",
                "seed": format!("perturbation {:?} (a*v+b) of the lattice alphabets", cat::perturbation(seed)),
            }),
        }
    }

    fn run(&self, job: &Job) {
        dispatch(job)
    }

    fn rule(&self) -> String {
        "one execution = one ordered pair of vectors (with every third vector of the catalogue for the triangle inequality) under one type, scale and catalogue — or one data set / one mismatched-length call; non-trivial when the two vectors differ (data sets: when full rank); distinct = distinct digest of the bit patterns of the distances the library returned".into()
    }

    fn assumptions(&self) -> Vec<String> {
        vec![
            "closed forms are evaluated in double-double arithmetic on exact coordinate differences, rescaled by a power of two (self-tested against exact integer arithmetic at start-up)".into(),
            "'up to rounding' = (8+n) eps for Euclidian/Manhattan, (8+n+|ln d|) eps for Minkowski, 2 eps for Hamming, (8+2n^2)*cond2 eps for Mahalanobis, relative to the closed form; the triangle inequality and symmetry get three times / once that slack".into(),
            "covariance from data = unbiased sample covariance (denominator m-1)".into(),
            "data with a common offset (round 3): the Mahalanobis allowance grows by cond2 * eps * |column means|^2 / (largest column variance) units — the second-order effect of a column mean that is off by up to eps*|mean|, which no two-pass covariance can avoid; the differences x - y of the shifted points are exact. A one-pass covariance is off by 1/eps times that".into(),
            "larger orders x small variances (round 4): a structured SPD matrix with cond2 <= 1e4 whose entries are all normal numbers of the type, and a data set whose double-double sample covariance has cond2 <= 1e4, are valid inputs of the constructors, whatever the magnitude of the determinant; a panic (the constructors unwrap the Result of the LU inverse, so an Err is a panic too) is a violation".into(),
            "many rows (round 5): the Mahalanobis allowance of the from-data family with m >= 17 rows is (8+2d^2+m)*cond2 eps — a recursive m-term sum of rounded products is accurate to (m-1) eps/2 relative to the sum of magnitudes at best; the library uses at most 7 % of it".into(),
            "wide-range vectors (round 5): for vectors that share a large coordinate and differ only in a tiny one the closed form is the tiny gap itself (asserted on the reference), and it is demanded whenever the powers of the gap are normal numbers of the type (otherwise the case belongs to the input class of the known unscaled-powers findings)".into(),
            "rejection of mismatched lengths = panic (the API returns a bare number)".into(),
            "no library RNG is involved in this property".into(),
        ]
    }
}

fn main() {
    if let Err(e) = dd::self_test() {
        eprintln!("MACHINERY-ERROR: reference arithmetic self-test failed: {}", e);
        std::process::exit(2);
    }
    if let Err(e) = cat::self_test() {
        eprintln!("MACHINERY-ERROR: catalogue self-test failed: {}", e);
        std::process::exit(2);
    }
    mc::main(C17)
}
