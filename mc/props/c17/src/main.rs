//! C17 harness — to be written (see /verif/mc/HARNESS_GUIDE.md).
fn main() {
    eprintln!("MACHINERY-ERROR: harness C17 not built yet");
    std::process::exit(2);
}
