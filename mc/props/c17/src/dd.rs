//! Double-double arithmetic (about 106 significant bits) and the closed-form reference distances
//! built on it. Written for this harness only; shares no code with the library under test.
//!
//! Every reference takes the *exact* values of the inputs (f32 inputs are widened to f64, which is
//! exact), forms the coordinate differences exactly (two-sum), rescales them by a power of two so
//! that the largest one lies in [1,2) (exact; all the distances are homogeneous of degree one),
//! evaluates the closed form in double-double and returns mantissa and binary exponent
//! separately. The reference therefore neither overflows nor underflows and is accurate to about
//! 1e-28 relative, i.e. it can be treated as the true value when measuring errors in ulps.

#[derive(Clone, Copy, Debug)]
pub struct DD {
    pub hi: f64,
    pub lo: f64,
}

#[inline]
fn two_sum(a: f64, b: f64) -> (f64, f64) {
    let s = a + b;
    let bb = s - a;
    let e = (a - (s - bb)) + (b - bb);
    (s, e)
}

#[inline]
fn quick_two_sum(a: f64, b: f64) -> (f64, f64) {
    let s = a + b;
    let e = b - (s - a);
    (s, e)
}

#[inline]
fn two_prod(a: f64, b: f64) -> (f64, f64) {
    let p = a * b;
    let e = a.mul_add(b, -p);
    (p, e)
}

impl DD {
    pub const ZERO: DD = DD { hi: 0.0, lo: 0.0 };
    pub const ONE: DD = DD { hi: 1.0, lo: 0.0 };

    #[inline]
    pub fn from(a: f64) -> DD {
        DD { hi: a, lo: 0.0 }
    }
    /// exact a - b
    #[inline]
    pub fn exact_diff(a: f64, b: f64) -> DD {
        let (s, e) = two_sum(a, -b);
        DD { hi: s, lo: e }
    }
    #[inline]
    pub fn add(self, o: DD) -> DD {
        let (s, e) = two_sum(self.hi, o.hi);
        let (t, f) = two_sum(self.lo, o.lo);
        let (s, e) = quick_two_sum(s, e + t);
        let (s, e) = quick_two_sum(s, e + f);
        DD { hi: s, lo: e }
    }
    #[inline]
    pub fn neg(self) -> DD {
        DD { hi: -self.hi, lo: -self.lo }
    }
    #[inline]
    pub fn sub(self, o: DD) -> DD {
        self.add(o.neg())
    }
    #[inline]
    pub fn mul(self, o: DD) -> DD {
        let (p, e) = two_prod(self.hi, o.hi);
        let e = e + (self.hi * o.lo + self.lo * o.hi);
        let (s, e) = quick_two_sum(p, e);
        DD { hi: s, lo: e }
    }
    #[inline]
    pub fn mul_f(self, f: f64) -> DD {
        self.mul(DD::from(f))
    }
    pub fn div(self, o: DD) -> DD {
        let q1 = self.hi / o.hi;
        let r = self.sub(o.mul_f(q1));
        let q2 = r.hi / o.hi;
        let r = r.sub(o.mul_f(q2));
        let q3 = r.hi / o.hi;
        let (s, e) = quick_two_sum(q1, q2);
        DD { hi: s, lo: e }.add(DD::from(q3))
    }
    pub fn abs(self) -> DD {
        if self.hi < 0.0 || (self.hi == 0.0 && self.lo < 0.0) {
            self.neg()
        } else {
            self
        }
    }
    pub fn is_zero(self) -> bool {
        self.hi == 0.0 && self.lo == 0.0
    }
    pub fn sqrt(self) -> DD {
        if self.hi <= 0.0 {
            return DD::ZERO;
        }
        // one Newton step on the double approximation (Karp's trick)
        let x = 1.0 / self.hi.sqrt();
        let ax = self.hi * x;
        let axd = DD::from(ax);
        let r = self.sub(axd.mul(axd));
        axd.add(DD::from(r.hi * (x * 0.5)))
    }
    pub fn powi(self, p: u32) -> DD {
        let mut r = DD::ONE;
        for _ in 0..p {
            r = r.mul(self);
        }
        r
    }
    /// p-th root of a positive number: double start value, then Newton in double-double.
    pub fn root(self, p: u32) -> DD {
        if self.hi <= 0.0 {
            return DD::ZERO;
        }
        if p == 1 {
            return self;
        }
        if p == 2 {
            return self.sqrt();
        }
        let mut r = DD::from(self.hi.powf(1.0 / p as f64));
        for _ in 0..3 {
            // r <- r - (r^p - s) / (p r^(p-1))
            let rp1 = r.powi(p - 1);
            let num = rp1.mul(r).sub(self);
            let den = rp1.mul_f(p as f64);
            r = r.sub(num.div(den));
        }
        r
    }
    #[inline]
    pub fn to_f64(self) -> f64 {
        self.hi + self.lo
    }
    /// multiply by 2^e (exact unless the low part underflows, which is harmless)
    pub fn scale2(self, e: i32) -> DD {
        DD { hi: ldexp(self.hi, e), lo: ldexp(self.lo, e) }
    }
}

/// 2^e for -1022 <= e <= 1023
#[inline]
fn pow2(e: i32) -> f64 {
    debug_assert!((-1022..=1023).contains(&e));
    f64::from_bits(((e + 1023) as u64) << 52)
}

/// v * 2^e without intermediate overflow/underflow
pub fn ldexp(mut v: f64, mut e: i32) -> f64 {
    while e > 1000 {
        v *= pow2(1000);
        e -= 1000;
    }
    while e < -1000 {
        v *= pow2(-1000);
        e += 1000;
    }
    v * pow2(e)
}

/// floor(log2 |v|) for a finite non-zero v (handles subnormals)
pub fn ilog2(v: f64) -> i32 {
    let a = v.abs();
    let bits = a.to_bits();
    let ex = ((bits >> 52) & 0x7ff) as i32;
    if ex == 0 {
        // subnormal: normalise first
        let b = (a * pow2(200)).to_bits();
        (((b >> 52) & 0x7ff) as i32) - 1023 - 200
    } else {
        ex - 1023
    }
}

/// A real number m * 2^e with m in double-double.
#[derive(Clone, Copy, Debug)]
pub struct Val {
    pub m: DD,
    pub e: i32,
}

impl Val {
    pub fn to_f64(self) -> f64 {
        ldexp(self.m.hi, self.e) + ldexp(self.m.lo, self.e)
    }
}

/// The exact coordinate differences x - y, rescaled so that the largest lies in [1,2).
pub struct Diff {
    pub d: Vec<DD>,
    /// true difference i = d[i] * 2^e
    pub e: i32,
    /// all differences are zero (x and y are the same point)
    pub zero: bool,
}

pub fn diff(x: &[f64], y: &[f64]) -> Diff {
    assert_eq!(x.len(), y.len());
    let raw: Vec<DD> = x.iter().zip(y).map(|(a, b)| DD::exact_diff(*a, *b)).collect();
    let dmax = raw.iter().fold(0.0f64, |m, d| m.max(d.hi.abs()));
    if dmax == 0.0 {
        return Diff { d: raw, e: 0, zero: true };
    }
    let e = ilog2(dmax);
    Diff { d: raw.iter().map(|d| d.scale2(-e)).collect(), e, zero: false }
}

impl Diff {
    /// floor(log2(max_i |x_i - y_i|)); meaningless when `zero`
    pub fn log2_max(&self) -> i32 {
        self.e
    }
    pub fn euclid(&self) -> Val {
        let s = self.d.iter().fold(DD::ZERO, |s, d| s.add(d.mul(*d)));
        Val { m: s.sqrt(), e: self.e }
    }
    pub fn manhattan(&self) -> Val {
        let s = self.d.iter().fold(DD::ZERO, |s, d| s.add(d.abs()));
        Val { m: s, e: self.e }
    }
    pub fn minkowski(&self, p: u32) -> Val {
        let s = self.d.iter().fold(DD::ZERO, |s, d| s.add(d.abs().powi(p)));
        Val { m: s.root(p), e: self.e }
    }
    /// sqrt(dᵀ A d) for a symmetric matrix A given in double-double (A is the exact inverse
    /// covariance up to ~1e-30)
    pub fn quadratic(&self, a: &[Vec<DD>]) -> Val {
        let n = self.d.len();
        let mut s = DD::ZERO;
        for i in 0..n {
            for j in 0..n {
                s = s.add(a[i][j].mul(self.d[i]).mul(self.d[j]));
            }
        }
        Val { m: s.sqrt(), e: self.e }
    }
    pub fn mismatches(&self) -> usize {
        self.d.iter().filter(|d| !d.is_zero()).count()
    }
}

/// Inverse of a square matrix by Gauss-Jordan elimination with partial pivoting, in double-double.
pub fn inverse(a: &[Vec<DD>]) -> Option<Vec<Vec<DD>>> {
    let n = a.len();
    let mut m: Vec<Vec<DD>> = a
        .iter()
        .enumerate()
        .map(|(i, r)| {
            let mut row = r.clone();
            for j in 0..n {
                row.push(if i == j { DD::ONE } else { DD::ZERO });
            }
            row
        })
        .collect();
    for k in 0..n {
        let mut p = k;
        for i in k + 1..n {
            if m[i][k].hi.abs() > m[p][k].hi.abs() {
                p = i;
            }
        }
        if m[p][k].hi == 0.0 {
            return None;
        }
        m.swap(k, p);
        let piv = m[k][k];
        for j in 0..2 * n {
            m[k][j] = m[k][j].div(piv);
        }
        for i in 0..n {
            if i != k && !m[i][k].is_zero() {
                let f = m[i][k];
                for j in 0..2 * n {
                    let t = f.mul(m[k][j]);
                    m[i][j] = m[i][j].sub(t);
                }
            }
        }
    }
    Some(m.into_iter().map(|r| r[n..].to_vec()).collect())
}

/// log2 |det a| of a square matrix: Gaussian elimination with partial pivoting in double-double on
/// the matrix renormalised by a power of two (largest entry in [1,2)), summing the logarithms of the
/// pivots — so the determinant itself (which may be 2^-1200) is never formed. None: singular.
pub fn log2_abs_det(a: &[Vec<DD>]) -> Option<f64> {
    let n = a.len();
    let amax = a.iter().flatten().fold(0.0f64, |m, v| m.max(v.hi.abs()));
    if !(amax > 0.0 && amax.is_finite()) {
        return None;
    }
    let e = ilog2(amax);
    let mut m: Vec<Vec<DD>> = a.iter().map(|r| r.iter().map(|v| v.scale2(-e)).collect()).collect();
    let mut acc = 0.0f64;
    for k in 0..n {
        let mut p = k;
        for i in k + 1..n {
            if m[i][k].hi.abs() > m[p][k].hi.abs() {
                p = i;
            }
        }
        if m[p][k].hi == 0.0 {
            return None;
        }
        m.swap(k, p);
        let piv = m[k][k];
        acc += piv.hi.abs().log2();
        for i in k + 1..n {
            if !m[i][k].is_zero() {
                let f = m[i][k].div(piv);
                for j in k..n {
                    let t = f.mul(m[k][j]);
                    m[i][j] = m[i][j].sub(t);
                }
            }
        }
    }
    Some(acc + (n as f64) * (e as f64))
}

pub fn dd_mat(a: &[Vec<f64>]) -> Vec<Vec<DD>> {
    a.iter().map(|r| r.iter().map(|v| DD::from(*v)).collect()).collect()
}

/// Unbiased sample covariance (denominator m-1) of the rows, in double-double.
pub fn sample_cov(rows: &[Vec<f64>]) -> Vec<Vec<DD>> {
    let m = rows.len();
    let n = rows[0].len();
    let mu: Vec<DD> = (0..n).map(|j| rows.iter().fold(DD::ZERO, |s, r| s.add(DD::from(r[j]))).div(DD::from(m as f64))).collect();
    let mut c = vec![vec![DD::ZERO; n]; n];
    for i in 0..n {
        for j in 0..n {
            let mut s = DD::ZERO;
            for r in rows {
                s = s.add(DD::from(r[i]).sub(mu[i]).mul(DD::from(r[j]).sub(mu[j])));
            }
            c[i][j] = s.div(DD::from((m - 1) as f64));
        }
    }
    c
}

/// Self-test of the reference arithmetic against exact integer arithmetic; Err = machinery error.
pub fn self_test() -> Result<(), String> {
    // sqrt / roots
    for p in 1..=8u32 {
        for &v in &[2.0, 3.0, 17.0, 0.3, 65537.0, 1e-3] {
            let r = DD::from(v).root(p);
            let back = r.powi(p);
            let err = back.sub(DD::from(v)).to_f64().abs() / v;
            if !(err < 1e-28) {
                return Err(format!("dd root self-test: ({}^(1/{}))^{} off by {:e}", v, p, p, err));
            }
        }
    }
    // exact differences and scaling
    let d = diff(&[1e6, 1e-6, 3.0], &[1.0, 0.0, 3.0]);
    if d.zero || d.mismatches() != 2 || d.e != 19 {
        return Err("dd diff self-test".into());
    }
    if ilog2(1.0) != 0 || ilog2(0.75) != -1 || ilog2(f64::MIN_POSITIVE / 4.0) != -1024 || ldexp(1.5, -1030) != 1.5 * f64::MIN_POSITIVE / 256.0 {
        return Err("ilog2/ldexp self-test".into());
    }
    // 3-4-5, and a scaled version far outside the range of naive squaring
    let v = diff(&[ldexp(3.0, 900), 0.0], &[0.0, ldexp(-4.0, 900)]).euclid();
    if v.to_f64() != ldexp(5.0, 900) {
        return Err("dd euclid self-test".into());
    }
    // inverse against the exact adjugate/determinant
    let mats: [Vec<Vec<f64>>; 3] = [
        vec![vec![2.0, 1.0], vec![1.0, 3.0]],
        vec![vec![2.0, -1.0, 0.0], vec![-1.0, 2.0, -1.0], vec![0.0, -1.0, 2.0]],
        vec![vec![3.0, 2.0, 1.0, 0.0], vec![2.0, 3.0, 2.0, 1.0], vec![1.0, 2.0, 3.0, 2.0], vec![0.0, 1.0, 2.0, 7.0]],
    ];
    for a in mats.iter() {
        let inv = inverse(&dd_mat(a)).ok_or("dd inverse self-test: singular")?;
        let ia = mc_core::oracle::to_imat(a).unwrap();
        let (adj, det) = mc_core::oracle::iinverse(&ia).ok_or("exact inverse self-test: singular")?;
        for i in 0..a.len() {
            for j in 0..a.len() {
                let want = DD::from(adj[i][j] as f64).div(DD::from(det as f64));
                let err = inv[i][j].sub(want).to_f64().abs();
                if !(err < 1e-28) {
                    return Err(format!("dd inverse self-test: entry ({},{}) off by {:e}", i, j, err));
                }
            }
        }
    }
    // log2 |det| against exact integer determinants, also far outside the f64 range of the product
    let t4 = vec![vec![2.0, -1.0, 0.0, 0.0], vec![-1.0, 2.0, -1.0, 0.0], vec![0.0, -1.0, 2.0, -1.0], vec![0.0, 0.0, -1.0, 2.0]];
    let l = log2_abs_det(&dd_mat(&t4)).ok_or("log2 det self-test: singular")?;
    if (l - 5f64.log2()).abs() > 1e-12 {
        return Err(format!("log2 det self-test: det Toeplitz4 = 5, got 2^{}", l));
    }
    let tiny: Vec<Vec<f64>> = t4.iter().map(|r| r.iter().map(|v| ldexp(*v, -400)).collect()).collect();
    let l = log2_abs_det(&dd_mat(&tiny)).ok_or("log2 det self-test: singular")?;
    if (l - (5f64.log2() - 1600.0)).abs() > 1e-9 {
        return Err(format!("log2 det self-test: scaled determinant, got 2^{}", l));
    }
    Ok(())
}
