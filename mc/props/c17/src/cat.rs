//! Finite catalogues that the harness enumerates completely: vector lattices, structured vectors up
//! to length 30, symmetric positive-definite covariance matrices, lattice data sets.

use mc_core::oracle;

pub const S3: &[f64] = &[0.0, 1.0, -1.0];
pub const S5: &[f64] = &[0.0, 1.0, -1.0, 2.0, -2.0];
pub const S9: &[f64] = &[0.0, 1.0, -1.0, 2.0, -2.0, 3.0, -3.0, 4.0, -4.0];
/// large and tiny magnitudes inside one vector
pub const MIXED: &[f64] = &[0.0, 1.0, -1e6, 1e-6, -3.0];

pub fn alphabet(name: &str) -> &'static [f64] {
    match name {
        "S3" => S3,
        "S5" => S5,
        "S9" => S9,
        "MIX" => MIXED,
        other => panic!("unknown alphabet {}", other),
    }
}

/// VERIF_SEED selects one of 8 fixed affine perturbations v -> a*v + b of the lattice alphabets
/// (seed 0 = the plain alphabet). The perturbed space is enumerated completely, like the plain one.
pub fn perturbation(seed: u64) -> (f64, f64) {
    const P: [(f64, f64); 8] = [(1.0, 0.0), (1.0, 0.25), (3.0, 0.0), (1.0, -0.5), (0.1, 0.0), (7.0, 0.125), (1.0, 1e-3), (1.0 / 3.0, 0.0)];
    P[(seed % 8) as usize]
}

/// alphabet^len, first coordinate slowest, simplest vectors first
pub fn lattice(alpha: &[f64], len: usize) -> Vec<Vec<f64>> {
    let mut out = Vec::new();
    oracle::for_each_tuple(alpha, len, |t| out.push(t.to_vec()));
    out
}

fn dedup(vs: Vec<(String, Vec<f64>)>) -> Vec<(String, Vec<f64>)> {
    let mut seen: Vec<Vec<u64>> = Vec::new();
    let mut out = Vec::new();
    for (name, v) in vs {
        let key: Vec<u64> = v.iter().map(|x| (x + 0.0).to_bits()).collect();
        if !seen.contains(&key) {
            seen.push(key);
            out.push((name, v));
        }
    }
    out
}

/// Structured vectors of length n (named). `full` adds every unit vector and every
/// one-coordinate modification instead of three positions each.
pub fn structured(n: usize, full: bool) -> Vec<(String, Vec<f64>)> {
    let ramp: Vec<f64> = (0..n).map(|i| (i + 1) as f64).collect();
    let mut v: Vec<(String, Vec<f64>)> = Vec::new();
    v.push(("zero".into(), vec![0.0; n]));
    v.push(("ones".into(), vec![1.0; n]));
    v.push(("ramp".into(), ramp.clone()));
    v.push(("ramp-reversed".into(), ramp.iter().rev().cloned().collect()));
    v.push(("alternating".into(), (0..n).map(|i| if i % 2 == 0 { 1.0 } else { -1.0 }).collect()));
    v.push(("const -2.5".into(), vec![-2.5; n]));
    v.push(("ramp/10".into(), ramp.iter().map(|x| x * 0.1).collect()));
    v.push(("alternating ramp".into(), (0..n).map(|i| if i % 2 == 0 { (i + 1) as f64 } else { -((i + 1) as f64) }).collect()));
    let pos: Vec<usize> = if full {
        (0..n).collect()
    } else {
        let mut p = vec![0, n / 2, n - 1];
        p.dedup();
        p
    };
    for &i in &pos {
        let mut e = vec![0.0; n];
        e[i] = 1.0;
        v.push((format!("e{}", i), e));
    }
    for &i in &pos {
        let mut r = ramp.clone();
        r[i] += 1.0;
        v.push((format!("ramp+e{}", i), r));
    }
    for &i in &[0usize, n - 1] {
        let mut r = ramp.clone();
        r[i] += 1e-9;
        v.push((format!("ramp+1e-9*e{}", i), r));
    }
    v.push(("mixed magnitudes".into(), (0..n).map(|i| if i % 2 == 0 { 1e6 } else { -1e-6 }).collect()));
    v.push(("fractions".into(), (0..n).map(|i| ((i * 37 + 11) % 101) as f64 / 101.0 - 0.5).collect()));
    if full {
        v.push(("geometric 2^-i".into(), (0..n).map(|i| 0.5f64.powi(i as i32)).collect()));
        v.push(("geometric 2^i".into(), (0..n).map(|i| 2f64.powi(i as i32 % 20)).collect()));
        v.push(("-ramp".into(), ramp.iter().map(|x| -x).collect()));
        v.push(("thirds".into(), (0..n).map(|i| (i as f64 - 1.0) / 3.0).collect()));
    }
    dedup(v)
}

pub type Mat = Vec<Vec<f64>>;

fn is_spd_int(a: &Mat) -> bool {
    let ia = oracle::to_imat(a).expect("integer matrix");
    oracle::ileading_minors(&ia).iter().all(|d| *d > 0)
}

/// Every symmetric positive-definite integer 2x2 matrix with entries of absolute value <= 3
/// (identity first).
pub fn spd2() -> Vec<(String, Mat)> {
    let mut out = vec![("I2".to_string(), vec![vec![1.0, 0.0], vec![0.0, 1.0]])];
    for a in 1..=3 {
        for c in 1..=3 {
            for b in [0, 1, -1, 2, -2, 3, -3] {
                let m = vec![vec![a as f64, b as f64], vec![b as f64, c as f64]];
                if (a, b, c) != (1, 0, 1) && is_spd_int(&m) {
                    out.push((format!("[[{},{}],[{},{}]]", a, b, b, c), m));
                }
            }
        }
    }
    out
}

/// Every symmetric positive-definite integer 3x3 matrix with diagonal in 1..=dmax, off-diagonal
/// entries in `offs`, and 2-norm condition number <= 1e4 (identity first).
pub fn spd3(dmax: i32, offs: &[i32]) -> Vec<(String, Mat)> {
    let mut out = vec![("I3".to_string(), oracle::eye(3))];
    for d0 in 1..=dmax {
        for d1 in 1..=dmax {
            for d2 in 1..=dmax {
                for &a in offs {
                    for &b in offs {
                        for &c in offs {
                            if (d0, d1, d2, a, b, c) == (1, 1, 1, 0, 0, 0) {
                                continue;
                            }
                            let m = vec![vec![d0 as f64, a as f64, b as f64], vec![a as f64, d1 as f64, c as f64], vec![b as f64, c as f64, d2 as f64]];
                            if is_spd_int(&m) && oracle::cond2(&m) <= 1e4 {
                                out.push((format!("diag({},{},{}) off({},{},{})", d0, d1, d2, a, b, c), m));
                            }
                        }
                    }
                }
            }
        }
    }
    out
}

/// Every symmetric positive-definite integer 4x4 matrix with diagonal in 1..=2, off-diagonal entries
/// in {0,1,-1} and 2-norm condition number <= 1e4 (identity first).
pub fn spd4() -> Vec<(String, Mat)> {
    let mut out = vec![("I4".to_string(), oracle::eye(4))];
    let offs = [0.0, 1.0, -1.0];
    let mut diag = Vec::new();
    oracle::for_each_tuple(&[1.0, 2.0], 4, |d| diag.push(d.to_vec()));
    let mut off = Vec::new();
    oracle::for_each_tuple(&offs, 6, |o| off.push(o.to_vec()));
    for d in &diag {
        for o in &off {
            if d.iter().all(|v| *v == 1.0) && o.iter().all(|v| *v == 0.0) {
                continue;
            }
            let mut m = oracle::zeros(4, 4);
            let mut k = 0;
            for i in 0..4 {
                m[i][i] = d[i];
                for j in i + 1..4 {
                    m[i][j] = o[k];
                    m[j][i] = o[k];
                    k += 1;
                }
            }
            if is_spd_int(&m) && oracle::cond2(&m) <= 1e4 {
                out.push((format!("diag{:?} off{:?}", d, o), m));
            }
        }
    }
    out
}

/// Structured SPD families of order n with condition number <= 1e4 (each member named).
pub fn spd_structured(n: usize) -> Vec<(String, Mat)> {
    let mut out: Vec<(String, Mat)> = Vec::new();
    out.push((format!("I{}", n), oracle::eye(n)));
    let mut t = oracle::zeros(n, n);
    let mut mn = oracle::zeros(n, n);
    let mut lowrank1 = oracle::zeros(n, n);
    let mut lowrank2 = oracle::zeros(n, n);
    let mut graded = oracle::zeros(n, n);
    let mut dad = oracle::zeros(n, n);
    for i in 0..n {
        for j in 0..n {
            t[i][j] = if i == j { 2.0 } else if i + 1 == j || j + 1 == i { -1.0 } else { 0.0 };
            mn[i][j] = (i.min(j) + 1) as f64;
            lowrank1[i][j] = 1.0 + if i == j { 1.0 } else { 0.0 };
            lowrank2[i][j] = ((i + 1) * (j + 1)) as f64 + if i == j { 2.0 } else { 0.0 };
        }
        graded[i][i] = if n > 1 { 10f64.powf(-3.0 * i as f64 / (n - 1) as f64) } else { 1.0 };
    }
    // D * Toeplitz * D with D = diag(2^(i mod 3)): badly scaled but exactly congruent
    for i in 0..n {
        for j in 0..n {
            dad[i][j] = t[i][j] * 2f64.powi((i % 3) as i32) * 2f64.powi((j % 3) as i32);
        }
    }
    out.push(("tridiagonal Toeplitz(2,-1)".into(), t));
    out.push(("min(i,j)".into(), mn));
    out.push(("ones*ones' + I".into(), lowrank1));
    out.push(("ramp*ramp' + 2I".into(), lowrank2));
    out.push(("graded diagonal 10^(-3i/(n-1))".into(), graded));
    out.push(("D*Toeplitz*D, D=diag(2^(i mod 3))".into(), dad));
    out.into_iter().filter(|(_, m)| oracle::cond2(m) <= 1e4).collect()
}

/// The d-dimensional lattice points {0,1,-1}^d used as data rows.
pub fn data_points(d: usize) -> Vec<Vec<f64>> {
    if d == 1 {
        lattice(S5, 1)
    } else {
        lattice(S3, d)
    }
}

/// Is the sample covariance of these integer rows positive definite? (exact)
pub fn full_rank(rows: &[Vec<f64>]) -> bool {
    let m = rows.len() as i128;
    let n = rows[0].len();
    if rows.len() < n + 1 {
        return false;
    }
    // scatter matrix of m*x_k - sum: integer, equals m^2 (m-1) * covariance
    let sums: Vec<i128> = (0..n).map(|j| rows.iter().map(|r| r[j] as i128).sum()).collect();
    let mut s = vec![vec![0i128; n]; n];
    for r in rows {
        for i in 0..n {
            for j in 0..n {
                s[i][j] += (m * r[i] as i128 - sums[i]) * (m * r[j] as i128 - sums[j]);
            }
        }
    }
    oracle::ileading_minors(&s).iter().all(|d| *d > 0)
}

// ------------------------------------------------------------------------------------------------
// round 4: larger from-data instances (d = 8, 12 columns; m = d+2 .. d+4 rows), small spread

/// names of the deterministic row designs of `big_data_rows`
pub const BIG_DESIGNS: &[&str] = &["unit rows + extras", "rounded cosines", "staircase + extras", "Legendre symbols mod 19"];

/// The `design`-th deterministic data set with m rows and d columns (m >= d + 2), small integer
/// entries. Every design has a well-conditioned sample covariance (checked by the harness).
pub fn big_data_rows(d: usize, m: usize, design: usize) -> Vec<Vec<f64>> {
    assert!(m >= d + 2 && m <= d + 4);
    let extras: Vec<Vec<f64>> = vec![
        vec![1.0; d],
        (0..d).map(|j| if j % 2 == 0 { 1.0 } else { -1.0 }).collect(),
        (0..d).map(|j| (j % 3) as f64 - 1.0).collect(),
        (0..d).map(|j| if j % 4 < 2 { -1.0 } else { 2.0 }).collect(),
    ];
    match design {
        // the d unit vectors, then the first m-d of: ones, alternating, (j mod 3)-1, blocks of (-1,-1,2,2)
        0 => {
            let mut rows: Vec<Vec<f64>> = (0..d).map(|k| (0..d).map(|j| if j == k { 1.0 } else { 0.0 }).collect()).collect();
            rows.extend(extras.into_iter().take(m - d));
            rows
        }
        // x_kj = round(2 cos(pi (2k+1)(j+1) / (2m))): rounded, nearly orthogonal cosine columns
        1 => (0..m).map(|k| (0..d).map(|j| (2.0 * (std::f64::consts::PI * ((2 * k + 1) * (j + 1)) as f64 / (2 * m) as f64).cos()).round() + 0.0).collect()).collect(),
        // rows 0, e0, e0+e1, ..., e0+..+e(d-1) (d+1 rows), then the first m-d-1 extras
        2 => {
            let mut rows: Vec<Vec<f64>> = (0..=d).map(|k| (0..d).map(|j| if j < k { 1.0 } else { 0.0 }).collect()).collect();
            rows.extend(extras.into_iter().skip(1).take(m - d - 1));
            rows
        }
        // x_kj = Legendre symbol of (k + 3j + 1) mod 19 (Paley-type +-1 pattern, 0 at multiples of 19)
        3 => (0..m)
            .map(|k| {
                (0..d)
                    .map(|j| {
                        let r = (k + 3 * j + 1) % 19;
                        if r == 0 {
                            0.0
                        } else if (1..19).any(|q| (q * q) % 19 == r) {
                            1.0
                        } else {
                            -1.0
                        }
                    })
                    .collect()
            })
            .collect(),
        other => panic!("unknown data design {}", other),
    }
}

/// names of the column scalings of `big_data_colscale`
pub const BIG_COLSCALES: &[&str] = &["x1", "x0.01", "x2^-7", "x0.01*2^-(j mod 3)", "x2^-10"];

/// Per-column factors: the integer designs have column variances of about 0.1 .. 2, so the factors
/// 0.01 and 2^-7 give variances of about 1e-5 .. 2e-4, 2^-10 about 1e-7 .. 2e-6; "x1" is the control.
pub fn big_data_colscale(variant: usize, d: usize) -> Vec<f64> {
    (0..d)
        .map(|j| match variant {
            0 => 1.0,
            1 => 0.01,
            2 => 1.0 / 128.0,
            3 => 0.01 / (1u32 << (j % 3)) as f64,
            4 => 1.0 / 1024.0,
            other => panic!("unknown column scaling {}", other),
        })
        .collect()
}

// ------------------------------------------------------------------------------------------------
// round 5: from-data instances with many rows (more than one 16-row block, up to runs longer than
// 64), and vectors whose components differ by many orders of magnitude

/// Row counts of the many-rows family. Quick: one block of 16 plus one row, just below / at / just
/// above two blocks, three blocks with a partial / full last block, four blocks, four plus one row,
/// five, seven and eight blocks. Thorough: every m in 17..=288 (up to 18 blocks) and row counts around
/// 32 and 64 blocks.
pub fn many_rows_counts(thorough: bool) -> Vec<usize> {
    if thorough {
        let mut v: Vec<usize> = (17..=288).collect();
        v.extend([511, 512, 513, 1000, 1024, 1025, 1039]);
        v
    } else {
        vec![17, 31, 32, 33, 40, 47, 48, 64, 65, 79, 100, 113]
    }
}

/// names of the deterministic row patterns of `many_rows_data`
pub const MANY_PATTERNS: &[&str] = &["(i^2 + 3ic + c) mod 7 - 3", "(i^2 + 3ic + c + popcount(i)) mod 7 - 3", "(i(i+1)/2 + ci + popcount(3i+c)) mod 5 - 2"];

/// Entry (row i, column c) of the `pattern`-th deterministic small-integer data set. Pattern 0 has
/// period 7 in i; patterns 1 and 2 contain the binary digit sum of the row index and are not periodic.
pub fn many_rows_entry(pattern: usize, i: usize, c: usize) -> f64 {
    match pattern {
        0 => ((i * i + 3 * i * c + c) % 7) as f64 - 3.0,
        1 => ((i * i + 3 * i * c + c + i.count_ones() as usize) % 7) as f64 - 3.0,
        2 => ((i * (i + 1) / 2 + c * i + (3 * i + c).count_ones() as usize) % 5) as f64 - 2.0,
        other => panic!("unknown many-rows pattern {}", other),
    }
}

pub fn many_rows_data(d: usize, m: usize, pattern: usize) -> Vec<Vec<f64>> {
    (0..m).map(|i| (0..d).map(|c| many_rows_entry(pattern, i, c)).collect()).collect()
}

/// Is the sample covariance of these small-integer rows positive definite? Exact, and usable for
/// thousands of rows (where the scatter-matrix minors of `full_rank` leave i128): the centred columns
/// are linearly independent iff [1 | X] has full column rank iff its (d+1) x (d+1) integer Gram
/// matrix (entries <= m * max x^2) has positive leading minors.
pub fn full_rank_gram(rows: &[Vec<f64>]) -> bool {
    let n = rows[0].len();
    if rows.len() < n + 1 {
        return false;
    }
    let ext: Vec<Vec<i128>> = rows.iter().map(|r| std::iter::once(1i128).chain(r.iter().map(|v| *v as i128)).collect()).collect();
    let mut g = vec![vec![0i128; n + 1]; n + 1];
    for r in &ext {
        for i in 0..=n {
            for j in 0..=n {
                g[i][j] += r[i] * r[j];
            }
        }
    }
    oracle::ileading_minors(&g).iter().all(|d| *d > 0)
}

/// The 5 query points of the many-rows family (first d coordinates; the first coordinates are
/// pairwise different, so the points are distinct for every d).
pub fn many_rows_queries(d: usize) -> Vec<Vec<f64>> {
    let p: [[f64; 4]; 5] = [[0.0, 0.0, 0.0, 0.0], [1.0, 0.0, 0.0, 1.0], [-1.0, 2.0, 0.0, 0.0], [2.0, 1.0, -1.0, -2.0], [-3.0, -1.0, 2.0, 1.0]];
    p.iter().map(|v| v[..d].to_vec()).collect()
}

/// The large coordinates L and the tiny coordinates g of the wide-range catalogue of one type: the
/// vectors (.., L, .., g, ..) share L and differ only in g, by a gap that is 18 to 251 orders of
/// magnitude below L but well inside the range of the type — as are the gap's square for the pairs
/// (3e-12, 2e-12) of f32 and (3e-151, 1e-151), (1e-12, 2e-12) of f64; the pair (1e-20, 0) of f32 has a
/// subnormal square (1e-40), i.e. belongs to the input class of the known unscaled-squares findings.
pub fn wide_values(ty: &str) -> (&'static [f64], &'static [f64]) {
    if ty == "f32" {
        (&[1e6, 1e12], &[3e-12, 2e-12, 1e-20, 0.0])
    } else {
        (&[1e12, 1e100], &[3e-151, 1e-151, 1e-12, 2e-12])
    }
}

/// Wide-range catalogue of length `len` (2..=4): every vector has one large coordinate L, one tiny
/// coordinate g and the fixed fillers 0.5, -3 in the remaining positions. Reduced: L first, g second,
/// L positive (2 * 4 = 8 vectors). Full: every ordered pair of positions (L at a, g at b) and both
/// signs of L (len (len-1) * 16 vectors).
pub fn wide(ty: &str, len: usize, full: bool) -> Vec<(String, Vec<f64>)> {
    assert!((2..=4).contains(&len));
    let (ls, gs) = wide_values(ty);
    let fillers = [0.5, -3.0];
    let layouts: Vec<(usize, usize)> = if full { (0..len).flat_map(|a| (0..len).filter(move |b| *b != a).map(move |b| (a, b))).collect() } else { vec![(0, 1)] };
    let signs: &[f64] = if full { &[1.0, -1.0] } else { &[1.0] };
    let mut out = Vec::new();
    for (a, b) in &layouts {
        for s in signs {
            for l in ls {
                for g in gs {
                    let mut v = Vec::with_capacity(len);
                    let mut f = fillers.iter();
                    for k in 0..len {
                        v.push(if k == *a { s * l } else if k == *b { *g } else { *f.next().unwrap() });
                    }
                    out.push((format!("L={:e} at {}, tiny={:e} at {}", s * l, a, g, b), v));
                }
            }
        }
    }
    dedup(out)
}

/// Self-test of the family definitions: the Gram-matrix rank test agrees with the scatter-matrix one
/// on every sequence of 3 and 4 rows of S3^2 and on every sequence of 2 and 3 rows of S5, and the
/// wide-range catalogues have the stated sizes. Err = machinery error.
pub fn self_test() -> Result<(), String> {
    for (d, ms) in [(2usize, [3usize, 4]), (1, [2, 3])] {
        let pts = data_points(d);
        let idx: Vec<f64> = (0..pts.len()).map(|k| k as f64).collect();
        for m in ms {
            let mut bad = None;
            oracle::for_each_tuple(&idx, m, |t| {
                let rows: Vec<Vec<f64>> = t.iter().map(|k| pts[*k as usize].clone()).collect();
                if full_rank(&rows) != full_rank_gram(&rows) {
                    bad = Some(rows);
                }
            });
            if let Some(rows) = bad {
                return Err(format!("full_rank and full_rank_gram disagree on {:?}", rows));
            }
        }
    }
    for ty in ["f64", "f32"] {
        for len in 2..=4usize {
            if wide(ty, len, false).len() != 8 || wide(ty, len, true).len() != len * (len - 1) * 16 {
                return Err(format!("wide-range catalogue {} len {} has an unexpected size", ty, len));
            }
        }
    }
    Ok(())
}
