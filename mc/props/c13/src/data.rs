//! Data families of the C13 harness: the small point lattices (enumerated exhaustively) and the
//! structured larger families (chains, lattice blobs, Kronecker/Weyl point sets). Everything is a
//! deterministic function of its parameters; nothing is sampled.

use crate::oracle::{odist, Metric};

// ------------------------------------------------------------------------------------------------
// lattices

#[derive(Clone, Copy, PartialEq, Eq, Debug)]
pub enum Lattice {
    /// {0..4}
    Line5,
    /// 3x3
    Grid3,
    /// {0,1}^3
    Cube3,
    /// {0,1}^4
    Cube4,
    /// 1-D points with pairs closer than machine epsilon: {-0.5, 0, 1-2^-24, 1-2^-53, 1, 2, 3}
    /// (1-2^-53 and 1 are adjacent doubles; 1-2^-24 and 1 are adjacent floats)
    LineAdj,
}

const LINE_ADJ: [f64; 7] = [-0.5, 0.0, 1.0 - 5.9604644775390625e-8, 1.0 - 1.1102230246251565e-16, 1.0, 2.0, 3.0];

impl Lattice {
    pub fn parse(s: &str) -> Lattice {
        match s {
            "lat1" => Lattice::Line5,
            "lat2" => Lattice::Grid3,
            "cube3" => Lattice::Cube3,
            "cube4" => Lattice::Cube4,
            "latadj" => Lattice::LineAdj,
            o => panic!("unknown lattice {}", o),
        }
    }
    pub fn name(self) -> &'static str {
        match self {
            Lattice::Line5 => "lat1",
            Lattice::Grid3 => "lat2",
            Lattice::Cube3 => "cube3",
            Lattice::Cube4 => "cube4",
            Lattice::LineAdj => "latadj",
        }
    }
    pub fn size(self) -> usize {
        match self {
            Lattice::Line5 => 5,
            Lattice::Grid3 => 9,
            Lattice::Cube3 => 8,
            Lattice::Cube4 => 16,
            Lattice::LineAdj => 7,
        }
    }
    pub fn dim(self) -> usize {
        match self {
            Lattice::Line5 => 1,
            Lattice::Grid3 => 2,
            Lattice::Cube3 => 3,
            Lattice::Cube4 => 4,
            Lattice::LineAdj => 1,
        }
    }
    pub fn point(self, v: usize) -> Vec<f64> {
        match self {
            Lattice::Line5 => vec![v as f64],
            Lattice::Grid3 => vec![(v / 3) as f64, (v % 3) as f64],
            Lattice::Cube3 => (0..3).map(|b| ((v >> (2 - b)) & 1) as f64).collect(),
            Lattice::Cube4 => (0..4).map(|b| ((v >> (3 - b)) & 1) as f64).collect(),
            Lattice::LineAdj => vec![LINE_ADJ[v]],
        }
    }
    /// The radii tried on this lattice; realised distances (so that `d == eps` occurs) and values
    /// between them, from "nothing within eps but the point itself" to "everything within eps".
    pub fn eps_list(self, thorough: bool) -> Vec<f64> {
        let s2 = std::f64::consts::SQRT_2;
        if self == Lattice::LineAdj {
            // radii between the adjacent values, so that the boundary falls inside a sub-epsilon pair
            return vec![LINE_ADJ[3], LINE_ADJ[2], 1.0, 0.5, 1.5, 3.0];
        }
        let mut v = vec![0.5, 1.0, s2, 2.0, 3.0];
        if thorough {
            match self {
                Lattice::Line5 | Lattice::LineAdj => v.extend([4.0]),
                Lattice::Grid3 => v.extend([5f64.sqrt(), 8f64.sqrt(), 4.0]),
                Lattice::Cube3 | Lattice::Cube4 => v.extend([3f64.sqrt(), 4.0]),
            }
        }
        v
    }
    /// Query rows for `predict`: the half-step grid over (and, in 1-D, around) the lattice, which
    /// contains every lattice point (in-sample rows), plus one row far away from everything.
    pub fn queries(self) -> Vec<Vec<f64>> {
        let mut q: Vec<Vec<f64>> = Vec::new();
        match self {
            Lattice::LineAdj => {
                for x in LINE_ADJ {
                    q.push(vec![x]);
                }
                for x in [0.5, 0.25, 1.5, 2.5, -1.0] {
                    q.push(vec![x]);
                }
                q.push(vec![9.0]);
            }
            Lattice::Line5 => {
                for i in -2..=10 {
                    q.push(vec![i as f64 * 0.5]);
                }
                q.push(vec![9.0]);
            }
            Lattice::Grid3 => {
                for i in 0..5 {
                    for j in 0..5 {
                        q.push(vec![i as f64 * 0.5, j as f64 * 0.5]);
                    }
                }
                q.push(vec![-1.0, 1.0]);
                q.push(vec![9.0, 9.0]);
            }
            Lattice::Cube3 | Lattice::Cube4 => {
                let d = self.dim();
                let total = 3usize.pow(d as u32);
                for mut code in 0..total {
                    let mut p = vec![0.0; d];
                    for k in (0..d).rev() {
                        p[k] = (code % 3) as f64 * 0.5;
                        code /= 3;
                    }
                    q.push(p);
                }
                q.push(vec![9.0; d]);
            }
        }
        q
    }
}

/// VERIF_SEED selects which exactly-representable image of the alphabet is enumerated:
/// x -> s*x + o for the coordinates (and the query rows), eps -> |s|*eps.
pub fn seed_transform(seed: u64) -> (f64, f64) {
    match seed % 8 {
        0 => (1.0, 0.0),
        1 => (1.0, 0.25),
        2 => (3.0, 0.0),
        3 => (1.0 / 1024.0, 0.0),
        4 => (1024.0, 0.0),
        5 => (-1.0, 0.0),
        6 => (0.5, 100.0),
        _ => (5.0, -7.0),
    }
}

pub fn transform(p: &mut [Vec<f64>], (s, o): (f64, f64)) {
    if s == 1.0 && o == 0.0 {
        return;
    }
    for r in p.iter_mut() {
        for v in r.iter_mut() {
            *v = s * *v + o;
        }
    }
}

// ------------------------------------------------------------------------------------------------
// structured families

pub struct Prepared {
    pub key: String,
    pub pts: Vec<Vec<f64>>,
    pub queries: Vec<Vec<f64>>,
    /// radii per metric (index 0 = Euclid, 1 = Manhattan)
    pub eps: [Vec<f64>; 2],
}

fn embed(d: usize, coords: &[f64]) -> Vec<f64> {
    let mut p = vec![0.0; d];
    for (k, c) in coords.iter().enumerate().take(d) {
        p[k] = *c;
    }
    p
}

/// Chains: n points along an axis (dir 0) / the main diagonal (1) / a staircase (2) / the line of
/// slope 3/2 (3) in d dimensions, with a spacing pattern.
pub fn chain(d: usize, n: usize, pattern: usize, dir: usize) -> Vec<Vec<f64>> {
    // positions along the chain
    let mut t: Vec<i64> = Vec::with_capacity(n);
    let mut cur = 0i64;
    for i in 0..n {
        t.push(cur);
        let step = match pattern {
            0 => 1,                                     // uniform
            1 => 1 + (i % 2) as i64,                    // alternating 1,2
            2 => if i + 1 == n / 2 { 3 } else { 1 },    // one gap of 3 in the middle
            3 => if i < n / 2 { 1 } else { 2 },         // dense half, sparse half
            4 => if i % 4 == 3 { 0 } else { 1 },        // every 4th point duplicated
            _ => 1 + (i % 3) as i64,                    // 1,2,3 repeating
        };
        cur += step;
    }
    t.iter()
        .map(|&t| match dir {
            0 => embed(d, &[t as f64]),
            1 => vec![t as f64; d],
            3 => embed(d, &[2.0 * t as f64, 3.0 * t as f64]), // slope 3/2: spacing sqrt(13)
            _ => {
                // staircase in the first two axes
                let a = (t + 1) / 2;
                let b = t / 2;
                embed(d, &[a as f64, b as f64])
            }
        })
        .collect()
}

/// Lattice blobs: K Manhattan balls of radius r (all integer points) whose centres are
/// 2r+1+gap apart, optionally with a bridging point between the first two and far noise points.
pub fn blobs(d: usize, k: usize, r: i64, gap: i64, extras: usize) -> Vec<Vec<f64>> {
    let sep = 2 * r + 1 + gap;
    let mut centres: Vec<Vec<i64>> = Vec::new();
    for c in 0..k {
        let mut ctr = vec![0i64; d];
        if c == 2 && d >= 2 {
            ctr[1] = sep; // third blob off the axis
        } else {
            ctr[0] = c as i64 * sep;
        }
        centres.push(ctr);
    }
    let mut pts: Vec<Vec<f64>> = Vec::new();
    let side = (2 * r + 1) as usize;
    for ctr in &centres {
        for mut code in 0..side.pow(d as u32) {
            let mut off = vec![0i64; d];
            for j in (0..d).rev() {
                off[j] = (code % side) as i64 - r;
                code /= side;
            }
            if off.iter().map(|v| v.abs()).sum::<i64>() <= r {
                pts.push((0..d).map(|j| (ctr[j] + off[j]) as f64).collect());
            }
        }
    }
    if extras >= 1 {
        // far noise point and, with two or more blobs, a bridge half way between blob 0 and blob 1
        let mut far = vec![0.0; d];
        far[0] = -(4 * sep + 7) as f64;
        pts.push(far);
        if k >= 2 {
            let mut b = vec![0.0; d];
            b[0] = (sep / 2) as f64 + if sep % 2 == 0 { 0.0 } else { 0.5 };
            pts.push(b);
        }
    }
    if extras >= 2 {
        let mut far = vec![0.0; d];
        far[d - 1] += (5 * sep + 3) as f64;
        pts.push(far.clone());
        pts.push(far); // duplicated noise point
    }
    pts
}

fn frac(x: f64) -> f64 {
    x - x.floor()
}

/// Kronecker (Weyl) point sets: coordinate j of point i is frac((i+1+shift)*alpha_j); K = 0 gives a
/// uniform-looking set in a cube of volume ~n, K >= 1 gives K continuous blobs.
pub fn weyl(d: usize, n: usize, k: usize, shift: usize) -> Vec<Vec<f64>> {
    let alpha = [2f64.sqrt() - 1.0, 3f64.sqrt() - 1.0, 5f64.sqrt() - 2.0, 7f64.sqrt() - 2.0];
    let side = (n as f64).powf(1.0 / d as f64);
    (0..n)
        .map(|i| {
            (0..d)
                .map(|j| {
                    let u = frac((i + 1 + shift) as f64 * alpha[j]);
                    if k == 0 {
                        u * side
                    } else {
                        let c = (i % k) as f64 * 3.0;
                        (if j == 0 { c } else { 0.0 }) + (u - 0.5) * 1.5
                    }
                })
                .collect()
        })
        .collect()
}

pub fn reorder(pts: Vec<Vec<f64>>, order: usize) -> Vec<Vec<f64>> {
    let n = pts.len();
    let idx: Vec<usize> = match order {
        0 => (0..n).collect(),
        1 => (0..n).rev().collect(),
        2 => {
            // stride coprime to n, near the golden section
            let mut s = ((n as f64) * 0.618) as usize;
            s = s.max(1);
            while gcd(s, n) != 1 {
                s += 1;
            }
            (0..n).map(|i| (i * s) % n).collect()
        }
        _ => {
            // from both ends inwards
            let mut v = Vec::with_capacity(n);
            let (mut a, mut b) = (0usize, n);
            while a < b {
                v.push(a);
                a += 1;
                if a < b {
                    b -= 1;
                    v.push(b);
                }
            }
            v
        }
    };
    idx.into_iter().map(|i| pts[i].clone()).collect()
}

fn gcd(a: usize, b: usize) -> usize {
    if b == 0 {
        a
    } else {
        gcd(b, a % b)
    }
}

/// Radii for a structured data set: half the smallest and 1.5 times the largest realised distance
/// ("all noise" / "one cluster"), mid-points between consecutive distinct realised distances at
/// fixed quantiles (dense at the small end), and — only when the coordinates are integers, so that
/// distances are exact — a few realised distances themselves (`d == eps` occurs).
pub fn eps_for(pts: &[Vec<f64>], m: Metric, exact: bool) -> Vec<f64> {
    let n = pts.len();
    let mut ds: Vec<f64> = Vec::with_capacity(n * (n - 1) / 2);
    for i in 0..n {
        for j in (i + 1)..n {
            let d = odist(m, &pts[i], &pts[j]);
            if d > 0.0 {
                ds.push(d);
            }
        }
    }
    ds.sort_by(|a, b| a.partial_cmp(b).unwrap());
    // distinct values, merging anything closer than 1e-9 relative
    let mut dd: Vec<f64> = Vec::new();
    for d in ds {
        match dd.last() {
            Some(&l) if d - l <= 1e-9 * d => {}
            _ => dd.push(d),
        }
    }
    if dd.is_empty() {
        return vec![1.0];
    }
    let m_ = dd.len();
    let mut out: Vec<f64> = vec![dd[0] * 0.5, dd[m_ - 1] * 1.5];
    if m_ >= 2 {
        for q in [0.0, 0.02, 0.05, 0.1, 0.2, 0.35, 0.6, 0.9] {
            let i = (((m_ - 1) as f64) * q) as usize;
            let i = i.min(m_ - 2);
            out.push((dd[i] + dd[i + 1]) * 0.5);
        }
    }
    if exact {
        for i in [0usize, 1, 2, m_ / 8] {
            if i < m_ {
                out.push(dd[i]);
            }
        }
    }
    out.sort_by(|a, b| a.partial_cmp(b).unwrap());
    out.dedup();
    out
}

/// Query rows of a structured data set: every training row, the mid-points of consecutive rows and
/// one row far from everything.
pub fn queries_for(pts: &[Vec<f64>]) -> Vec<Vec<f64>> {
    let d = pts[0].len();
    let mut q: Vec<Vec<f64>> = pts.to_vec();
    for w in pts.windows(2) {
        q.push((0..d).map(|j| (w[0][j] + w[1][j]) * 0.5).collect());
    }
    let mut lo = f64::INFINITY;
    let mut hi = f64::NEG_INFINITY;
    for p in pts {
        for v in p {
            lo = lo.min(*v);
            hi = hi.max(*v);
        }
    }
    // farther than 1.5 * (largest possible Manhattan distance) from every training row
    q.push(vec![hi + 2.0 * (d as f64) * (hi - lo) + 10.0; d]);
    q
}
