//! C13 — DBSCAN labels satisfy the definition of density-based clusters.
//!
//! E1 over (data set, eps, min_samples, metric, number width); every execution fits the real
//! `DBSCAN` with BOTH neighbour-search backends, reads the training labelling back through the
//! model's serde serialisation, judges it against the definition (eps-graph, core points,
//! union-find over core points) and judges `predict` on a grid of query rows against a brute-force
//! plurality vote. No randomness is involved anywhere (DBSCAN draws nothing).

mod data;
mod oracle;

use data::{Lattice, Prepared};
use mc_core::{self as mc, json, Harness, Job, Plan, Tier, Value};
use oracle::{Metric, Reporter, Tag, Truth};
use serde::Serialize;
use smartcore::algorithm::neighbour::KNNAlgorithmName;
use smartcore::cluster::dbscan::{DBSCANParameters, DBSCAN};
use smartcore::linalg::naive::dense_matrix::DenseMatrix;
use smartcore::math::distance::euclidian::Euclidian;
use smartcore::math::distance::{Distance, Distances};
use smartcore::math::num::RealNumber;
use std::cell::RefCell;

struct C13;

// ------------------------------------------------------------------------------------------------
// running the library

enum Pred {
    Panic(mc::PanicInfo),
    Err(String),
    Ok(Vec<f64>),
}

enum Fit {
    Panic(mc::PanicInfo),
    Err(String),
    Unreadable(String),
    Ok { labels: Vec<i64>, c: usize, pred: Pred },
}

fn run_backend<T, D>(x: &DenseMatrix<T>, q: &DenseMatrix<T>, eps: T, ms: usize, algo: KNNAlgorithmName, dist: D) -> Fit
where
    T: RealNumber + Serialize,
    D: Distance<Vec<T>, T> + Serialize,
{
    let params = DBSCANParameters::<T, Euclidian>::default().with_eps(eps).with_min_samples(ms).with_algorithm(algo).with_distance(dist);
    let model = match mc::guard(|| DBSCAN::fit(x, params)) {
        Err(p) => return Fit::Panic(p),
        Ok(Err(e)) => return Fit::Err(e.to_string()),
        Ok(Ok(m)) => m,
    };
    // the labelling as exposed by the model's serde serialisation
    let v = match serde_json::to_value(&model) {
        Ok(v) => v,
        Err(e) => return Fit::Unreadable(e.to_string()),
    };
    let labels: Option<Vec<i64>> = v["cluster_labels"].as_array().map(|a| a.iter().map(|l| l.as_i64().unwrap_or(i64::MIN)).collect());
    let c = v["num_classes"].as_u64();
    let (labels, c) = match (labels, c) {
        (Some(l), Some(c)) => (l, c as usize),
        _ => return Fit::Unreadable("serialised model has no cluster_labels / num_classes".into()),
    };
    let pred = match mc::guard(|| model.predict(q)) {
        Err(p) => Pred::Panic(p),
        Ok(Err(e)) => Pred::Err(e.to_string()),
        Ok(Ok(v)) => Pred::Ok(v.iter().map(|t| t.to_f64().unwrap_or(f64::NAN)).collect()),
    };
    Fit::Ok { labels, c, pred }
}

struct Case<'a> {
    family: &'a str,
    pts: &'a [Vec<f64>],
    queries: &'a [Vec<f64>],
    eps: f64,
    ms: usize,
    metric: Metric,
    width: u8,
}

fn to_t<T: RealNumber>(rows: &[Vec<f64>]) -> Vec<Vec<T>> {
    rows.iter().map(|r| r.iter().map(|v| T::from_f64(*v).unwrap()).collect()).collect()
}

fn fit_both<T: RealNumber + Serialize>(c: &Case, eps: T) -> (Fit, Fit) {
    let x: DenseMatrix<T> = mc_sc::dm(c.pts);
    let q: DenseMatrix<T> = mc_sc::dm(c.queries);
    match c.metric {
        Metric::Euclid => (
            run_backend(&x, &q, eps, c.ms, KNNAlgorithmName::LinearSearch, Distances::euclidian()),
            run_backend(&x, &q, eps, c.ms, KNNAlgorithmName::CoverTree, Distances::euclidian()),
        ),
        Metric::Manhattan => (
            run_backend(&x, &q, eps, c.ms, KNNAlgorithmName::LinearSearch, Distances::manhattan()),
            run_backend(&x, &q, eps, c.ms, KNNAlgorithmName::CoverTree, Distances::manhattan()),
        ),
    }
}

/// Input class of a failed fit, decided from the input alone.
fn input_class(pts: &[Vec<f64>]) -> &'static str {
    if pts.len() == 1 {
        "single-point"
    } else if pts.iter().all(|p| p == &pts[0]) {
        "all-identical"
    } else {
        "other"
    }
}

fn run_case<T: RealNumber + Serialize>(c: &Case) {
    let n = c.pts.len();
    let xt: Vec<Vec<T>> = to_t(c.pts);
    let qt: Vec<Vec<T>> = to_t(c.queries);
    let eps = T::from_f64(c.eps).unwrap();
    let t: Truth = oracle::truth(c.metric, &xt, eps, c.ms);
    let ctx = format!("{} f{} n={} points={:?} eps={} min_samples={} metric={}", c.family, c.width, n, c.pts, c.eps, c.ms, c.metric.name());
    let mut rep = Reporter::default();

    let (lin, cov) = fit_both::<T>(c, eps);
    let mut good: Vec<Option<(&Vec<i64>, usize)>> = vec![None, None];
    let mut digest = 0x51u64;
    for (bi, (backend, bkey, fit)) in [("LinearSearch", "linear", &lin), ("CoverTree", "covertree", &cov)].into_iter().enumerate() {
        rep.set_tag(if bi == 0 { Tag::Linear } else { Tag::Cover });
        match fit {
            Fit::Panic(p) => {
                let oc = if p.is_overflow_check() { ":overflow-check" } else { "" };
                let site = format!("dbscan.fit:{}-{}:panic{}", bkey, input_class(c.pts), oc);
                rep.v(&site, || {
                    format!(
                        "{} backend={}: fit panics, no labelling is produced: {}{}",
                        ctx,
                        backend,
                        p.brief(),
                        if p.is_overflow_check() { " (only in builds with arithmetic overflow checks, e.g. the dev/test profile; plain release wraps)" } else { "" }
                    )
                });
                mc::count(if bi == 0 { "linear_fit_panics" } else { "covertree_fit_panics" });
                digest = mc::hash::mix(digest, 0xdead);
            }
            Fit::Err(e) => {
                rep.v(&format!("dbscan.fit:{}-{}:error", bkey, input_class(c.pts)), || format!("{} backend={}: fit returns Err({}) for eps > 0, min_samples >= 1", ctx, backend, e));
                digest = mc::hash::mix(digest, 0xe44);
            }
            Fit::Unreadable(e) => {
                rep.v("dbscan.serde:labels-unreadable", || format!("{} backend={}: training labels cannot be read from the serialised model: {}", ctx, backend, e));
            }
            Fit::Ok { labels, c: nc, pred } => {
                let in_range = oracle::check_fit(&mut rep, &ctx, backend, &t, labels, *nc);
                digest = mc::hash::mix(digest, mc::hash::h_u64s(&labels.iter().map(|l| *l as u64).collect::<Vec<_>>()));
                digest = mc::hash::mix(digest, *nc as u64);
                if in_range {
                    good[bi] = Some((labels, *nc));
                    match pred {
                        Pred::Panic(p) => rep.v("dbscan.predict:panic", || format!("{} backend={}: predict panics: {}", ctx, backend, p.brief())),
                        Pred::Err(e) => rep.v("dbscan.predict:error", || format!("{} backend={}: predict returns Err({})", ctx, backend, e)),
                        Pred::Ok(pv) => {
                            let st = oracle::check_predict(&mut rep, &ctx, backend, c.metric, &xt, eps, labels, *nc, &qt, pv);
                            mc::count_n("predict_rows_without_neighbours", st.no_neighbours);
                            mc::count_n("predict_rows_plurality_tie", st.ties);
                            mc::count_n("predict_rows_noise_dominates", st.noise_wins);
                            mc::count_n("predict_rows_cluster_wins", st.cluster_wins);
                            digest = mc::hash::mix(digest, mc::hash::h_f64s(pv));
                        }
                    }
                }
            }
        }
    }
    rep.set_tag(Tag::Cross);
    if let (Some((l, _)), Some((cv, _))) = (good[0], good[1]) {
        oracle::check_backends(&mut rep, &ctx, &t, l, cv);
        mc::count("both_backends_compared");
        if (0..n).any(|i| !t.core[i] && l[i] != cv[i] && l[i] >= 0 && cv[i] >= 0) {
            mc::count("border_label_differs_between_backends");
        }
    }

    emit(&rep, c, &xt, &qt, eps);

    // ---- branch / non-vacuity counters, measured by the oracle
    if t.n_core > 0 {
        mc::nontrivial();
    }
    if t.any_dist_eq_eps {
        mc::count("some_distance_equals_eps");
    }
    if t.any_duplicate {
        mc::count("duplicate_points");
    }
    if t.n_comp >= 2 {
        mc::count("two_or_more_clusters");
    }
    if t.n_core == 0 {
        mc::count("all_noise");
    } else if t.n_comp == 1 && t.n_core == n && n >= 2 {
        mc::count("one_cluster_all_core");
    }
    let (mut border, mut noise, mut multi, mut relabel, mut relabel_secondary) = (false, false, false, false, false);
    for i in 0..n {
        if t.core[i] {
            continue;
        }
        let comps: Vec<usize> = {
            let mut v: Vec<usize> = t.adj[i].iter().filter(|&&j| t.core[j]).map(|&j| t.comp[j]).collect();
            v.sort_unstable();
            v.dedup();
            v
        };
        if comps.is_empty() {
            noise = true;
            continue;
        }
        border = true;
        if comps.len() >= 2 {
            multi = true;
        }
        // A cluster is started at the first core point of its component in scan order (= the
        // component's representative). A border point that precedes the start of every cluster it
        // touches is first marked as an outlier by the scan and must be re-labelled later.
        if comps.iter().all(|&r| i < r) {
            relabel = true;
            // ... and it is reached only through a secondary neighbourhood when the cluster's
            // starting point itself is not within eps of it
            if comps.iter().all(|&r| !t.adj[i].contains(&r)) {
                relabel_secondary = true;
            }
        }
    }
    if border {
        mc::count("has_border_point");
    }
    if noise && t.n_core > 0 {
        mc::count("noise_next_to_clusters");
    }
    if multi {
        mc::count("border_point_between_two_clusters");
    }
    if relabel {
        mc::count("border_point_scanned_before_its_cluster");
    }
    if relabel_secondary {
        mc::count("border_point_scanned_first_and_reached_via_secondary");
    }
    if (0..n).any(|i| t.core[i] && t.adj[i].len() == c.ms) {
        mc::count("core_with_exactly_min_samples");
    }
    mc::outcome(digest);
    mc::describe(|| {
        let show = |f: &Fit| match f {
            Fit::Panic(p) => json!({"fit": "panic", "panic": p.brief()}),
            Fit::Err(e) => json!({"fit": "error", "error": e}),
            Fit::Unreadable(e) => json!({"fit": "ok", "labels": "unreadable", "error": e}),
            Fit::Ok { labels, c, pred } => json!({
                "fit": "ok", "cluster_labels": labels, "num_classes": c,
                "predict": match pred { Pred::Panic(p) => json!({"panic": p.brief()}), Pred::Err(e) => json!({"error": e}), Pred::Ok(v) => json!(v) },
            }),
        };
        json!({
            "family": c.family, "width": format!("f{}", c.width), "points": c.pts, "eps": c.eps, "min_samples": c.ms, "metric": c.metric.name(),
            "oracle": {"core": t.core, "eps_neighbours": t.adj, "component_of_core": t.comp.iter().map(|r| if *r == usize::MAX { -1 } else { *r as i64 }).collect::<Vec<_>>()},
            "query_rows": c.queries,
            "linear_search": show(&lin), "cover_tree": show(&cov),
        })
    });
}

/// Classifies the buffered findings and hands them to the explorer.
///
/// Findings about the cover-tree run (and about the comparison of the two backends when the
/// linear-search run is clean) get the input class `covertree-tight-triangle-rounding` when the
/// input violates the rounded triangle inequality that the tree's pruning rule relies on (see
/// `oracle::tight_triangle`); every other finding keeps the key of the clause it breaks.
fn emit<T: RealNumber>(rep: &Reporter, c: &Case, xt: &[Vec<T>], qt: &[Vec<T>], eps: T) {
    if rep.items.is_empty() {
        return;
    }
    let linear_fit_clean = !rep.items.iter().any(|i| i.tag == Tag::Linear && i.site.starts_with("dbscan.fit"));
    let mut fit_witness: Option<Option<(usize, usize, usize)>> = None; // lazily: (q, c, x)
    let mut fit_w = |xt: &[Vec<T>]| -> Option<(usize, usize, usize)> {
        if fit_witness.is_none() {
            fit_witness = Some((0..xt.len()).find_map(|q| oracle::tight_triangle(c.metric, xt, &xt[q], eps).map(|(cc, x)| (q, cc, x))));
        }
        fit_witness.unwrap()
    };
    let mut emitted: Vec<String> = Vec::new();
    for it in &rep.items {
        let is_panic_or_err = it.site.ends_with(":panic") || it.site.ends_with(":overflow-check") || it.site.ends_with(":error");
        let mut site = it.site.clone();
        let mut what = it.what.clone();
        let candidate = !is_panic_or_err && (it.tag == Tag::Cover || (it.tag == Tag::Cross && linear_fit_clean));
        if candidate {
            let witness = match it.query {
                Some(qi) => oracle::tight_triangle(c.metric, xt, &qt[qi], eps).map(|(cc, x)| (format!("query row {:?}", c.queries[qi]), cc, x)),
                None => fit_w(xt).map(|(q, cc, x)| (format!("training point {}", q), cc, x)),
            };
            if let Some((q, cc, x)) = witness {
                let op = if it.site.starts_with("dbscan.predict") { "predict" } else { "fit" };
                site = format!("dbscan.{}:covertree-tight-triangle-rounding", op);
                what = format!(
                    "[{}] {} || input class: the rounded triangle inequality is violated: point {} is within eps of {} although d({}, point {}) > eps + d(point {}, point {}) in floating point, so the cover tree's pruning test `d <= radius + max_dist` discards it",
                    it.site, it.what, x, q, q, cc, cc, x
                );
            }
        }
        if !emitted.contains(&site) {
            mc::violation(site.clone(), what);
            emitted.push(site);
        }
    }
}

// ------------------------------------------------------------------------------------------------
// structured data sets (cached per worker thread: one job = one data set)

thread_local! {
    static PREP: RefCell<Option<Prepared>> = RefCell::new(None);
}

fn prepare(job: &Job, order: usize, key: String, seed_tf: (f64, f64)) -> Prepared {
    let fam = job.s("fam");
    let d = job.u("d");
    let (mut pts, exact) = match fam {
        "chain" => (data::chain(d, job.u("n"), job.u("pattern"), job.u("dir")), true),
        "blobs" => (data::blobs(d, job.u("k"), job.i("r"), job.i("gap"), job.u("extras")), true),
        "weyl" => (data::weyl(d, job.u("n"), job.u("k"), job.u("shift")), false),
        o => panic!("unknown family {}", o),
    };
    if exact {
        data::transform(&mut pts, seed_tf);
    }
    let pts = data::reorder(pts, order);
    // integer blobs with a half-integer bridge are still exact in binary
    let eps = [data::eps_for(&pts, Metric::Euclid, exact), data::eps_for(&pts, Metric::Manhattan, exact)];
    let queries = data::queries_for(&pts);
    Prepared { key, pts, queries, eps }
}

const MS_MAX: usize = 8;

impl Harness for C13 {
    fn id(&self) -> &'static str {
        "C13"
    }

    fn plan(&self, tier: Tier, seed: u64) -> Plan {
        let t = tier.is_thorough();
        let mut jobs: Vec<Job> = Vec::new();
        let ms_cap = if t { MS_MAX } else { 4 };
        // ---- exhaustive lattices: every SEQUENCE of n points (order matters: scan order decides the
        // numbering of the clusters and which cluster a border point joins)
        //                 lattice          f64 n_max (q,t)  f32 n_max (q,t)
        let lattices = [(Lattice::Line5, (6, 9), (4, 6)), (Lattice::Grid3, (4, 6), (3, 4)), (Lattice::Cube3, (4, 5), (0, 4)), (Lattice::Cube4, (3, 4), (0, 3)), (Lattice::LineAdj, (5, 6), (4, 5))];
        let mut lattice_bounds = Vec::new();
        for width in [64u8, 32] {
            for (lat, n64, n32) in lattices {
                let nmax = match (width, t) {
                    (64, false) => n64.0,
                    (64, true) => n64.1,
                    (_, false) => n32.0,
                    (_, true) => n32.1,
                };
                if nmax == 0 {
                    continue;
                }
                lattice_bounds.push(json!({"lattice": lat.name(), "width": format!("f{}", width), "sequences_of": format!("1..{} points", nmax), "eps": lat.eps_list(t), "min_samples": format!("1..min({}, n+1)", ms_cap), "metrics": ["euclidean", "manhattan"], "backends": ["LinearSearch", "CoverTree"], "predict_rows": lat.queries().len()}));
                for n in 1..=nmax {
                    let a = lat.size();
                    let per_seq = lat.eps_list(t).len() * ms_cap.min(n + 1);
                    // fix the first L points in the job so that a job stays below ~120k (quick) / ~800k (thorough) executions
                    let mut l = 0usize;
                    while l < n && a.pow((n - l) as u32) * per_seq > (if t { 800_000 } else { 120_000 }) {
                        l += 1;
                    }
                    for metric in ["euclidean", "manhattan"] {
                        for code in 0..a.pow(l as u32) {
                            let mut prefix = vec![0usize; l];
                            let mut cc = code;
                            for k in (0..l).rev() {
                                prefix[k] = cc % a;
                                cc /= a;
                            }
                            let pname: String = prefix.iter().map(|p| format!("{:x}", p)).collect();
                            jobs.push(Job::new(
                                format!("{}-f{}-n{}-{}{}", lat.name(), width, n, &metric[..3], if l > 0 { format!("-p{}", pname) } else { String::new() }),
                                json!({"kind": "lattice", "lattice": lat.name(), "n": n, "metric": metric, "width": width, "prefix": prefix, "ms_cap": ms_cap, "thorough": t, "level_size": a.pow(n as u32) * per_seq}),
                            ));
                        }
                    }
                }
            }
        }
        // ---- larger point MULTISETS on the two small lattices (every non-decreasing sequence), each in
        // several row orders: reaches the sizes at which a border point can sit between two clusters
        // (n >= 7 in 1-D) without the n! blow-up of sequences
        let ms_orders: &[usize] = if t { &[0, 1, 2, 3] } else { &[0, 2] };
        let multisets = [(Lattice::Line5, if t { 7..=12usize } else { 7..=9usize }), (Lattice::Grid3, if t { 5..=7usize } else { 5..=6usize })];
        let mut multiset_bounds = Vec::new();
        for (lat, ns) in multisets {
            multiset_bounds.push(json!({"lattice": lat.name(), "multisets_of": format!("{}..{} points", ns.start(), ns.end()), "row_orders": ms_orders, "eps": lat.eps_list(t), "min_samples": format!("1..{}", ms_cap), "metrics": ["euclidean", "manhattan"], "width": "f64"}));
            for n in ns {
                for metric in ["euclidean", "manhattan"] {
                    for first in 0..lat.size() {
                        jobs.push(Job::new(
                            format!("{}-multiset-n{}-{}-from{}", lat.name(), n, &metric[..3], first),
                            json!({"kind": "multiset", "lattice": lat.name(), "n": n, "metric": metric, "first": first, "orders": ms_orders, "ms_cap": ms_cap, "thorough": t}),
                        ));
                    }
                }
            }
        }
        // ---- structured families (every member enumerated): chains, lattice blobs, Kronecker sets
        let orders: &[usize] = if t { &[0, 1, 2, 3] } else { &[0, 2] };
        let mut structured = 0usize;
        let chain_ns: &[usize] = if t { &[2, 3, 4, 5, 6, 8, 13, 21, 34, 55, 89, 150] } else { &[4, 8, 21] };
        for &n in chain_ns {
            for d in 1..=4usize {
                for dir in 0..4usize {
                    if d == 1 && dir > 0 {
                        continue;
                    }
                    if !t && ((dir == 1 && d != 3) || (dir == 3 && d != 2)) {
                        continue;
                    }
                    for pattern in 0..6usize {
                        if !t && (pattern == 5 || (pattern == 3 && d > 2)) {
                            continue;
                        }
                        jobs.push(Job::new(
                            format!("chain-d{}-n{}-dir{}-pat{}", d, n, dir, pattern),
                            json!({"kind": "structured", "fam": "chain", "d": d, "n": n, "dir": dir, "pattern": pattern, "orders": orders, "ms_cap": MS_MAX}),
                        ));
                        structured += orders.len();
                    }
                }
            }
        }
        for d in 1..=4usize {
            for k in 1..=3usize {
                for r in 1..=2i64 {
                    if d == 4 && r == 2 && k == 3 && !t {
                        continue;
                    }
                    // at most ~150 points
                    let ball = data::blobs(d, 1, r, 0, 0).len();
                    if ball * k + 4 > 154 {
                        continue;
                    }
                    if !t && ball * k > 45 {
                        continue;
                    }
                    for gap in 0..=(if t { 2 } else { 1 }) {
                        for extras in 0..=2usize {
                            if !t && extras == 1 {
                                continue;
                            }
                            jobs.push(Job::new(
                                format!("blobs-d{}-k{}-r{}-gap{}-x{}", d, k, r, gap, extras),
                                json!({"kind": "structured", "fam": "blobs", "d": d, "k": k, "r": r, "gap": gap, "extras": extras, "orders": orders, "ms_cap": MS_MAX}),
                            ));
                            structured += orders.len();
                        }
                    }
                }
            }
        }
        let weyl_ns: &[usize] = if t { &[2, 5, 10, 20, 40, 80, 150] } else { &[5, 20] };
        let variants = if t { 3usize } else { 1 };
        for &n in weyl_ns {
            for d in 1..=4usize {
                for k in 0..=3usize {
                    if !t && k == 2 {
                        continue;
                    }
                    for var in 0..variants {
                        // start index of the Kronecker sequence: rotated by the seed
                        let shift = (seed as usize % 8) * 1000 + var * 211;
                        jobs.push(Job::new(
                            format!("weyl-d{}-n{}-k{}-v{}", d, n, k, var),
                            json!({"kind": "structured", "fam": "weyl", "d": d, "n": n, "k": k, "shift": shift, "orders": orders, "ms_cap": MS_MAX}),
                        ));
                        structured += orders.len();
                    }
                }
            }
        }
        // simplest first: small lattice jobs, then multisets and structured sets, the largest
        // sequence enumerations last (a wall budget that runs out then cuts those)
        jobs.sort_by_key(|j| match j.kind() {
            "lattice" if j.params["prefix"].as_array().map(|p| p.is_empty()).unwrap_or(true) => (0, 0),
            "lattice" => (2, j.params["level_size"].as_u64().unwrap_or(0)),
            _ => (1, 0),
        });
        let tf = data::seed_transform(seed);
        for j in jobs.iter_mut() {
            j.params["tf_scale"] = json!(tf.0);
            j.params["tf_offset"] = json!(tf.1);
        }
        let jobs = {
            let mut j: Vec<Job> = jobs;
            j.insert(0, Job::new("builders", json!({"kind": "builders"})));
            for i in 0..mc_sc::entry::n_parts("C13") {
                j.insert(1 + i, Job::new(format!("entry-{}", i), json!({"kind": "entry", "part": i})));
            }
            j
        };
        Plan {
            jobs,
            budget_s: if t { 2700 } else { 40 },
            case_deadline_ms: 20_000,
            floors: {
                let mut f = floors(t);
                f.push(("builder_chains", 5));
                f.push(("entry_cases", 1000));
                f
            },
            bounds: json!({
                "builders": mc_sc::builders::BOUNDS,
                "entry_paths": mc_sc::entry::BOUNDS,
                "lattices_exhaustive": lattice_bounds,
                "lattice_multisets_exhaustive": multiset_bounds,
                "structured_data_sets": structured,
                "structured": "chains (n up to 150 [thorough] / 21 [quick], d=1..4, axis/diagonal/staircase, 6 spacing patterns incl. gaps and duplicates), lattice blobs (1..3 Manhattan balls of radius 1..2 in d=1..4, touching / one apart / two apart, with bridge, far noise and duplicated noise points), Kronecker (Weyl) point sets (continuous coordinates, uniform and 1..3 blobs, d=1..4); each in 4 [thorough] / 2 [quick] row orders x both metrics x up to 14 radii per metric (half the smallest / 1.5 x the largest realised distance, mid-points between consecutive distinct realised distances at 8 quantiles, realised distances themselves for integer-valued families) x min_samples 1..8; f64",
                "seed": format!("coordinate transform x -> {}*x + {} (eps scaled by |{}|); Kronecker index shift {}", tf.0, tf.1, tf.0, (seed % 8) * 1000),
            }),
        }
    }

    fn run(&self, job: &Job) {
        if job.kind() == "entry" {
            return mc_sc::entry::run_part("C13", job.u("part"));
        }
        if job.kind() == "builders" {
            return mc_sc::builders::run("C13");
        }
        let tf = (job.f("tf_scale"), job.f("tf_offset"));
        match job.kind() {
            "lattice" => {
                let lat = Lattice::parse(job.s("lattice"));
                let n = job.u("n");
                let metric = if job.s("metric") == "euclidean" { Metric::Euclid } else { Metric::Manhattan };
                let width = job.u("width") as u8;
                let mut idx: Vec<usize> = job.params["prefix"].as_array().unwrap().iter().map(|v| v.as_u64().unwrap() as usize).collect();
                while idx.len() < n {
                    idx.push(mc::choose(lat.size()));
                }
                let eps_list = lat.eps_list(job.b("thorough"));
                let eps = mc::pick(&eps_list) * tf.0.abs();
                let ms = 1 + mc::choose(job.u("ms_cap").min(n + 1));
                let mut pts: Vec<Vec<f64>> = idx.iter().map(|&v| lat.point(v)).collect();
                let mut queries = lat.queries();
                data::transform(&mut pts, tf);
                data::transform(&mut queries, tf);
                let c = Case { family: lat.name(), pts: &pts, queries: &queries, eps, ms, metric, width };
                if width == 32 {
                    run_case::<f32>(&c)
                } else {
                    run_case::<f64>(&c)
                }
            }
            "multiset" => {
                let lat = Lattice::parse(job.s("lattice"));
                let n = job.u("n");
                let metric = if job.s("metric") == "euclidean" { Metric::Euclid } else { Metric::Manhattan };
                // non-decreasing sequence of lattice points starting at `first`
                let mut idx: Vec<usize> = vec![job.u("first")];
                while idx.len() < n {
                    let lo = *idx.last().unwrap();
                    idx.push(lo + mc::choose(lat.size() - lo));
                }
                let orders: Vec<usize> = job.params["orders"].as_array().unwrap().iter().map(|v| v.as_u64().unwrap() as usize).collect();
                let order = mc::pick(&orders);
                let eps_list = lat.eps_list(job.b("thorough"));
                let eps = mc::pick(&eps_list) * tf.0.abs();
                let ms = 1 + mc::choose(job.u("ms_cap"));
                let mut pts: Vec<Vec<f64>> = data::reorder(idx.iter().map(|&v| lat.point(v)).collect(), order);
                let mut queries = lat.queries();
                data::transform(&mut pts, tf);
                data::transform(&mut queries, tf);
                let fam = format!("{} multiset order={}", lat.name(), order);
                run_case::<f64>(&Case { family: &fam, pts: &pts, queries: &queries, eps, ms, metric, width: 64 })
            }
            "structured" => {
                // row order first: it is the outermost choice, so the prepared data set is reused
                let orders: Vec<usize> = job.params["orders"].as_array().unwrap().iter().map(|v| v.as_u64().unwrap() as usize).collect();
                let order = mc::pick(&orders);
                let key = format!("{}#{}", job.name, order);
                PREP.with(|p| {
                    let mut p = p.borrow_mut();
                    if p.as_ref().map(|x| x.key != key).unwrap_or(true) {
                        *p = Some(prepare(job, order, key, tf));
                    }
                    let prep = p.as_ref().unwrap();
                    let mi = mc::choose(2);
                    let metric = if mi == 0 { Metric::Euclid } else { Metric::Manhattan };
                    let eps = mc::pick(&prep.eps[mi]);
                    let ms = 1 + mc::choose(job.u("ms_cap"));
                    let fam = format!("{} order={}", job.name, order);
                    let c = Case { family: &fam, pts: &prep.pts, queries: &prep.queries, eps, ms, metric, width: 64 };
                    run_case::<f64>(&c)
                });
            }
            "builders" => mc_sc::builders::run("C13"),
            other => panic!("unknown job kind {}", other),
        }
    }

    fn rule(&self) -> String {
        "one execution = one (data set as an ordered sequence of rows, eps, min_samples, metric, number width) fitted with both backends and queried with predict; non-trivial = the oracle finds at least one core point; distinct = distinct digest of (training labels, num_classes, predictions) of both backends".into()
    }

    fn assumptions(&self) -> Vec<String> {
        vec![
            "the training labelling is what the model's serde serialisation exposes as cluster_labels / num_classes; -1 is the noise label".into(),
            "distances in the oracle are evaluated from the metric's definition in the same number width; on the integer/dyadic families every difference, square and sum is exact and sqrt is correctly rounded, so `d <= eps` has a single possible answer; on the continuous (Kronecker) families eps is a mid-point between well separated (>1e-9 relative) realised distances".into(),
            "DBSCAN draws no random numbers and iterates over no hash map (read of src/cluster/dbscan.rs and both search structures)".into(),
            "harness profile: release with overflow-checks and debug-assertions ON (as in cargo test / a user's debug build)".into(),
        ]
    }
}

/// Non-vacuity floors: roughly a third of what the unchanged tree shows at seed 0 (NOTES.md). Only
/// oracle-measured properties of the INPUTS have floors; counters that exist only because of a
/// defect (cover-tree panics, backend-dependent border labels) have none, so that the floors still
/// hold once the defects are fixed (checked on a scratch copy with the four suggested fixes).
fn floors(thorough: bool) -> Vec<(&'static str, u64)> {
    let f = |q: u64, t: u64| if thorough { t } else { q };
    vec![
        ("both_backends_compared", f(1_000_000, 20_000_000)),
        ("some_distance_equals_eps", f(200_000, 8_000_000)),
        ("duplicate_points", f(700_000, 20_000_000)),
        ("two_or_more_clusters", f(150_000, 1_500_000)),
        ("all_noise", f(150_000, 5_000_000)),
        ("one_cluster_all_core", f(400_000, 10_000_000)),
        ("has_border_point", f(80_000, 3_000_000)),
        ("noise_next_to_clusters", f(120_000, 2_000_000)),
        ("border_point_between_two_clusters", f(100, 15_000)),
        ("border_point_scanned_before_its_cluster", f(40_000, 1_000_000)),
        ("border_point_scanned_first_and_reached_via_secondary", f(10_000, 300_000)),
        ("core_with_exactly_min_samples", f(300_000, 6_000_000)),
        ("predict_rows_without_neighbours", f(10_000_000, 100_000_000)),
        ("predict_rows_plurality_tie", f(500_000, 5_000_000)),
        ("predict_rows_noise_dominates", f(8_000_000, 200_000_000)),
        ("predict_rows_cluster_wins", f(25_000_000, 500_000_000)),
    ]
}

fn main() {
    mc::main(C13)
}

#[allow(dead_code)]
fn _v(_: Value) {}
