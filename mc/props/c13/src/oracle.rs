//! Definition-level oracle for DBSCAN: the eps-neighbourhood graph computed with the harness' own
//! distance functions, core points, density-connected components of the core points (union-find)
//! and the checks of every clause of property C13. Shares no code with /repo.

use smartcore::math::num::RealNumber;
use std::collections::BTreeSet;

#[derive(Clone, Copy, PartialEq, Eq, Debug)]
pub enum Metric {
    Euclid,
    Manhattan,
}

impl Metric {
    pub fn name(self) -> &'static str {
        match self {
            Metric::Euclid => "euclidean",
            Metric::Manhattan => "manhattan",
        }
    }
}

/// The metric, written out from its definition in the arithmetic of `T`. For coordinates whose
/// differences, squares and sums are exactly representable (all lattice families) the only rounding
/// is the correctly rounded square root, so `d <= eps` has one possible answer.
pub fn odist<T: RealNumber>(m: Metric, a: &[T], b: &[T]) -> T {
    let mut s = T::zero();
    match m {
        Metric::Euclid => {
            for k in 0..a.len() {
                let d = a[k] - b[k];
                s = s + d * d;
            }
            s.sqrt()
        }
        Metric::Manhattan => {
            for k in 0..a.len() {
                s = s + (a[k] - b[k]).abs();
            }
            s
        }
    }
}

pub struct Truth {
    pub n: usize,
    /// eps-neighbours of every training point, the point itself included
    pub adj: Vec<Vec<usize>>,
    pub core: Vec<bool>,
    /// representative (smallest index) of the density-connected component of a core point
    pub comp: Vec<usize>,
    pub n_core: usize,
    pub n_comp: usize,
    pub any_dist_eq_eps: bool,
    pub any_duplicate: bool,
}

fn find(p: &mut [usize], mut i: usize) -> usize {
    while p[i] != i {
        p[i] = p[p[i]];
        i = p[i];
    }
    i
}

pub fn truth<T: RealNumber>(m: Metric, x: &[Vec<T>], eps: T, min_samples: usize) -> Truth {
    let n = x.len();
    let mut adj: Vec<Vec<usize>> = (0..n).map(|i| vec![i]).collect();
    let (mut eq, mut dup) = (false, false);
    for i in 0..n {
        for j in (i + 1)..n {
            let d = odist(m, &x[i], &x[j]);
            if d <= eps {
                adj[i].push(j);
                adj[j].push(i);
            }
            if d == eps {
                eq = true;
            }
            if d == T::zero() {
                dup = true;
            }
        }
    }
    for a in adj.iter_mut() {
        a.sort_unstable();
    }
    let core: Vec<bool> = adj.iter().map(|a| a.len() >= min_samples).collect();
    let mut p: Vec<usize> = (0..n).collect();
    for i in 0..n {
        if !core[i] {
            continue;
        }
        for &j in &adj[i] {
            if j > i && core[j] {
                let (a, b) = (find(&mut p, i), find(&mut p, j));
                if a != b {
                    // smaller index becomes the representative
                    let (lo, hi) = (a.min(b), a.max(b));
                    p[hi] = lo;
                }
            }
        }
    }
    let comp: Vec<usize> = (0..n).map(|i| if core[i] { find(&mut p, i) } else { usize::MAX }).collect();
    let n_core = core.iter().filter(|c| **c).count();
    let n_comp = (0..n).filter(|&i| core[i] && comp[i] == i).count();
    Truth { n, adj, core, comp, n_core, n_comp, any_dist_eq_eps: eq, any_duplicate: dup }
}

/// Which run of the library a finding is about.
#[derive(Clone, Copy, PartialEq, Eq, Debug)]
pub enum Tag {
    Linear,
    Cover,
    /// the comparison of the two backends
    Cross,
}

pub struct Item {
    pub tag: Tag,
    pub site: String,
    pub what: String,
    /// index of the query row, for findings about `predict`
    pub query: Option<usize>,
}

/// Buffers the findings of one execution (each site key at most once per backend); they are
/// classified and emitted by `run_case` once everything about the execution is known.
#[derive(Default)]
pub struct Reporter {
    seen: BTreeSet<(u8, String)>,
    pub items: Vec<Item>,
    tag: Option<Tag>,
    query: Option<usize>,
}

impl Reporter {
    pub fn set_tag(&mut self, t: Tag) {
        self.tag = Some(t);
        self.query = None;
    }
    pub fn v(&mut self, site: &str, what: impl FnOnce() -> String) {
        let tag = self.tag.expect("reporter tag");
        if self.seen.insert((tag as u8, site.to_string())) {
            self.items.push(Item { tag, site: site.to_string(), what: what(), query: self.query });
        }
    }
}

/// The premise of every metric-tree pruning rule is the triangle inequality d(q,c) <= d(q,x) + d(x,c).
/// With rounded distances it can fail by an ulp when it is tight (collinear points). Returns a
/// witness (c, x): x is within eps of q although d(q,c) > eps + d(c,x) in the arithmetic of `T`.
pub fn tight_triangle<T: RealNumber>(m: Metric, xs: &[Vec<T>], q: &[T], eps: T) -> Option<(usize, usize)> {
    let dq: Vec<T> = xs.iter().map(|p| odist(m, q, p)).collect();
    for x in 0..xs.len() {
        if dq[x] <= eps {
            for c in 0..xs.len() {
                if dq[c] > eps + odist(m, &xs[c], &xs[x]) {
                    return Some((c, x));
                }
            }
        }
    }
    None
}

/// Clauses 1-5 of the statement for one training labelling. Returns true when every label is in
/// range (so that the labelling can be used to judge `predict`).
pub fn check_fit(rep: &mut Reporter, ctx: &str, backend: &str, t: &Truth, labels: &[i64], c: usize) -> bool {
    let n = t.n;
    if labels.len() != n {
        rep.v("dbscan.fit:label-count", || format!("{} backend={}: {} training labels for {} rows", ctx, backend, labels.len(), n));
        return false;
    }
    // every label is either noise (-1) or a cluster label 0..c-1
    if let Some(i) = (0..n).find(|&i| labels[i] < -1 || labels[i] >= c as i64) {
        let l = labels[i];
        rep.v("dbscan.fit:label-out-of-range", || {
            format!("{} backend={}: point {} carries label {} which is neither noise (-1) nor in 0..num_classes-1 (num_classes={}); labels={:?}", ctx, backend, i, l, c, labels)
        });
        if labels.iter().any(|l| *l >= c as i64) {
            return false;
        }
        // labels below -1 are treated as "not in a cluster" by the remaining clauses
    }
    // labels 0..c-1 without gaps
    let mut used = vec![false; c];
    labels.iter().filter(|l| **l >= 0).for_each(|l| used[*l as usize] = true);
    if let Some(g) = used.iter().position(|u| !*u) {
        rep.v("dbscan.fit:label-gap", || format!("{} backend={}: num_classes={} but no point carries label {}; labels={:?}", ctx, backend, c, g, labels));
    }
    // clause 1: every core point belongs to a cluster
    if let Some(i) = (0..n).find(|&i| t.core[i] && labels[i] < 0) {
        rep.v("dbscan.fit:core-point-unclustered", || {
            format!("{} backend={}: point {} has {} points within eps (core) but is labelled noise; labels={:?}", ctx, backend, i, t.adj[i].len(), labels)
        });
    }
    // clause 2: cores share a label exactly when density-connected
    let mut label_of_comp: Vec<i64> = vec![-9; n];
    let mut comp_of_label: Vec<usize> = vec![usize::MAX; c];
    for i in 0..n {
        if !t.core[i] || labels[i] < 0 {
            continue;
        }
        let (r, l) = (t.comp[i], labels[i]);
        if label_of_comp[r] == -9 {
            label_of_comp[r] = l;
        } else if label_of_comp[r] != l {
            let other = (0..i).find(|&j| t.core[j] && t.comp[j] == r && labels[j] != l && labels[j] >= 0).unwrap_or(r);
            rep.v("dbscan.fit:connected-cores-split", || {
                format!("{} backend={}: core points {} and {} are density-connected but carry labels {} and {}; labels={:?}", ctx, backend, other, i, labels[other], l, labels)
            });
        }
        let lu = l as usize;
        if comp_of_label[lu] == usize::MAX {
            comp_of_label[lu] = r;
        } else if comp_of_label[lu] != r {
            let other = (0..i).find(|&j| t.core[j] && labels[j] == l && t.comp[j] != r).unwrap_or(comp_of_label[lu]);
            rep.v("dbscan.fit:unconnected-cores-merged", || {
                format!("{} backend={}: core points {} and {} are not density-connected but both carry label {}; labels={:?}", ctx, backend, other, i, l, labels)
            });
        }
    }
    // clauses 3 and 4: border points and noise
    for i in 0..n {
        if t.core[i] {
            continue;
        }
        let core_nb: Vec<usize> = t.adj[i].iter().cloned().filter(|&j| t.core[j]).collect();
        if core_nb.is_empty() {
            if labels[i] >= 0 {
                rep.v("dbscan.fit:noise-point-clustered", || {
                    format!("{} backend={}: point {} is not core and has no core point within eps, but carries cluster label {}; labels={:?}", ctx, backend, i, labels[i], labels)
                });
            }
            continue;
        }
        let allowed: Vec<i64> = core_nb.iter().map(|&j| labels[j]).filter(|l| *l >= 0).collect();
        if allowed.is_empty() || allowed.contains(&labels[i]) {
            continue; // (unclustered cores were reported under clause 1)
        }
        if labels[i] < 0 {
            rep.v("dbscan.fit:border-left-as-noise", || {
                format!("{} backend={}: point {} is not core but within eps of core point(s) {:?} (labels {:?}), yet it is labelled noise; labels={:?}", ctx, backend, i, core_nb, allowed, labels)
            });
        } else {
            rep.v("dbscan.fit:border-foreign-label", || {
                format!("{} backend={}: border point {} carries label {} but the core points within eps of it {:?} carry {:?}; labels={:?}", ctx, backend, i, labels[i], core_nb, allowed, labels)
            });
        }
    }
    true
}

/// Clause 6: core-point labels and the noise set do not depend on the backend.
pub fn check_backends(rep: &mut Reporter, ctx: &str, t: &Truth, lin: &[i64], cov: &[i64]) {
    if lin.len() != t.n || cov.len() != t.n {
        return;
    }
    if let Some(i) = (0..t.n).find(|&i| t.core[i] && lin[i] != cov[i]) {
        rep.v("dbscan.fit:core-labels-depend-on-backend", || {
            format!("{}: core point {} is labelled {} with linear search and {} with the cover tree; linear={:?} covertree={:?}", ctx, i, lin[i], cov[i], lin, cov)
        });
    }
    if let Some(i) = (0..t.n).find(|&i| (lin[i] < 0) != (cov[i] < 0)) {
        rep.v("dbscan.fit:noise-set-depends-on-backend", || {
            format!("{}: point {} is labelled {} with linear search and {} with the cover tree (noise in one only); linear={:?} covertree={:?}", ctx, i, lin[i], cov[i], lin, cov)
        });
    }
}

#[derive(Default)]
pub struct PredictStats {
    pub no_neighbours: u64,
    pub ties: u64,
    pub noise_wins: u64,
    pub cluster_wins: u64,
}

/// Clause 7: `predict` = plurality among the training points within eps of the row (judged against
/// the labelling of the very model that predicts); noise when there are none or noise dominates;
/// any of the tied clusters is accepted (noise that only ties with a cluster does not dominate).
#[allow(clippy::too_many_arguments)]
pub fn check_predict<T: RealNumber>(
    rep: &mut Reporter,
    ctx: &str,
    backend: &str,
    m: Metric,
    x: &[Vec<T>],
    eps: T,
    labels: &[i64],
    c: usize,
    queries: &[Vec<T>],
    pred: &[f64],
) -> PredictStats {
    let mut st = PredictStats::default();
    if pred.len() != queries.len() {
        rep.v("dbscan.predict:result-length", || format!("{} backend={}: {} predictions for {} rows", ctx, backend, pred.len(), queries.len()));
        return st;
    }
    let mut cnt = vec![0usize; c + 1]; // slot c = noise
    for (qi, q) in queries.iter().enumerate() {
        cnt.iter_mut().for_each(|v| *v = 0);
        rep.query = Some(qi);
        let mut nb = 0usize;
        for i in 0..x.len() {
            if odist(m, &x[i], q) <= eps {
                nb += 1;
                let l = labels[i];
                cnt[if l < 0 { c } else { l as usize }] += 1;
            }
        }
        let got = pred[qi];
        let qf = || q.iter().map(|v| v.to_f64().unwrap()).collect::<Vec<f64>>();
        if nb == 0 {
            st.no_neighbours += 1;
            if got != -1.0 {
                rep.v("dbscan.predict:no-neighbours", || {
                    format!("{} backend={}: row {:?} has no training point within eps but is labelled {} instead of noise (-1); training labels={:?}", ctx, backend, qf(), got, labels)
                });
            }
            continue;
        }
        let top = *cnt.iter().max().unwrap();
        let winners: Vec<i64> = (0..=c).filter(|&l| cnt[l] == top).map(|l| if l == c { -1 } else { l as i64 }).collect();
        // unclustered points that merely tie with a cluster do not dominate: noise is then not an answer
        let winners: Vec<i64> = if winners.len() > 1 { winners.into_iter().filter(|w| *w >= 0).collect() } else { winners };
        if winners.len() > 1 {
            st.ties += 1;
        } else if winners[0] < 0 {
            st.noise_wins += 1;
        } else {
            st.cluster_wins += 1;
        }
        let ok = winners.iter().any(|w| *w as f64 == got);
        if !ok {
            let site = if winners == [-1] {
                "dbscan.predict:noise-plurality-ignored"
            } else if got == -1.0 {
                "dbscan.predict:cluster-plurality-labelled-noise"
            } else {
                "dbscan.predict:not-a-plurality-label"
            };
            rep.v(site, || {
                format!(
                    "{} backend={}: row {:?}: votes among the {} training points within eps per label 0..{} = {:?}, noise = {}; plurality answer(s) {:?} but predict returned {}; training labels={:?}",
                    ctx,
                    backend,
                    qf(),
                    nb,
                    c as i64 - 1,
                    &cnt[..c],
                    cnt[c],
                    winners,
                    got,
                    labels
                )
            });
        }
    }
    st
}
