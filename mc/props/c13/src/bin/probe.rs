use smartcore::algorithm::neighbour::cover_tree::CoverTree;
use smartcore::math::distance::Distances;
use smartcore::math::distance::Distance;
fn main() {
    let d = Distances::euclidian();
    for v in [vec![1.0,1.0], vec![1.0,2.0], vec![1.0,1.0,1.0], vec![1.0,3.0], vec![2.0,3.0], vec![1.0,1.0,2.0], vec![0.1], vec![0.3]] {
        for n in 2..=12usize {
            let data: Vec<Vec<f64>> = (0..n).map(|i| v.iter().map(|c| c * i as f64).collect()).collect();
            let eps = d.distance(&data[0], &data[1]);
            let tree = CoverTree::new(data.clone(), Distances::euclidian()).unwrap();
            let mut bad = vec![];
            for (i, q) in data.iter().enumerate() {
                let mut got: Vec<usize> = tree.find_radius(q, eps).unwrap().iter().map(|x| x.0).collect();
                got.sort();
                let want: Vec<usize> = (0..n).filter(|&j| d.distance(q, &data[j]) <= eps).collect();
                if got != want { bad.push((i, got, want)); }
            }
            if !bad.is_empty() { println!("v={:?} n={} eps={} bad={:?}", v, n, eps, bad); break; }
        }
    }
}
