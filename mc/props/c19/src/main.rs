//! C19 — every model survives a serialise/deserialise round trip unchanged, and model equality is
//! meaningful.
//!
//! E1 over a finite configuration catalogue: every serialisable public type (with its kernel /
//! distance / search-structure / solver variants, f64 and f32) x a catalogue of lattice data sets of
//! different shapes x value variants x {bincode, JSON}; the dense matrix type over every shape up to
//! a bound, every sign pattern, both widths, bincode, JSON and the hand-written JSON map form with
//! its fields in every order; and, for the inequality clause, every pair of "twin" data sets
//! (different rows and different targets) per type. Estimators that draw random numbers are fitted
//! with the draws owned (default answers; catalogue round trips: every schedule with at most one,
//! thorough two, deviations from them) or with a fixed seed.
//!
//! Extension (round 2), job kind `edge`: configurations whose fitted state holds legitimate boundary
//! values (SVR without support vectors, one support-vector pair, exact-zero / tiny priors, unsmoothed
//! naive Bayes with ln(0), k = n, DBSCAN all-noise / single-cluster, single-leaf trees, one-tree
//! forests, one-component decompositions, all-zero coefficients) x their edge data sets x value
//! variants x {bincode, JSON}, through the same round-trip oracle.

mod cmp;
mod data;
mod subjects;

use cmp::{debug_compare, differing_fields, mentions_non_finite, non_finite_only_neg_inf, obs_compare, obs_digest, obs_materially_different};
use data::{Data, Domain, Micro, Task};
use mc_core::{self as mc, json, Harness, Job, Plan, Tier};
use mc_sc::{own_rng, release_rng, take_draws, RngMode};
use smartcore::linalg::naive::dense_matrix::DenseMatrix;
use smartcore::linalg::BaseMatrix;
use subjects::{matrix_model, subjects, Model, Num, Subject};

struct C19;

thread_local! {
    static S64: Vec<Subject> = subjects::<f64>();
    static S32: Vec<Subject> = subjects::<f32>();
}

fn with_subject<R>(name: &str, f: impl FnOnce(&Subject, f64) -> R) -> R {
    let go = |v: &Vec<Subject>, eps: f64| {
        let s = v.iter().find(|s| s.name == name).unwrap_or_else(|| panic!("unknown subject {}", name));
        f(s, eps)
    };
    if name.ends_with("<f32>") {
        S32.with(|v| go(v, f32::EPSILON as f64))
    } else {
        S64.with(|v| go(v, f64::EPSILON))
    }
}

#[derive(Clone, Copy, PartialEq, Eq, Debug)]
enum Format {
    Bincode,
    Json,
}

impl Format {
    fn name(self) -> &'static str {
        match self {
            Format::Bincode => "bincode",
            Format::Json => "json",
        }
    }
}

enum FitOutcome {
    Model(Box<dyn Model>),
    Failed(String),
    Panicked(String),
}

/// Fit under the panic guard; the random draws of the estimator (if any) are answered by the
/// explorer (deviation-kind choices: alternative 0 is the default answer).
fn fit_subject(s: &Subject, d: &Data) -> FitOutcome {
    if s.random {
        own_rng(RngMode::Deviations);
    }
    let r = mc::guard(|| (s.fit)(d));
    if s.random {
        let _ = take_draws();
        release_rng();
    }
    match r {
        Ok(Ok(m)) => FitOutcome::Model(m),
        Ok(Err(e)) => FitOutcome::Failed(e),
        Err(p) => FitOutcome::Panicked(p.brief()),
    }
}

/// Re-fit with exactly the same answers to the random draws as the first fit of this execution:
/// the draws of the first fit are replayed from a private chooser, so the explorer's choice trace
/// is not extended (the schedule is the one already chosen).
fn refit_subject(s: &Subject, d: &Data, draws: &[usize]) -> FitOutcome {
    if s.random {
        let answers: Vec<usize> = draws.to_vec();
        let mut k = 0usize;
        smartcore::verif_hooks::install(Box::new(move |_site, n| {
            let a = answers.get(k).copied().unwrap_or(0);
            k += 1;
            a.min(n - 1)
        }));
    }
    let r = mc::guard(|| (s.fit)(d));
    if s.random {
        release_rng();
    }
    match r {
        Ok(Ok(m)) => FitOutcome::Model(m),
        Ok(Err(e)) => FitOutcome::Failed(e),
        Err(p) => FitOutcome::Panicked(p.brief()),
    }
}

fn fit_with_draws(s: &Subject, d: &Data) -> (FitOutcome, Vec<usize>) {
    if s.random {
        own_rng(RngMode::Deviations);
    }
    let r = mc::guard(|| (s.fit)(d));
    let draws: Vec<usize> = if s.random {
        let dr = take_draws().into_iter().map(|x| x.2).collect();
        release_rng();
        dr
    } else {
        Vec::new()
    };
    let o = match r {
        Ok(Ok(m)) => FitOutcome::Model(m),
        Ok(Err(e)) => FitOutcome::Failed(e),
        Err(p) => FitOutcome::Panicked(p.brief()),
    };
    (o, draws)
}

thread_local! {
    static COUNTER_NAMES: std::cell::RefCell<std::collections::HashMap<String, &'static str>> = std::cell::RefCell::new(std::collections::HashMap::new());
}

/// `fitted:<subject>`: one non-vacuity counter per type configuration (names are interned once).
fn fitted_counter(subject: &str) -> &'static str {
    named_counter("fitted:", subject)
}

fn named_counter(prefix: &str, subject: &str) -> &'static str {
    COUNTER_NAMES.with(|m| {
        let mut m = m.borrow_mut();
        let key = format!("{}{}", prefix, subject);
        if let Some(n) = m.get(&key) {
            return *n;
        }
        let leaked: &'static str = Box::leak(key.clone().into_boxed_str());
        m.insert(key, leaked);
        leaked
    })
}

fn trunc(s: &str, n: usize) -> String {
    if s.chars().count() <= n {
        s.to_string()
    } else {
        format!("{}…", s.chars().take(n).collect::<String>())
    }
}

fn data_brief(d: &Data, task: Task) -> String {
    format!("data {} ({}x{}) rows {:?} targets {:?}", d.name, d.n(), d.p(), d.x, d.target(task))
}

/// The round-trip clauses for one model and one format. `ctx` describes the case; `comp` is the
/// component part of the site key; `eps` the machine epsilon of the model's numeric width.
fn round_trip_checks(comp: &str, ctx: &str, m: &dyn Model, q: &[Vec<f64>], fmt: Format, eps: f64) {
    let fname = fmt.name();
    let dbg = m.debug();
    let non_finite = mentions_non_finite(&dbg);
    // naive Bayes models whose only non-finite numbers are -inf: the stored logarithm of a zero
    // probability (no smoothing) — a legitimate value, and a site class of its own
    let class = if non_finite && comp.ends_with("_nb") && non_finite_only_neg_inf(&dbg) {
        "log-probability-of-zero"
    } else if non_finite {
        "non-finite-parameter"
    } else {
        "finite-model"
    };
    if non_finite {
        mc::count("models_with_non_finite_parameters");
    }
    // --- serialise
    enum Wire {
        B(Vec<u8>),
        J(String),
    }
    let wire = match fmt {
        Format::Bincode => mc::guard(|| m.to_bincode()).map(|r| r.map(Wire::B)),
        Format::Json => mc::guard(|| m.to_json()).map(|r| r.map(Wire::J)),
    };
    let wire = match wire {
        Ok(Ok(w)) => w,
        Ok(Err(e)) => {
            mc::violation(format!("{}.{}.serialize:error:{}", comp, fname, class), format!("{}: serialisation fails: {}", ctx, e));
            return;
        }
        Err(p) => {
            mc::violation(format!("{}.{}.serialize:panic:{}", comp, fname, class), format!("{}: serialisation panics: {}", ctx, p.brief()));
            return;
        }
    };
    // --- deserialise
    let back = match &wire {
        Wire::B(b) => mc::guard(|| m.from_bincode(b)),
        Wire::J(s) => mc::guard(|| m.from_json(s)),
    };
    let wire_text = match &wire {
        Wire::B(b) => format!("{} bytes", b.len()),
        Wire::J(s) => trunc(s, 300),
    };
    let r = match back {
        Ok(Ok(r)) => r,
        Ok(Err(e)) => {
            mc::violation(format!("{}.{}.deserialize:error:{}", comp, fname, class), format!("{}: the serialised model ({}) cannot be deserialised: {}", ctx, wire_text, e));
            return;
        }
        Err(p) => {
            mc::violation(format!("{}.{}.deserialize:panic:{}", comp, fname, class), format!("{}: deserialising the serialised model ({}) panics: {}", ctx, wire_text, p.brief()));
            return;
        }
    };
    mc::count(match fmt {
        Format::Bincode => "round_trips_bincode",
        Format::Json => "round_trips_json",
    });
    // did decimal rounding change any bit? (JSON only; judged on the binary form of both objects)
    let rounded = match fmt {
        Format::Bincode => false,
        Format::Json => {
            let (a, b) = (m.to_bincode(), r.to_bincode());
            let changed = a.is_err() || b.is_err() || a != b;
            if changed {
                mc::count("json_round_trips_with_decimal_rounding");
            }
            changed
        }
    };
    let exact = !rounded;
    // --- restored == original
    match mc::guard(|| (r.eq_model(m), m.eq_model(r.as_ref()))) {
        Ok((Some(a), Some(b))) => {
            mc::count("equality_checked_restored");
            if (!a || !b) && non_finite {
                mc::count("equality_not_judged_non_finite_model");
            } else if (!a || !b) && exact {
                mc::violation(
                    format!("{}.{}:restored-not-equal:{}", comp, fname, class),
                    format!("{}: restored == original is {}, original == restored is {} (the restored object is bit-identical in its binary form: {})", ctx, a, b, exact),
                );
            } else if !a || !b {
                mc::count("json_rounded_restored_compares_unequal");
            }
        }
        Ok(_) => mc::count("types_without_partial_eq"),
        Err(p) => mc::violation(format!("{}.{}:eq-panics", comp, fname), format!("{}: comparing restored and original panics: {}", ctx, p.brief())),
    }
    // --- complete state (Debug rendering): unchanged
    let state_tol = if exact { None } else { Some(64.0 * eps) };
    let dbg_r = r.debug();
    if let Some(diff) = debug_compare(&dbg, &dbg_r, state_tol) {
        // which serialised fields changed; a field that is not part of the serial form at all
        // (skipped) cannot show up there
        let mut fields = differing_fields(&m.to_value(), &r.to_value(), 64.0 * eps, 2);
        if fields == "none" {
            fields = "field-absent-from-serial-form".into();
        }
        mc::violation(format!("{}.{}:state-changed:{}", comp, fname, fields), format!("{}: the restored object's state differs from the original's ({})", ctx, diff));
    }
    // --- a second serialisation of the restored object gives the same bytes / text
    if exact {
        let again = match &wire {
            Wire::B(b) => mc::guard(|| r.to_bincode()).ok().and_then(|x| x.ok()).map(|x| x == *b),
            Wire::J(s) => mc::guard(|| r.to_json()).ok().and_then(|x| x.ok()).map(|x| x == *s),
        };
        if again != Some(true) {
            mc::violation(format!("{}.{}:reserialised-differs", comp, fname), format!("{}: serialising the restored object does not reproduce the serialised original", ctx));
        }
    }
    // --- identical answers on the query lattice
    let (oa, ob) = (m.observe(q), r.observe(q));
    let tol = if exact { None } else { Some(4096.0 * eps) };
    mc::count_n("query_rows_compared", q.len() as u64);
    if let Some(diff) = obs_compare(&oa, &ob, tol) {
        if exact {
            mc::violation(format!("{}.{}:answers-differ", comp, fname), format!("{}: original and restored model answer differently on the query lattice ({}; bit-for-bit comparison of bit-identical-looking objects)", ctx, diff));
        } else {
            // decimal rounding moved a parameter by an ulp: answers at exact ties (nearest
            // neighbour, argmax, threshold) may legitimately flip; the state comparison above has
            // already shown the restored object to be the original up to that rounding
            mc::count("json_rounded_answers_differ_at_ties");
        }
    }
    mc::outcome(obs_digest(&oa));
    mc::outcome(mc::hash::h_str(&dbg));
    let nq = q.len();
    mc::describe(|| {
        json!({
            "format": fname,
            "serialised": wire_text,
            "decimal_rounding_changed_bits": rounded,
            "model_debug": trunc(&dbg, 600),
            "queries": nq,
            "observations": oa.iter().take(3).map(|o| json!({"what": o.label, "answer": match &o.res { Ok(v) => json!(v.iter().take(12).collect::<Vec<_>>()), Err(e) => json!(e) }})).collect::<Vec<_>>(),
        })
    });
}

/// self-equality and equality of a second fit
fn equality_checks(s: &Subject, ctx: &str, d: &Data, m: &dyn Model, draws: &[usize]) {
    let comp = s.component;
    if mentions_non_finite(&m.debug()) {
        // NaN != NaN is IEEE semantics, not a property of the model type: equality of models that
        // hold a non-finite parameter is not judged
        mc::count("equality_not_judged_non_finite_model");
        return;
    }
    let class = "finite-model";
    match mc::guard(|| m.eq_model(m)) {
        Ok(Some(true)) => mc::count("equality_checked_self"),
        Ok(Some(false)) => mc::violation(format!("{}.eq:not-reflexive:{}", comp, class), format!("{}: model == model is false", ctx)),
        Ok(None) => {}
        Err(p) => mc::violation(format!("{}.eq:panics", comp), format!("{}: model == model panics: {}", ctx, p.brief())),
    }
    match refit_subject(s, d, draws) {
        FitOutcome::Model(m2) => match mc::guard(|| (m.eq_model(m2.as_ref()), m2.eq_model(m))) {
            Ok((Some(a), Some(b))) => {
                mc::count("equality_checked_refit");
                if !a || !b {
                    let fields = differing_fields(&m.to_value(), &m2.to_value(), 0.0, 2);
                    mc::violation(
                        format!("{}.eq:refit-not-equal:{}:{}", comp, class, fields),
                        format!("{}: a second fit on the same data (same answers to all random draws) does not compare equal (first == second: {}, second == first: {}; serialised fields that differ: {})", ctx, a, b, fields),
                    );
                }
            }
            Ok(_) => {}
            Err(p) => mc::violation(format!("{}.eq:panics", comp), format!("{}: first fit == second fit panics: {}", ctx, p.brief())),
        },
        FitOutcome::Failed(e) => mc::violation(format!("{}.fit:second-fit-fails", comp), format!("{}: the second fit on the same data fails: {}", ctx, e)),
        FitOutcome::Panicked(e) => mc::violation(format!("{}.fit:second-fit-fails", comp), format!("{}: the second fit on the same data panics: {}", ctx, e)),
    }
}

fn rt_case(s: &Subject, eps: f64, d: &Data, fmt: Format, edge: bool) {
    let ctx = format!("{} fitted on {}, {}", s.name, data_brief(d, s.task), fmt.name());
    let (fit, draws) = fit_with_draws(s, d);
    let m = match fit {
        FitOutcome::Model(m) => m,
        FitOutcome::Failed(e) => {
            mc::count("fit_refused");
            if edge {
                mc::count(named_counter("edge_fit_refused:", &s.name));
            }
            mc::describe(|| json!({"subject": s.name, "data": d.name, "fit": format!("refused: {}", e)}));
            return;
        }
        FitOutcome::Panicked(e) => {
            // a panicking fit is the business of the property that owns the estimator
            mc::count("fit_panicked");
            if edge {
                mc::count(named_counter("edge_fit_panicked:", &s.name));
            }
            mc::describe(|| json!({"subject": s.name, "data": d.name, "fit": format!("panicked: {}", e)}));
            return;
        }
    };
    mc::count("models_fitted");
    mc::count(fitted_counter(&s.name));
    if edge {
        mc::count("edge:models_fitted");
        edge_counters(s, d, m.as_ref());
    }
    mc::nontrivial();
    mc::describe(|| json!({"subject": s.name, "data": d.name, "rows": d.x, "targets": d.target(s.task), "random_draw_answers": draws}));
    if fmt == Format::Bincode {
        equality_checks(s, &ctx, d, m.as_ref(), &draws);
    }
    let q = data::queries(d, s.domain);
    round_trip_checks(s.component, &ctx, m.as_ref(), &q, fmt, eps);
}

/// The inequality clause: a model does not equal a model fitted on different rows and targets.
fn neq_case(s: &Subject, eps: f64, a: &Data, b: &Data) {
    let rows_differ = a.x != b.x;
    let targets_differ = s.task == Task::Unsupervised || a.target(s.task) != b.target(s.task);
    if !rows_differ || !targets_differ {
        mc::count("neq_pairs_skipped_same_rows_or_targets");
        return;
    }
    let (ma, mb) = match (fit_subject(s, a), fit_subject(s, b)) {
        (FitOutcome::Model(x), FitOutcome::Model(y)) => (x, y),
        _ => {
            mc::count("neq_pairs_fit_failed");
            return;
        }
    };
    let (e1, e2) = match mc::guard(|| (ma.eq_model(mb.as_ref()), mb.eq_model(ma.as_ref()))) {
        Ok((Some(x), Some(y))) => (x, y),
        Ok(_) => {
            mc::count("types_without_partial_eq");
            return;
        }
        Err(p) => {
            mc::violation(format!("{}.eq:panics", s.component), format!("{} fitted on {} and on {}: == panics: {}", s.name, data_brief(a, s.task), data_brief(b, s.task), p.brief()));
            return;
        }
    };
    mc::nontrivial();
    // the same queries for both models: the union of the two query lattices
    let mut q = data::queries(a, s.domain);
    for r in data::queries(b, s.domain) {
        if !q.contains(&r) {
            q.push(r);
        }
    }
    let (oa, ob) = (ma.observe(&q), mb.observe(&q));
    mc::outcome(mc::hash::mix(obs_digest(&oa), obs_digest(&ob)));
    mc::outcome((e1 as u64) * 2 + e2 as u64);
    mc::describe(|| json!({"subject": s.name, "first": {"data": a.name, "rows": a.x, "targets": a.target(s.task)}, "second": {"data": b.name, "rows": b.x, "targets": b.target(s.task)}, "first==second": e1, "second==first": e2}));
    if !e1 && !e2 {
        mc::count("neq_pairs_unequal");
        return;
    }
    // the stored state must differ far above the tolerance of the == implementations (an absolute
    // epsilon), otherwise differing answers are ties broken by rounding noise
    let fields = differing_fields(&ma.to_value(), &mb.to_value(), 1e-6, 1);
    if fields == "none" {
        mc::count("neq_pairs_equal_and_state_within_noise");
        return;
    }
    match obs_materially_different(&oa, &ob, (16384.0 * eps).max(1e-6)) {
        Some((true, what)) => {
            mc::violation(
                format!("{}.eq:equal-despite-different-{}", s.component, fields),
                format!(
                    "{}: the model fitted on {} compares equal (a==b: {}, b==a: {}) to the model fitted on {} although they answer differently ({}); serialised fields that differ: {}",
                    s.name,
                    data_brief(a, s.task),
                    e1,
                    e2,
                    data_brief(b, s.task),
                    what,
                    fields
                ),
            );
        }
        Some((false, _)) => mc::count("neq_pairs_equal_and_indistinguishable"),
        None => mc::count("neq_pairs_too_close_to_call"),
    }
}

// ------------------------------------------------------------------------------------------------
// the dense matrix type: every shape, sign pattern, serial form

const MATRIX_FORMS: usize = 9; // bincode, json, json seq form, 6 key orders of the json map form

fn index_coded(r: usize, c: usize, pattern: usize) -> Vec<Vec<f64>> {
    (0..r)
        .map(|i| {
            (0..c)
                .map(|j| {
                    let v = (1 + i * 16 + j) as f64;
                    match pattern {
                        0 => v,
                        1 => -v,
                        2 => {
                            if (i + j) % 2 == 0 {
                                v
                            } else {
                                -v
                            }
                        }
                        3 => {
                            if i % 2 == 0 {
                                v
                            } else {
                                -v
                            }
                        }
                        // non-dyadic values: decimal rounding through JSON
                        _ => v * 0.1 + 1.0 / 3.0,
                    }
                })
                .collect()
        })
        .collect()
}

fn build_matrix<T: Num>(rows: &[Vec<f64>], r: usize, c: usize, via_transpose: bool) -> DenseMatrix<T> {
    let mut m = DenseMatrix::<T>::zeros(r, c);
    if via_transpose {
        // built as the transpose of its transpose-shaped twin (another construction path)
        let mut tw = DenseMatrix::<T>::zeros(c, r);
        for i in 0..r {
            for j in 0..c {
                tw.set(j, i, T::from(rows[i][j]).unwrap());
            }
        }
        m = tw.transpose();
    } else {
        for i in 0..r {
            for j in 0..c {
                m.set(i, j, T::from(rows[i][j]).unwrap());
            }
        }
    }
    m
}

fn matrix_case<T: Num>(r: usize, c: usize, pattern: usize, via_transpose: bool, form: usize) {
    let rows = index_coded(r, c, pattern);
    let ctx = format!("DenseMatrix<{}> {}x{} {:?}{}", T::NAME, r, c, rows, if via_transpose { " (built by transpose())" } else { "" });
    let built = mc::guard(|| build_matrix::<T>(&rows, r, c, via_transpose));
    let m = match built {
        Ok(m) => m,
        Err(p) => {
            // constructing the matrix is not this property's business
            mc::count("matrix_construction_panicked");
            mc::describe(|| json!({"matrix": ctx, "construction": p.brief()}));
            return;
        }
    };
    mc::nontrivial();
    mc::count("matrices");
    if r != c {
        mc::count("non_square_matrices");
    }
    let model = matrix_model::<T>(m);
    let eps = T::eps64();
    match mc::guard(|| model.eq_model(model.as_ref())) {
        Ok(Some(true)) => {}
        _ => mc::violation("dense_matrix.eq:not-reflexive", format!("{}: m == m is not true", ctx)),
    }
    match form {
        0 => round_trip_checks("dense_matrix", &ctx, model.as_ref(), &[], Format::Bincode, eps),
        1 => round_trip_checks("dense_matrix", &ctx, model.as_ref(), &[], Format::Json, eps),
        _ => {
            // hand-written JSON: the library's own field values, rearranged
            let v = model.to_value();
            let (nr, nc, vals) = (v["nrows"].clone(), v["ncols"].clone(), v["values"].clone());
            if !nr.is_u64() || !nc.is_u64() || !vals.is_array() {
                mc::violation("dense_matrix.json:fields", format!("{}: the JSON form {} does not have the fields nrows, ncols, values", ctx, trunc(&v.to_string(), 200)));
                return;
            }
            let fields = [("nrows", nr.to_string()), ("ncols", nc.to_string()), ("values", vals.to_string())];
            const ORDERS: [[usize; 3]; 6] = [[0, 1, 2], [0, 2, 1], [1, 0, 2], [1, 2, 0], [2, 0, 1], [2, 1, 0]];
            let (text, form_name) = if form == 2 {
                (format!("[{},{},{}]", fields[0].1, fields[1].1, fields[2].1), "json sequence form".to_string())
            } else {
                let o = ORDERS[form - 3];
                (format!("{{\"{}\":{},\"{}\":{},\"{}\":{}}}", fields[o[0]].0, fields[o[0]].1, fields[o[1]].0, fields[o[1]].1, fields[o[2]].0, fields[o[2]].1), format!("json map form, fields in order {}, {}, {}", fields[o[0]].0, fields[o[1]].0, fields[o[2]].0))
            };
            let site_form = if form == 2 { "json-seq" } else { "json-map" };
            mc::count("matrix_handwritten_json_forms");
            let back = mc::guard(|| model.from_json(&text));
            let rm = match back {
                Ok(Ok(x)) => x,
                Ok(Err(e)) => {
                    mc::violation(format!("dense_matrix.{}.deserialize:error", site_form), format!("{}: {} {} is rejected: {}", ctx, form_name, trunc(&text, 200), e));
                    return;
                }
                Err(p) => {
                    mc::violation(format!("dense_matrix.{}.deserialize:panic", site_form), format!("{}: {} {} panics: {}", ctx, form_name, trunc(&text, 200), p.brief()));
                    return;
                }
            };
            let exact = matches!((model.to_bincode(), rm.to_bincode()), (Ok(a), Ok(b)) if a == b);
            if !exact {
                mc::count("json_round_trips_with_decimal_rounding");
            }
            if exact && mc::guard(|| rm.eq_model(model.as_ref())).ok().flatten() != Some(true) {
                mc::violation(format!("dense_matrix.{}:restored-not-equal", site_form), format!("{}: the matrix read from the {} does not equal the original", ctx, form_name));
            }
            if let Some(diff) = obs_compare(&model.observe(&[]), &rm.observe(&[]), if exact { None } else { Some(4096.0 * eps) }) {
                mc::violation(format!("dense_matrix.{}:entries-differ", site_form), format!("{}: the matrix read from the {} differs: {}", ctx, form_name, diff));
            }
            mc::outcome(obs_digest(&rm.observe(&[])));
            mc::describe(|| json!({"matrix": ctx, "form": form_name, "text": trunc(&text, 300)}));
        }
    }
}

// ------------------------------------------------------------------------------------------------

/// Types fitted by an iterative optimiser without an iteration bound that holds at extreme scales
/// (their termination is the business of C08-C10; e.g. Lasso<f32> does not terminate on the 8x5
/// data set shifted by 10): they get the three moderate value variants only, and the VERIF_SEED
/// lattice offset is not applied to them.
fn iterative(subject_name: &str) -> bool {
    ["svc[", "svr[", "lasso[", "elastic_net[", "logistic_regression["].iter().any(|p| subject_name.starts_with(p))
}

fn applicable(s: &Subject, d: &Data) -> bool {
    d.p() >= s.min_p
}

/// The type configurations of the original job kinds (rt, neq, micro): everything that is not an
/// edge-only configuration.
fn subject_names() -> Vec<(String, Domain, Task, bool, usize)> {
    let mut v: Vec<(String, Domain, Task, bool, usize)> = Vec::new();
    S64.with(|s| v.extend(s.iter().filter(|x| !x.edge_only).map(|x| (x.name.clone(), x.domain, x.task, x.random, x.min_p))));
    S32.with(|s| v.extend(s.iter().filter(|x| !x.edge_only).map(|x| (x.name.clone(), x.domain, x.task, x.random, x.min_p))));
    v
}

/// The members of the edge family (Extension round 2): (name, domain, random, number of edge data
/// sets it is fitted on, edge-only).
fn edge_subject_names(thorough: bool) -> Vec<(String, Domain, bool, usize, bool)> {
    let mut v = Vec::new();
    let mut add = |s: &Vec<Subject>| v.extend(s.iter().filter(|x| !x.edge_tags.is_empty()).map(|x| (x.name.clone(), x.domain, x.random, data::edge_data_for(&x.edge_tags, x.min_p, thorough).len(), x.edge_only)));
    S64.with(|s| add(s));
    S32.with(|s| add(s));
    v
}

/// Non-vacuity of the edge family: which boundary values does the fitted state (its serialised
/// form) actually contain? One counter per boundary class; floors in `plan`.
fn edge_counters(s: &Subject, d: &Data, m: &dyn Model) {
    let v = m.to_value();
    let len = |k: &str| v.get(k).and_then(|x| x.as_array()).map(|a| a.len());
    let dist = &v["inner"]["distribution"];
    let nums = |x: &mc::Value| -> Vec<f64> {
        fn walk(x: &mc::Value, out: &mut Vec<f64>) {
            match x {
                mc::Value::Number(n) => out.push(n.as_f64().unwrap_or(f64::NAN)),
                mc::Value::Null => out.push(f64::NAN),
                mc::Value::Array(a) => a.iter().for_each(|e| walk(e, out)),
                mc::Value::Object(o) => o.values().for_each(|e| walk(e, out)),
                _ => {}
            }
        }
        let mut o = Vec::new();
        walk(x, &mut o);
        o
    };
    match s.component {
        "svr" | "svc" => match (len("instances"), len("w")) {
            (Some(0), Some(0)) => mc::count("edge:svm_no_support_vectors"),
            (Some(2), Some(2)) if d.n() == 2 => mc::count("edge:svm_single_support_vector_pair"),
            (Some(1), Some(1)) if d.n() == 2 => mc::count("edge:svm_two_rows_one_support_vector"),
            _ => mc::count("edge:svm_other"),
        },
        "gaussian_nb" | "multinomial_nb" | "bernoulli_nb" | "categorical_nb" => {
            let pri = nums(&dist["class_priors"]);
            if pri.iter().any(|p| *p == 0.0) {
                mc::count("edge:nb_prior_exactly_zero");
            }
            if pri.iter().any(|p| *p > 0.0 && *p < 1e-290) {
                mc::count("edge:nb_prior_tiny_or_subnormal");
            }
            // JSON writes a non-finite float as null
            let lp: Vec<f64> = ["feature_log_prob", "coefficients"].iter().filter_map(|k| dist.get(*k)).flat_map(|x| nums(x)).collect();
            if lp.iter().any(|p| !p.is_finite()) {
                mc::count("edge:nb_log_probability_of_zero");
            }
        }
        "knn_classifier" | "knn_regressor" => {
            if v["k"].as_u64() == Some(d.n() as u64) {
                mc::count("edge:knn_k_equals_n");
            }
        }
        "dbscan" => {
            let labels = nums(&v["cluster_labels"]);
            if !labels.is_empty() && labels.iter().all(|l| *l == -1.0) && v["num_classes"].as_u64() == Some(0) {
                mc::count("edge:dbscan_all_noise");
            } else if labels.iter().all(|l| *l == 0.0) && v["num_classes"].as_u64() == Some(1) {
                mc::count("edge:dbscan_single_cluster");
            } else {
                mc::count("edge:dbscan_other");
            }
        }
        "decision_tree_classifier" | "decision_tree_regressor" => {
            if len("nodes") == Some(1) {
                mc::count("edge:tree_single_leaf");
            } else {
                mc::count("edge:tree_with_splits");
            }
        }
        "random_forest_classifier" | "random_forest_regressor" => {
            if len("trees") == Some(1) {
                mc::count("edge:forest_single_tree");
                if v["trees"][0]["nodes"].as_array().map(|a| a.len()) == Some(1) {
                    mc::count("edge:forest_single_tree_single_leaf");
                }
            }
        }
        "pca" => {
            if v["projection"]["ncols"].as_u64() == Some(1) {
                mc::count("edge:decomposition_one_component");
            }
        }
        "truncated_svd" => {
            if v["components"]["ncols"].as_u64() == Some(1) {
                mc::count("edge:decomposition_one_component");
            }
        }
        "linear_regression" | "ridge_regression" | "lasso" | "elastic_net" => {
            let c = nums(&v["coefficients"]["values"]);
            if !c.is_empty() && c.iter().all(|x| *x == 0.0) {
                mc::count("edge:linear_coefficients_exactly_zero");
            } else if !c.is_empty() && c.iter().all(|x| x.abs() < 1e-6) {
                mc::count("edge:linear_coefficients_numerically_zero");
            } else {
                mc::count("edge:linear_coefficients_other");
            }
        }
        _ => {}
    }
}

fn micro_families(thorough: bool) -> Vec<Micro> {
    if thorough {
        vec![
            Micro { n: 3, p: 1, sigma: 3 },
            Micro { n: 4, p: 1, sigma: 3 },
            Micro { n: 3, p: 2, sigma: 2 },
            Micro { n: 3, p: 2, sigma: 3 },
            Micro { n: 4, p: 2, sigma: 2 },
            Micro { n: 5, p: 1, sigma: 3 },
            Micro { n: 3, p: 3, sigma: 2 },
            Micro { n: 4, p: 2, sigma: 3 },
        ]
    } else {
        vec![Micro { n: 3, p: 1, sigma: 3 }, Micro { n: 3, p: 2, sigma: 2 }]
    }
}

impl Harness for C19 {
    fn id(&self) -> &'static str {
        "C19"
    }

    fn plan(&self, tier: Tier, seed: u64) -> Plan {
        let th = tier.is_thorough();
        let mut jobs = Vec::new();
        // (1) the dense matrix type
        let rmax = if th { 8 } else { 5 };
        for w in ["f64", "f32"] {
            for r in 0..=rmax {
                jobs.push(Job::new(format!("matrix-{}-r{}", w, r), json!({"kind": "matrix", "width": w, "r": r, "cmax": rmax})));
            }
        }
        let names = subject_names();
        let n_cat = data::catalogue().len();
        // (2) round trips over the catalogue
        for (name, domain, _task, random, _) in &names {
            let mut j = Job::new(format!("rt-{}", name), json!({"kind": "rt", "subject": name, "datasets": n_cat, "variants": data::n_variants(*domain, th, iterative(name)), "seed": seed}));
            if *random {
                j = j.with_dev_bound(if th { 2 } else { 1 });
            }
            jobs.push(j);
        }
        // (3) the inequality clause over pairs of twins
        for (name, domain, _task, random, _) in &names {
            let nv = if th { data::n_variants(*domain, false, true) } else { 1 };
            for di in 0..n_cat {
                let mut j = Job::new(format!("neq-{}-d{}", name, di), json!({"kind": "neq", "subject": name, "dataset": di, "variants": nv, "seed": seed}));
                if *random {
                    j = j.with_dev_bound(0);
                }
                jobs.push(j);
            }
        }
        // (4) round trips over exhaustively enumerated micro data sets
        for (fi, fam) in micro_families(th).iter().enumerate() {
            for (name, _domain, task, random, min_p) in &names {
                // the interior-point solver of Lasso / ElasticNet does not terminate on some degenerate
                // micro data sets (f32, zero-variance column): not this property's business
                if fam.p < *min_p || name.starts_with("lasso[") || name.starts_with("elastic_net[") {
                    continue;
                }
                // the largest family (6561 matrices) at f64 only, plain values only
                let big = fam.n_x() > 1000;
                if big && name.ends_with("<f32>") {
                    continue;
                }
                let nvar = if big { 1 } else if th || fam.n_x() <= 27 { 2 } else { 1 };
                // one job per block of feature matrices
                let nx = fam.n_x();
                let block = if nx > 1000 { 243 } else if nx >= 243 { 81 } else { 27.min(nx) };
                let ny = if *task == Task::Unsupervised { 1 } else { fam.n_y() };
                for b in 0..((nx + block - 1) / block) {
                    let mut j = Job::new(format!("micro{}-{}-b{}", fi, name, b), json!({"kind": "micro", "subject": name, "mn": fam.n, "mp": fam.p, "ms": fam.sigma, "x0": b * block, "xn": block.min(nx - b * block), "ny": ny, "variants": nvar}));
                    if *random {
                        j = j.with_dev_bound(0);
                    }
                    jobs.push(j);
                }
            }
        }
        // (5) Extension (round 2): the edge family — fitted models whose state holds legitimate
        // boundary values, through the full round-trip oracle
        let edge_names = edge_subject_names(th);
        for (name, domain, random, n_data, _) in &edge_names {
            if *n_data == 0 {
                continue;
            }
            let mut j = Job::new(format!("edge-{}", name), json!({"kind": "edge", "subject": name, "datasets": n_data, "variants": data::n_variants(*domain, th, iterative(name)), "seed": seed, "thorough": if th { 1 } else { 0 }}));
            if *random {
                j = j.with_dev_bound(if th { 2 } else { 1 });
            }
            jobs.push(j);
        }
        Plan {
            jobs,
            budget_s: if th { 2400 } else { 40 },
            case_deadline_ms: 20_000,
            floors: {
                let mut f: Vec<(&'static str, u64)> = vec![
                    ("matrices", 6_000),
                    ("non_square_matrices", 5_000),
                    ("matrix_handwritten_json_forms", 5_000),
                    ("models_fitted", 100_000),
                    ("round_trips_bincode", 50_000),
                    ("round_trips_json", 50_000),
                    ("equality_checked_restored", 100_000),
                    ("equality_checked_self", 50_000),
                    ("equality_checked_refit", 50_000),
                    ("neq_pairs_unequal", 8_000),
                    ("query_rows_compared", 4_000_000),
                    ("json_round_trips_with_decimal_rounding", 1_000),
                ];
                // every type configuration must have produced models (catalogue round trips alone
                // are 36 executions per configuration)
                for (name, ..) in &names {
                    f.push((fitted_counter(name), 12));
                }
                // Extension (round 2): the edge family is not vacuous — every boundary class it
                // promises actually occurs in fitted state (quick-tier counts in NOTES.md), and
                // every edge-only configuration produced models
                f.extend([
                    ("edge:models_fitted", 12_000),
                    ("edge:svm_no_support_vectors", 1_200),
                    ("edge:svm_single_support_vector_pair", 500),
                    ("edge:nb_prior_exactly_zero", 900),
                    ("edge:nb_prior_tiny_or_subnormal", 250),
                    ("edge:nb_log_probability_of_zero", 100),
                    ("edge:knn_k_equals_n", 3_000),
                    ("edge:dbscan_all_noise", 700),
                    ("edge:dbscan_single_cluster", 700),
                    ("edge:tree_single_leaf", 600),
                    ("edge:forest_single_tree", 1_000),
                    ("edge:forest_single_tree_single_leaf", 200),
                    ("edge:decomposition_one_component", 120),
                    ("edge:linear_coefficients_exactly_zero", 700),
                ]);
                for (name, _, _, n_data, edge_only) in &edge_names {
                    if *edge_only && *n_data > 0 {
                        f.push((fitted_counter(name), 12));
                    }
                }
                f
            },
            bounds: json!({
                "dense_matrix": format!("every shape 0..={r} x 0..={r}, 5 value patterns (4 index-coded sign patterns + non-dyadic), built directly and by transpose(), f64 and f32, 9 serial forms (bincode, JSON, JSON sequence form, JSON map form with its 3 fields in all 6 orders)", r = rmax),
                "subjects": format!("{} type configurations (each at f64 and f32 counted separately)", names.len()),
                "round_trips": format!("every subject x {} catalogue data sets (6x1, 9x2, 8x2, 10x3, 12x4, 8x5) x value variants ({} for real-valued, 3 for count data; VERIF_SEED selects one of 8 lattice offsets) x {{bincode, JSON}}; queries: the half-step / integer lattice of the data set's dimension plus the training rows", n_cat, if th { "3, and 5 incl. the scales 2^-30 and 2^30 for types that are not fitted by an iterative optimiser" } else { "3" }),
                "inequality": format!("every subject with == x every catalogue data set x {} variant(s) x every unordered pair of its {} twins (identity, shifted rows + renamed targets, appended row + changed targets, reversed order, mirrored column + swapped classes, reversed order + only the largest class name / target replaced)", if th { 3 } else { 1 }, data::N_TWINS),
                "micro": micro_families(th).iter().map(|f| format!("every {}x{} matrix over {{0..{}}} ({}) x every binary labelling using both classes ({}){}", f.n, f.p, f.sigma - 1, f.n_x(), f.n_y(), if f.n_x() > 1000 { " x plain values, f64 only" } else if th || f.n_x() <= 27 { " x {plain, non-dyadic} values" } else { " x plain values" })).collect::<Vec<_>>(),
                "edge_family": format!("Extension (round 2): {} configurations (f64 and f32 counted separately) whose fitted state holds legitimate boundary values x their edge data sets (tags {:?}: catalogue shapes {}; two distinct rows, p = {}; constant targets 0 / 3 / a single class on the catalogue shapes; collinear rank-one rows) x the value variants x {{bincode, JSON}}, full round-trip oracle: SVR with eps = 0.5 x range and 0.75 x range + 0.1 (every kernel; no support vectors), SVC / SVR on two rows (one support-vector pair), Gaussian / multinomial / Bernoulli NB with priors {{[0,1], [1,0], [1e-300,1-1e-300], [5e-324,1]}} / {{[.5,0,.5], [0,0,1], [1e-300,.5,.5], [.5,.5,5e-324]}}, multinomial / Bernoulli / categorical NB with alpha = 0, k-NN with k = n, DBSCAN all-noise / single-cluster (5 distances x 2 search structures), trees with max_depth 0 / min_samples_split 1000 / constant target, forests of one tree, PCA / truncated SVD with one component on two rows and on rank-one data, linear / ridge / lasso / elastic-net on constant targets, ridge alpha = 1e30, lasso / elastic-net alpha = 1e4", edge_names.iter().filter(|e| e.3 > 0).count(), data::EDGE_TAGS, "n6p1, n9p2, n8p2, n10p3, n12p4, n8p5", if th { "1, 2, 3, 5" } else { "1, 2, 3" }),
                "random_estimators": format!("SVC visiting order and k-means++ seeding answered through the verif-hooks seam: default answers and, in the catalogue round trips, every schedule with at most {} deviation(s) from them; forests: the library's seeded generator with 5 fixed seeds", if th { 2 } else { 1 }),
            }),
        }
    }

    fn run(&self, job: &Job) {
        match job.kind() {
            "matrix" => {
                let r = job.u("r");
                let c = mc::choose(job.u("cmax") + 1);
                let pattern = mc::choose(5);
                let via_t = mc::choose(2) == 1;
                let form = mc::choose(MATRIX_FORMS);
                if job.s("width") == "f32" {
                    matrix_case::<f32>(r, c, pattern, via_t, form)
                } else {
                    matrix_case::<f64>(r, c, pattern, via_t, form)
                }
            }
            "rt" => {
                let di = mc::choose(job.u("datasets"));
                let vi = mc::choose(job.u("variants"));
                let fmt = if mc::choose(2) == 0 { Format::Bincode } else { Format::Json };
                let seed = job.u("seed") as u64;
                with_subject(job.s("subject"), |s, eps| {
                    let base = &data::catalogue()[di];
                    if !applicable(s, base) {
                        mc::count("not_applicable");
                        return;
                    }
                    let d = data::variant(base, s.domain, vi, if iterative(&s.name) { 0 } else { seed });
                    rt_case(s, eps, &d, fmt, false);
                })
            }
            "neq" => {
                let vi = mc::choose(job.u("variants"));
                let np = data::N_TWINS * (data::N_TWINS - 1) / 2;
                let pi = mc::choose(np);
                let seed = job.u("seed") as u64;
                let di = job.u("dataset");
                with_subject(job.s("subject"), |s, eps| {
                    let base = &data::catalogue()[di];
                    if !applicable(s, base) {
                        mc::count("not_applicable");
                        return;
                    }
                    let d = data::variant(base, s.domain, vi, if iterative(&s.name) { 0 } else { seed });
                    // unrank the pair
                    let (mut a, mut b, mut k) = (0usize, 1usize, 0usize);
                    'f: for i in 0..data::N_TWINS {
                        for j in (i + 1)..data::N_TWINS {
                            if k == pi {
                                a = i;
                                b = j;
                                break 'f;
                            }
                            k += 1;
                        }
                    }
                    neq_case(s, eps, &data::twin(&d, s.domain, a), &data::twin(&d, s.domain, b));
                })
            }
            "micro" => {
                let fam = Micro { n: job.u("mn"), p: job.u("mp"), sigma: job.u("ms") };
                let xi = job.u("x0") + mc::choose(job.u("xn"));
                let yi = mc::choose(job.u("ny"));
                let fmt = if mc::choose(2) == 0 { Format::Bincode } else { Format::Json };
                let vi = mc::choose(job.u("variants"));
                with_subject(job.s("subject"), |s, eps| {
                    let d = fam.build(xi, yi);
                    // value variant 1: non-dyadic features / targets, renamed classes
                    let d = if vi == 0 { d } else { data::variant(&d, s.domain, vi, 0) };
                    rt_case(s, eps, &d, fmt, false);
                })
            }
            "edge" => {
                let di = mc::choose(job.u("datasets"));
                let vi = mc::choose(job.u("variants"));
                let fmt = if mc::choose(2) == 0 { Format::Bincode } else { Format::Json };
                let seed = job.u("seed") as u64;
                let th = job.u("thorough") == 1;
                with_subject(job.s("subject"), |s, eps| {
                    let base = &data::edge_data_for(&s.edge_tags, s.min_p, th)[di];
                    let d = data::variant(base, s.domain, vi, if iterative(&s.name) { 0 } else { seed });
                    rt_case(s, eps, &d, fmt, true);
                })
            }
            other => panic!("unknown job kind {}", other),
        }
    }

    fn cleanup(&self) {
        release_rng();
    }

    fn rule(&self) -> String {
        "one execution = one (type configuration, numeric width, data set [catalogue, micro or edge], value variant, serial format) or one (type configuration, pair of twin data sets) or one (matrix shape, pattern, construction path, serial form); non-trivial = the library object could be built and was serialised / compared; distinct = digest of the model's state rendering and of its answers on the query lattice".into()
    }

    fn assumptions(&self) -> Vec<String> {
        vec![
            "the complete state of an object is what its derived Debug rendering shows; 'unchanged' is judged on it (bit for bit through bincode, numbers within 64 eps through JSON when decimal rounding changed a bit)".into(),
            "through JSON, restored == original is demanded only when the restored object is bit-identical in binary form (serde_json without float_roundtrip may be one ulp off; the statement allows decimal rounding)".into(),
            "two models are 'observably different' when some answer on the union of their query lattices differs by more than 1e-6 of the output scale; only then is a == b reported".into(),
            "estimators whose fit panics or is refused on a data set are not subjects of this property on that data set (counted, not judged)".into(),
            "SVC / k-means are fitted with the random draws owned through the verif-hooks seam; forests use their seeded generator with fixed seeds".into(),
            "the RNG call sites of /repo/src equal /verif/rng_sites.allow (checked at start-up)".into(),
        ]
    }

    fn engine(&self) -> &'static str {
        "E1 stateless choice-tree exploration of the real code over a finite configuration catalogue (type x data set x variant x format), differential oracle original vs restored"
    }
}

fn main() {
    if let Err(e) = mc_sc::check_rng_sites() {
        eprintln!("MACHINERY-ERROR: {}", e);
        std::process::exit(2);
    }
    mc::main(C19)
}
