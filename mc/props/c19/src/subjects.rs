//! The catalogue of serialisable public types ("subjects") of the C19 harness: for every type and
//! configuration variant a closure that fits / builds the real library object on a data set and
//! wraps it into a `Model` (serialise, deserialise, `==`, `Debug`, observations on a query set).

use crate::cmp::Obs;
use crate::data::{Data, Domain, Task};
use mc_core::{self as mc, Value};
use mc_sc::dm;
use serde::de::DeserializeOwned;
use serde::Serialize;
use smartcore::algorithm::neighbour::cover_tree::CoverTree;
use smartcore::algorithm::neighbour::linear_search::LinearKNNSearch;
use smartcore::algorithm::neighbour::KNNAlgorithmName;
use smartcore::cluster::dbscan::{DBSCANParameters, DBSCAN};
use smartcore::cluster::kmeans::{KMeans, KMeansParameters};
use smartcore::decomposition::pca::{PCAParameters, PCA};
use smartcore::decomposition::svd::{SVDParameters, SVD};
use smartcore::ensemble::random_forest_classifier::{RandomForestClassifier, RandomForestClassifierParameters};
use smartcore::ensemble::random_forest_regressor::{RandomForestRegressor, RandomForestRegressorParameters};
use smartcore::error::Failed;
use smartcore::linalg::naive::dense_matrix::DenseMatrix;
use smartcore::linalg::BaseMatrix;
use smartcore::linear::elastic_net::{ElasticNet, ElasticNetParameters};
use smartcore::linear::lasso::{Lasso, LassoParameters};
use smartcore::linear::linear_regression::{LinearRegression, LinearRegressionParameters, LinearRegressionSolverName};
use smartcore::linear::logistic_regression::{LogisticRegression, LogisticRegressionParameters};
use smartcore::linear::ridge_regression::{RidgeRegression, RidgeRegressionParameters, RidgeRegressionSolverName};
use smartcore::math::distance::euclidian::Euclidian;
use smartcore::math::distance::hamming::Hamming;
use smartcore::math::distance::mahalanobis::Mahalanobis;
use smartcore::math::distance::manhattan::Manhattan;
use smartcore::math::distance::minkowski::Minkowski;
use smartcore::math::distance::Distance;
use smartcore::math::num::RealNumber;
use smartcore::naive_bayes::bernoulli::{BernoulliNB, BernoulliNBParameters};
use smartcore::naive_bayes::categorical::{CategoricalNB, CategoricalNBParameters};
use smartcore::naive_bayes::gaussian::{GaussianNB, GaussianNBParameters};
use smartcore::naive_bayes::multinomial::{MultinomialNB, MultinomialNBParameters};
use smartcore::neighbors::knn_classifier::{KNNClassifier, KNNClassifierParameters};
use smartcore::neighbors::knn_regressor::{KNNRegressor, KNNRegressorParameters};
use smartcore::neighbors::KNNWeightFunction;
use smartcore::svm::svc::{SVCParameters, SVC};
use smartcore::svm::svr::{SVRParameters, SVR};
use smartcore::svm::{Kernel, Kernels, LinearKernel, PolynomialKernel, RBFKernel, SigmoidKernel};
use smartcore::tree::decision_tree_classifier::{DecisionTreeClassifier, DecisionTreeClassifierParameters, SplitCriterion};
use smartcore::tree::decision_tree_regressor::{DecisionTreeRegressor, DecisionTreeRegressorParameters};
use std::any::Any;
use std::fmt::Debug;
use std::rc::Rc;

pub trait Num: RealNumber + Serialize + DeserializeOwned + std::iter::Sum + Default + 'static {
    const NAME: &'static str;
    fn eps64() -> f64;
}
impl Num for f64 {
    const NAME: &'static str = "f64";
    fn eps64() -> f64 {
        f64::EPSILON
    }
}
impl Num for f32 {
    const NAME: &'static str = "f32";
    fn eps64() -> f64 {
        f32::EPSILON as f64
    }
}

/// A fitted / constructed library object behind a uniform interface.
pub trait Model {
    fn to_bincode(&self) -> Result<Vec<u8>, String>;
    fn to_json(&self) -> Result<String, String>;
    fn to_value(&self) -> Value;
    fn from_bincode(&self, b: &[u8]) -> Result<Box<dyn Model>, String>;
    fn from_json(&self, s: &str) -> Result<Box<dyn Model>, String>;
    /// `==` of the library type; None when the type does not implement PartialEq
    fn eq_model(&self, o: &dyn Model) -> Option<bool>;
    fn debug(&self) -> String;
    fn observe(&self, q: &[Vec<f64>]) -> Vec<Obs>;
    fn as_any(&self) -> &dyn Any;
}

type ObsFn<M> = Rc<dyn Fn(&M, &[Vec<f64>]) -> Vec<Obs>>;

struct W<M> {
    m: M,
    eq: Option<fn(&M, &M) -> bool>,
    obs: ObsFn<M>,
}

impl<M: Serialize + DeserializeOwned + Debug + 'static> Model for W<M> {
    fn to_bincode(&self) -> Result<Vec<u8>, String> {
        bincode::serialize(&self.m).map_err(|e| e.to_string())
    }
    fn to_json(&self) -> Result<String, String> {
        serde_json::to_string(&self.m).map_err(|e| e.to_string())
    }
    fn to_value(&self) -> Value {
        serde_json::to_value(&self.m).unwrap_or(Value::Null)
    }
    fn from_bincode(&self, b: &[u8]) -> Result<Box<dyn Model>, String> {
        let m: M = bincode::deserialize(b).map_err(|e| e.to_string())?;
        Ok(Box::new(W { m, eq: self.eq, obs: self.obs.clone() }))
    }
    fn from_json(&self, s: &str) -> Result<Box<dyn Model>, String> {
        let m: M = serde_json::from_str(s).map_err(|e| e.to_string())?;
        Ok(Box::new(W { m, eq: self.eq, obs: self.obs.clone() }))
    }
    fn eq_model(&self, o: &dyn Model) -> Option<bool> {
        let f = self.eq?;
        let other = o.as_any().downcast_ref::<W<M>>()?;
        Some(f(&self.m, &other.m))
    }
    fn debug(&self) -> String {
        format!("{:?}", self.m)
    }
    fn observe(&self, q: &[Vec<f64>]) -> Vec<Obs> {
        (self.obs)(&self.m, q)
    }
    fn as_any(&self) -> &dyn Any {
        self
    }
}

fn peq<M: PartialEq>(a: &M, b: &M) -> bool {
    a == b
}

fn wrap_eq<M: Serialize + DeserializeOwned + Debug + PartialEq + 'static>(m: M, obs: ObsFn<M>) -> Box<dyn Model> {
    Box::new(W { m, eq: Some(peq::<M> as fn(&M, &M) -> bool), obs })
}

fn wrap_noeq<M: Serialize + DeserializeOwned + Debug + 'static>(m: M, obs: ObsFn<M>) -> Box<dyn Model> {
    Box::new(W { m, eq: None, obs })
}

/// Build a `Model` directly from a library object that has `==` (used for DenseMatrix).
pub fn matrix_model<T: Num>(m: DenseMatrix<T>) -> Box<dyn Model> {
    wrap_eq(m, Rc::new(|m: &DenseMatrix<T>, _q: &[Vec<f64>]| matrix_obs(m)))
}

fn matrix_obs<T: Num>(m: &DenseMatrix<T>) -> Vec<Obs> {
    let (r, c) = m.shape();
    vec![Obs::vals("shape", vec![r as f64, c as f64]), Obs::vals("entries(row-major)", mat_vals(m))]
}

pub struct Subject {
    /// configuration name, e.g. "svc[rbf]<f64>"
    pub name: String,
    /// component used in site keys, e.g. "svc"
    pub component: &'static str,
    pub task: Task,
    pub domain: Domain,
    pub min_p: usize,
    /// draws through the verif-hooks seam while fitting (SVC visiting order, k-means++ seeding)
    pub random: bool,
    #[allow(clippy::type_complexity)]
    pub fit: Box<dyn Fn(&Data) -> Result<Box<dyn Model>, String>>,
    /// Extension (round 2): tags of the edge data sets (`data::edge_catalogue`) this configuration
    /// is fitted on in the `edge` job kind (empty: not part of the edge family)
    pub edge_tags: Vec<&'static str>,
    /// a configuration that exists only for the edge family (its CONFIGURATION is the boundary
    /// case: k = n, eps wider than the target range, zero priors, ...): no rt / neq / micro jobs
    pub edge_only: bool,
}

/// Mark the configuration pushed last as a member of the edge family.
fn edge(v: &mut [Subject], tags: &[&'static str], edge_only: bool) {
    let s = v.last_mut().expect("a subject was pushed");
    s.edge_tags = tags.to_vec();
    s.edge_only = edge_only;
}

fn es(e: Failed) -> String {
    e.to_string()
}

fn t<T: Num>(v: f64) -> T {
    T::from(v).unwrap()
}

fn f<T: Num>(v: T) -> f64 {
    v.to_f64().unwrap()
}

fn xm<T: Num>(d: &Data) -> DenseMatrix<T> {
    dm(&d.x)
}

fn yv<T: Num>(d: &Data, task: Task) -> Vec<T> {
    d.target(task).iter().map(|v| t::<T>(*v)).collect()
}

fn vals<T: Num>(v: &[T]) -> Vec<f64> {
    v.iter().map(|e| f(*e)).collect()
}

fn mat_vals<T: Num>(m: &DenseMatrix<T>) -> Vec<f64> {
    let (r, c) = m.shape();
    let mut o = Vec::with_capacity(r * c);
    for i in 0..r {
        for j in 0..c {
            o.push(f(m.get(i, j)));
        }
    }
    o
}

fn row_t<T: Num>(r: &[f64]) -> Vec<T> {
    r.iter().map(|e| t::<T>(*e)).collect()
}

fn call_outcome<V>(r: Result<Result<V, Failed>, mc::PanicInfo>, conv: impl Fn(V) -> Vec<f64>) -> Result<Vec<f64>, String> {
    match r {
        Ok(Ok(v)) => Ok(conv(v)),
        Ok(Err(e)) => Err(format!("error: {}", e)),
        Err(p) => Err(format!("panic: {}", p.msg)),
    }
}

/// Ask a predictor for the whole query matrix; when that fails, ask row by row so that the rows that
/// can be answered are still compared.
fn predict_obs<T: Num>(label: &str, q: &[Vec<f64>], call: &dyn Fn(&DenseMatrix<T>) -> Result<Vec<T>, Failed>) -> Vec<Obs> {
    let whole = mc::guard(|| call(&dm::<T>(q)));
    if let Ok(Ok(v)) = whole {
        return vec![Obs::vals(label, vals(&v))];
    }
    q.iter()
        .enumerate()
        .map(|(i, r)| Obs { label: format!("{}[row {}]", label, i), res: call_outcome(mc::guard(|| call(&dm::<T>(&[r.clone()]))), |v| vals(&v)) })
        .collect()
}

fn transform_obs<T: Num>(label: &str, q: &[Vec<f64>], call: &dyn Fn(&DenseMatrix<T>) -> Result<DenseMatrix<T>, Failed>) -> Vec<Obs> {
    let whole = mc::guard(|| call(&dm::<T>(q)));
    if let Ok(Ok(v)) = whole {
        return vec![Obs::vals(label, mat_vals(&v))];
    }
    q.iter()
        .enumerate()
        .map(|(i, r)| Obs { label: format!("{}[row {}]", label, i), res: call_outcome(mc::guard(|| call(&dm::<T>(&[r.clone()]))), |v| mat_vals(&v)) })
        .collect()
}

macro_rules! subj {
    ($v:ident, $name:expr, $comp:expr, $task:expr, $dom:expr, $minp:expr, $random:expr, |$d:ident| $body:block) => {
        $v.push(Subject {
            name: format!("{}<{}>", $name, T::NAME),
            component: $comp,
            task: $task,
            domain: $dom,
            min_p: $minp,
            random: $random,
            fit: Box::new(move |$d: &Data| -> Result<Box<dyn Model>, String> { $body }),
            edge_tags: Vec::new(),
            edge_only: false,
        })
    };
}

type DM<T> = DenseMatrix<T>;

// ------------------------------------------------------------------------------------------------
// distances and everything parameterised by a distance

fn neighbour_results<T: Num>(r: Result<Result<Vec<(usize, T, &Vec<T>)>, Failed>, mc::PanicInfo>) -> Result<Vec<f64>, String> {
    call_outcome(r, |v| {
        let mut o = Vec::with_capacity(v.len() * 2);
        for (i, d, p) in v {
            o.push(i as f64);
            o.push(f(d));
            o.extend(p.iter().map(|e| f(*e)));
        }
        o
    })
}

#[allow(clippy::type_complexity)]
fn add_distance_subjects<T: Num, D>(v: &mut Vec<Subject>, dname: &'static str, domain_min_p: usize, mk: fn(&DM<T>) -> D, all_algorithms: bool)
where
    D: Distance<Vec<T>, T> + Serialize + DeserializeOwned + Debug + Clone + 'static,
{
    // the distance itself
    subj!(v, format!("distance[{}]", dname), "distance", Task::Unsupervised, Domain::Real, domain_min_p, false, |d| {
        let dist = mk(&xm::<T>(d));
        Ok(wrap_noeq(
            dist,
            Rc::new(|m: &D, q: &[Vec<f64>]| {
                let pts: Vec<Vec<T>> = q.iter().take(40).map(|r| row_t::<T>(r)).collect();
                let mut o = Vec::new();
                for a in &pts {
                    let r = mc::guard(|| Ok::<Vec<T>, Failed>(pts.iter().map(|b| m.distance(a, b)).collect()));
                    o.push(Obs { label: "distance(a, every b)".into(), res: call_outcome(r, |v| vals(&v)) });
                }
                o
            }),
        ))
    });
    // search structures
    subj!(v, format!("cover_tree[{}]", dname), "cover_tree", Task::Unsupervised, Domain::Real, domain_min_p, false, |d| {
        let x = xm::<T>(d);
        let rows: Vec<Vec<T>> = d.x.iter().map(|r| row_t::<T>(r)).collect();
        let n = rows.len();
        let unit = d.unit;
        let tree = CoverTree::new(rows, mk(&x)).map_err(es)?;
        Ok(wrap_eq(
            tree,
            Rc::new(move |m: &CoverTree<Vec<T>, T, D>, q: &[Vec<f64>]| {
                let mut o = Vec::new();
                for r in q {
                    let p = row_t::<T>(r);
                    for k in [1usize, 2, 3, n, n + 1] {
                        o.push(Obs { label: format!("find(k={})", k), res: neighbour_results(mc::guard(|| m.find(&p, k))) });
                    }
                    for rad in [0.6, 1.1, 2.3] {
                        o.push(Obs { label: format!("find_radius({} units)", rad), res: neighbour_results(mc::guard(|| m.find_radius(&p, t::<T>(rad * unit)))) });
                    }
                }
                o
            }),
        ))
    });
    subj!(v, format!("linear_search[{}]", dname), "linear_search", Task::Unsupervised, Domain::Real, domain_min_p, false, |d| {
        let x = xm::<T>(d);
        let rows: Vec<Vec<T>> = d.x.iter().map(|r| row_t::<T>(r)).collect();
        let n = rows.len();
        let unit = d.unit;
        let s: LinearKNNSearch<Vec<T>, T, D> = LinearKNNSearch::new(rows, mk(&x)).map_err(es)?;
        Ok(wrap_noeq(
            s,
            Rc::new(move |m: &LinearKNNSearch<Vec<T>, T, D>, q: &[Vec<f64>]| {
                let mut o = Vec::new();
                for r in q {
                    let p = row_t::<T>(r);
                    for k in [1usize, 2, 3, n, n + 1] {
                        o.push(Obs { label: format!("find(k={})", k), res: neighbour_results(mc::guard(|| m.find(&p, k))) });
                    }
                    for rad in [0.6, 1.1, 2.3] {
                        o.push(Obs { label: format!("find_radius({} units)", rad), res: neighbour_results(mc::guard(|| m.find_radius(&p, t::<T>(rad * unit)))) });
                    }
                }
                o
            }),
        ))
    });
    // k-NN estimators and DBSCAN
    let algs: Vec<(&'static str, KNNAlgorithmName)> = if all_algorithms { vec![("cover", KNNAlgorithmName::CoverTree), ("linear", KNNAlgorithmName::LinearSearch)] } else { vec![("cover", KNNAlgorithmName::CoverTree)] };
    for (an, alg) in algs {
        let weights: Vec<(&'static str, KNNWeightFunction)> = if all_algorithms { vec![("uniform", KNNWeightFunction::Uniform), ("distance", KNNWeightFunction::Distance)] } else { vec![("distance", KNNWeightFunction::Distance)] };
        for (wn, w) in weights {
            for (task, tn, k) in [(Task::Binary, "binary", 3usize), (Task::Multi, "multi", 2)] {
                let (alg, w) = (alg.clone(), w.clone());
                subj!(v, format!("knn_classifier[{},{},{},{},k={}]", dname, an, wn, tn, k), "knn_classifier", task, Domain::Real, domain_min_p, false, |d| {
                    let x = xm::<T>(d);
                    let y = yv::<T>(d, task);
                    let p = KNNClassifierParameters::default().with_distance(mk(&x)).with_algorithm(alg.clone()).with_weight(w.clone()).with_k(k);
                    let m = KNNClassifier::fit(&x, &y, p).map_err(es)?;
                    Ok(wrap_eq(m, Rc::new(|m: &KNNClassifier<T, D>, q: &[Vec<f64>]| predict_obs::<T>("predict", q, &|x| m.predict(x)))))
                });
                if task == Task::Multi {
                    // also fitted on data with 255..258 classes (class indices around the u8 boundary)
                    edge(v, &["many-classes"], false);
                }
            }
            let (alg, w) = (alg.clone(), w.clone());
            subj!(v, format!("knn_regressor[{},{},{},k=3]", dname, an, wn), "knn_regressor", Task::Regression, Domain::Real, domain_min_p, false, |d| {
                let x = xm::<T>(d);
                let y = yv::<T>(d, Task::Regression);
                let p = KNNRegressorParameters::default().with_distance(mk(&x)).with_algorithm(alg.clone()).with_weight(w.clone()).with_k(3);
                let m = KNNRegressor::fit(&x, &y, p).map_err(es)?;
                Ok(wrap_eq(m, Rc::new(|m: &KNNRegressor<T, D>, q: &[Vec<f64>]| predict_obs::<T>("predict", q, &|x| m.predict(x)))))
            });
        }
        // edge family: k = n (every training row is a neighbour of every query)
        for (wn, w) in [("uniform", KNNWeightFunction::Uniform), ("distance", KNNWeightFunction::Distance)] {
            let (alg1, w1) = (alg.clone(), w.clone());
            subj!(v, format!("knn_classifier[{},{},{},binary,k=n]", dname, an, wn), "knn_classifier", Task::Binary, Domain::Real, domain_min_p, false, |d| {
                let x = xm::<T>(d);
                let y = yv::<T>(d, Task::Binary);
                let p = KNNClassifierParameters::default().with_distance(mk(&x)).with_algorithm(alg1.clone()).with_weight(w1.clone()).with_k(d.n());
                let m = KNNClassifier::fit(&x, &y, p).map_err(es)?;
                Ok(wrap_eq(m, Rc::new(|m: &KNNClassifier<T, D>, q: &[Vec<f64>]| predict_obs::<T>("predict", q, &|x| m.predict(x)))))
            });
            edge(v, &["plain", "two-rows"], true);
            let (alg1, w1) = (alg.clone(), w.clone());
            subj!(v, format!("knn_regressor[{},{},{},k=n]", dname, an, wn), "knn_regressor", Task::Regression, Domain::Real, domain_min_p, false, |d| {
                let x = xm::<T>(d);
                let y = yv::<T>(d, Task::Regression);
                let p = KNNRegressorParameters::default().with_distance(mk(&x)).with_algorithm(alg1.clone()).with_weight(w1.clone()).with_k(d.n());
                let m = KNNRegressor::fit(&x, &y, p).map_err(es)?;
                Ok(wrap_eq(m, Rc::new(|m: &KNNRegressor<T, D>, q: &[Vec<f64>]| predict_obs::<T>("predict", q, &|x| m.predict(x)))))
            });
            edge(v, &["plain", "two-rows"], true);
        }
        // edge family: DBSCAN in which every point is noise (min_samples = n + 1) and in which all
        // points form one cluster (eps beyond the diameter of the data)
        for (cn, all_noise) in [("all-noise", true), ("single-cluster", false)] {
            let alg1 = alg.clone();
            subj!(v, format!("dbscan[{},{},{}]", dname, an, cn), "dbscan", Task::Unsupervised, Domain::Real, domain_min_p, false, |d| {
                let x = xm::<T>(d);
                let p = DBSCANParameters::default().with_distance(mk(&x)).with_algorithm(alg1.clone());
                let p = if all_noise { p.with_eps(t::<T>(1.1 * d.unit)).with_min_samples(d.n() + 1) } else { p.with_eps(t::<T>(100.0 * d.unit + 100.0)).with_min_samples(2) };
                let m = DBSCAN::fit(&x, p).map_err(es)?;
                Ok(wrap_eq(m, Rc::new(|m: &DBSCAN<T, D>, q: &[Vec<f64>]| predict_obs::<T>("predict", q, &|x| m.predict(x)))))
            });
            edge(v, &["plain", "two-rows"], true);
        }
        let alg = alg.clone();
        subj!(v, format!("dbscan[{},{}]", dname, an), "dbscan", Task::Unsupervised, Domain::Real, domain_min_p, false, |d| {
            let x = xm::<T>(d);
            let p = DBSCANParameters::default().with_distance(mk(&x)).with_algorithm(alg.clone()).with_eps(t::<T>(1.1 * d.unit)).with_min_samples(2);
            let m = DBSCAN::fit(&x, p).map_err(es)?;
            Ok(wrap_eq(m, Rc::new(|m: &DBSCAN<T, D>, q: &[Vec<f64>]| predict_obs::<T>("predict", q, &|x| m.predict(x)))))
        });
    }
}

// ------------------------------------------------------------------------------------------------
// kernels and the support vector machines

fn add_kernel_subjects<T: Num, K>(v: &mut Vec<Subject>, kname: &'static str, mk: fn(f64) -> K)
where
    K: Kernel<T, Vec<T>> + Serialize + DeserializeOwned + Debug + Clone + 'static,
{
    subj!(v, format!("kernel[{}]", kname), "kernel", Task::Unsupervised, Domain::Real, 1, false, |d| {
        Ok(wrap_noeq(
            mk(d.unit),
            Rc::new(|m: &K, q: &[Vec<f64>]| {
                let pts: Vec<Vec<T>> = q.iter().take(40).map(|r| row_t::<T>(r)).collect();
                let mut o = Vec::new();
                for a in &pts {
                    let r = mc::guard(|| Ok::<Vec<T>, Failed>(pts.iter().map(|b| m.apply(a, b)).collect()));
                    o.push(Obs { label: "apply(a, every b)".into(), res: call_outcome(r, |v| vals(&v)) });
                }
                o
            }),
        ))
    });
    subj!(v, format!("svc[{}]", kname), "svc", Task::Binary, Domain::Real, 1, true, |d| {
        let x = xm::<T>(d);
        let y = yv::<T>(d, Task::Binary);
        let p = SVCParameters::<T, DM<T>, LinearKernel>::default().with_kernel(mk(d.unit));
        let m = SVC::fit(&x, &y, p).map_err(es)?;
        Ok(wrap_eq(
            m,
            Rc::new(|m: &SVC<T, DM<T>, K>, q: &[Vec<f64>]| {
                let mut o = predict_obs::<T>("predict", q, &|x| m.predict(x));
                o.extend(predict_obs::<T>("decision_function", q, &|x| m.decision_function(x)));
                o
            }),
        ))
    });
    // edge family: two training rows = a single pair of support vectors
    edge(v, &["two-rows"], false);
    subj!(v, format!("svr[{}]", kname), "svr", Task::Regression, Domain::Real, 1, false, |d| {
        let x = xm::<T>(d);
        let y = yv::<T>(d, Task::Regression);
        let spread = d.y_reg.iter().cloned().fold(f64::MIN, f64::max) - d.y_reg.iter().cloned().fold(f64::MAX, f64::min);
        let p = SVRParameters::<T, DM<T>, LinearKernel>::default().with_kernel(mk(d.unit)).with_eps(t::<T>(0.05 * spread.max(1e-300))).with_c(t::<T>(spread.max(1e-300))).with_tol(t::<T>(1e-3 * spread.max(1.0)));
        let m = SVR::fit(&x, &y, p).map_err(es)?;
        Ok(wrap_eq(m, Rc::new(|m: &SVR<T, DM<T>, K>, q: &[Vec<f64>]| predict_obs::<T>("predict", q, &|x| m.predict(x)))))
    });
    edge(v, &["two-rows"], false);
    // edge family: all targets inside one epsilon-tube (eps exactly half the target range, and
    // 3/4 of the range + 0.1; constant targets via the const-target data sets) => the optimiser
    // does not make a single step: no support vectors, empty `instances` / `w`, prediction == b
    for (tn, factor, extra) in [("tube=0.5*range", 0.5, 0.0), ("tube=0.75*range+0.1", 0.75, 0.1)] {
        subj!(v, format!("svr[{},{}]", kname, tn), "svr", Task::Regression, Domain::Real, 1, false, |d| {
            let x = xm::<T>(d);
            let y = yv::<T>(d, Task::Regression);
            let spread = d.y_reg.iter().cloned().fold(f64::MIN, f64::max) - d.y_reg.iter().cloned().fold(f64::MAX, f64::min);
            let p = SVRParameters::<T, DM<T>, LinearKernel>::default().with_kernel(mk(d.unit)).with_eps(t::<T>(factor * spread + extra)).with_c(t::<T>(spread.max(1.0))).with_tol(t::<T>(1e-3 * spread.max(1.0)));
            let m = SVR::fit(&x, &y, p).map_err(es)?;
            Ok(wrap_eq(m, Rc::new(|m: &SVR<T, DM<T>, K>, q: &[Vec<f64>]| predict_obs::<T>("predict", q, &|x| m.predict(x)))))
        });
        edge(v, &["plain", "const-target"], true);
    }
}

// ------------------------------------------------------------------------------------------------

/// Every serialisable public type named by the property, with its configuration variants, at
/// numeric width T.
pub fn subjects<T: Num>() -> Vec<Subject> {
    let mut v: Vec<Subject> = Vec::new();

    // the dense matrix holding a data set (the shape / layout enumeration is a job kind of its own)
    subj!(v, "dense_matrix[data]", "dense_matrix", Task::Unsupervised, Domain::Real, 1, false, |d| { Ok(matrix_model::<T>(xm::<T>(d))) });

    // distances, search structures, k-NN, DBSCAN
    add_distance_subjects::<T, Euclidian>(&mut v, "euclidian", 1, |_| Euclidian {}, true);
    add_distance_subjects::<T, Manhattan>(&mut v, "manhattan", 1, |_| Manhattan {}, true);
    add_distance_subjects::<T, Minkowski>(&mut v, "minkowski3", 1, |_| Minkowski { p: 3 }, true);
    add_distance_subjects::<T, Hamming>(&mut v, "hamming", 1, |_| Hamming {}, true);
    add_distance_subjects::<T, Mahalanobis<T, DM<T>>>(&mut v, "mahalanobis", 1, |x| Mahalanobis::new(x), true);

    // kernels, SVC, SVR
    add_kernel_subjects::<T, LinearKernel>(&mut v, "linear", |_| Kernels::linear());
    add_kernel_subjects::<T, RBFKernel<T>>(&mut v, "rbf", |u| Kernels::rbf(t::<T>(0.5 / (u * u))));
    add_kernel_subjects::<T, PolynomialKernel<T>>(&mut v, "polynomial", |u| Kernels::polynomial(t::<T>(2.0), t::<T>(0.25 / (u * u)), t::<T>(1.0)));
    add_kernel_subjects::<T, SigmoidKernel<T>>(&mut v, "sigmoid", |u| Kernels::sigmoid(t::<T>(0.1 / (u * u)), t::<T>(0.5)));

    // linear models
    for (sn, solver) in [("qr", LinearRegressionSolverName::QR), ("svd", LinearRegressionSolverName::SVD)] {
        subj!(v, format!("linear_regression[{}]", sn), "linear_regression", Task::Regression, Domain::Real, 1, false, |d| {
            let m = LinearRegression::fit(&xm::<T>(d), &yv::<T>(d, Task::Regression), LinearRegressionParameters::default().with_solver(solver.clone())).map_err(es)?;
            Ok(wrap_eq(
                m,
                Rc::new(|m: &LinearRegression<T, DM<T>>, q: &[Vec<f64>]| {
                    let mut o = predict_obs::<T>("predict", q, &|x| m.predict(x));
                    o.push(Obs::vals("coefficients", mat_vals(m.coefficients())));
                    o.push(Obs::vals("intercept", vec![f(m.intercept())]));
                    o
                }),
            ))
        });
        // edge family: target independent of X (constant 0 / constant c) => coefficients exactly 0
        edge(&mut v, &["const-target"], false);
    }
    for (sn, solver) in [("cholesky", RidgeRegressionSolverName::Cholesky), ("svd", RidgeRegressionSolverName::SVD)] {
        for normalize in [true, false] {
            let solver = solver.clone();
            subj!(v, format!("ridge_regression[{},normalize={}]", sn, normalize), "ridge_regression", Task::Regression, Domain::Real, 1, false, |d| {
                let p = RidgeRegressionParameters::default().with_solver(solver.clone()).with_normalize(normalize).with_alpha(t::<T>(0.5));
                let m = RidgeRegression::fit(&xm::<T>(d), &yv::<T>(d, Task::Regression), p).map_err(es)?;
                Ok(wrap_eq(
                    m,
                    Rc::new(|m: &RidgeRegression<T, DM<T>>, q: &[Vec<f64>]| {
                        let mut o = predict_obs::<T>("predict", q, &|x| m.predict(x));
                        o.push(Obs::vals("coefficients", mat_vals(m.coefficients())));
                        o.push(Obs::vals("intercept", vec![f(m.intercept())]));
                        o
                    }),
                ))
            });
            edge(&mut v, &["const-target"], false);
        }
        // edge family: a penalty so large that every coefficient is (numerically) zero
        let solver = solver.clone();
        subj!(v, format!("ridge_regression[{},normalize=false,alpha=1e30]", sn), "ridge_regression", Task::Regression, Domain::Real, 1, false, |d| {
            let p = RidgeRegressionParameters::default().with_solver(solver.clone()).with_normalize(false).with_alpha(t::<T>(1e30));
            let m = RidgeRegression::fit(&xm::<T>(d), &yv::<T>(d, Task::Regression), p).map_err(es)?;
            Ok(wrap_eq(
                m,
                Rc::new(|m: &RidgeRegression<T, DM<T>>, q: &[Vec<f64>]| {
                    let mut o = predict_obs::<T>("predict", q, &|x| m.predict(x));
                    o.push(Obs::vals("coefficients", mat_vals(m.coefficients())));
                    o.push(Obs::vals("intercept", vec![f(m.intercept())]));
                    o
                }),
            ))
        });
        edge(&mut v, &["plain"], true);
    }
    for (normalize, large) in [(true, false), (false, false), (true, true), (false, true)] {
        // `large` (edge family only): a penalty above max|X'y|, so that every coefficient is driven to 0
        let alpha = if large { 1e4 } else { 0.1 };
        let ln = if large { format!("normalize={},alpha=1e4", normalize) } else { format!("normalize={}", normalize) };
        let ln2 = ln.clone();
        subj!(v, format!("lasso[{}]", ln), "lasso", Task::Regression, Domain::Real, 1, false, |d| {
            let p = LassoParameters::default().with_alpha(t::<T>(alpha)).with_normalize(normalize);
            let m = Lasso::fit(&xm::<T>(d), &yv::<T>(d, Task::Regression), p).map_err(es)?;
            Ok(wrap_eq(
                m,
                Rc::new(|m: &Lasso<T, DM<T>>, q: &[Vec<f64>]| {
                    let mut o = predict_obs::<T>("predict", q, &|x| m.predict(x));
                    o.push(Obs::vals("coefficients", mat_vals(m.coefficients())));
                    o.push(Obs::vals("intercept", vec![f(m.intercept())]));
                    o
                }),
            ))
        });
        if large {
            edge(&mut v, &["plain"], true);
        } else {
            edge(&mut v, &["const-target"], false);
        }
        subj!(v, format!("elastic_net[{}]", ln2), "elastic_net", Task::Regression, Domain::Real, 1, false, |d| {
            let p = ElasticNetParameters::default().with_alpha(t::<T>(alpha)).with_l1_ratio(t::<T>(0.5)).with_normalize(normalize);
            let m = ElasticNet::fit(&xm::<T>(d), &yv::<T>(d, Task::Regression), p).map_err(es)?;
            Ok(wrap_eq(
                m,
                Rc::new(|m: &ElasticNet<T, DM<T>>, q: &[Vec<f64>]| {
                    let mut o = predict_obs::<T>("predict", q, &|x| m.predict(x));
                    o.push(Obs::vals("coefficients", mat_vals(m.coefficients())));
                    o.push(Obs::vals("intercept", vec![f(m.intercept())]));
                    o
                }),
            ))
        });
        if large {
            edge(&mut v, &["plain"], true);
        } else {
            edge(&mut v, &["const-target"], false);
        }
    }
    for (task, tn) in [(Task::Binary, "binary"), (Task::Multi, "multi")] {
        for alpha in [0.0, 1.0] {
            subj!(v, format!("logistic_regression[{},alpha={}]", tn, alpha), "logistic_regression", task, Domain::Real, 1, false, |d| {
                let p = LogisticRegressionParameters::default().with_alpha(t::<T>(alpha));
                let m = LogisticRegression::fit(&xm::<T>(d), &yv::<T>(d, task), p).map_err(es)?;
                Ok(wrap_eq(
                    m,
                    Rc::new(|m: &LogisticRegression<T, DM<T>>, q: &[Vec<f64>]| {
                        let mut o = predict_obs::<T>("predict", q, &|x| m.predict(x));
                        o.push(Obs::vals("coefficients", mat_vals(m.coefficients())));
                        o.push(Obs::vals("intercept", mat_vals(m.intercept())));
                        o
                    }),
                ))
            });
        }
    }

    // trees
    for (cn, crit) in [("gini", SplitCriterion::Gini), ("entropy", SplitCriterion::Entropy), ("classification_error", SplitCriterion::ClassificationError)] {
        for (task, tn) in [(Task::Binary, "binary"), (Task::Multi, "multi")] {
            // max_depth = 0 (edge family only): no split happens, the tree is its root leaf
            for depth in [None, Some(1u16), Some(0u16)] {
                if depth == Some(1) && cn != "gini" {
                    continue;
                }
                let crit = crit.clone();
                subj!(v, format!("decision_tree_classifier[{},{},max_depth={:?}]", cn, tn, depth), "decision_tree_classifier", task, Domain::Real, 1, false, |d| {
                    let mut p = DecisionTreeClassifierParameters::default().with_criterion(crit.clone());
                    p.max_depth = depth;
                    let m = DecisionTreeClassifier::fit(&xm::<T>(d), &yv::<T>(d, task), p).map_err(es)?;
                    Ok(wrap_eq(m, Rc::new(|m: &DecisionTreeClassifier<T>, q: &[Vec<f64>]| predict_obs::<T>("predict", q, &|x| m.predict(x)))))
                });
                // edge family: max_depth 0 => the tree is its root leaf (a single class is refused by
                // `fit`, so there is no const-target variant for the classifier)
                if depth == Some(0) {
                    edge(&mut v, &["plain", "two-rows"], true);
                }
            }
        }
    }
    for (ln, depth, leaf, split) in [("default", None, 1usize, 2usize), ("max_depth=1", Some(1u16), 1, 2), ("min_samples_leaf=2,min_samples_split=4", None, 2, 4), ("max_depth=0", Some(0u16), 1, 2), ("min_samples_split=1000", None, 1, 1000)] {
        subj!(v, format!("decision_tree_regressor[{}]", ln), "decision_tree_regressor", Task::Regression, Domain::Real, 1, false, |d| {
            let mut p = DecisionTreeRegressorParameters::default().with_min_samples_leaf(leaf).with_min_samples_split(split);
            p.max_depth = depth;
            let m = DecisionTreeRegressor::fit(&xm::<T>(d), &yv::<T>(d, Task::Regression), p).map_err(es)?;
            Ok(wrap_eq(m, Rc::new(|m: &DecisionTreeRegressor<T>, q: &[Vec<f64>]| predict_obs::<T>("predict", q, &|x| m.predict(x)))))
        });
        // edge family: constant target => single leaf; max_depth 0 / min_samples_split > n => no split
        if depth == Some(0) || split > 100 {
            edge(&mut v, &["plain", "two-rows"], true);
        } else {
            edge(&mut v, &["const-target"], false);
        }
    }

    // forests (the library's own seeded generator; the seed is part of the configuration)
    // the last two settings (n_trees = 1 with the default m, with and without kept samples) exist for the edge family only
    for (keep, m_try, n_trees, seed, edge_only) in [(false, None, 3usize, 0u64, false), (true, Some(1usize), 4, 7, false), (true, None, 2, 12345, false), (false, Some(2usize), 5, 1, false), (true, Some(1usize), 1, u64::MAX, false), (false, None, 1, 0, true), (true, None, 1, 3, true)] {
        for (task, tn) in [(Task::Binary, "binary"), (Task::Multi, "multi")] {
            subj!(v, format!("random_forest_classifier[{},keep_samples={},m={:?},n_trees={},seed={}]", tn, keep, m_try, n_trees, seed), "random_forest_classifier", task, Domain::Real, 1, false, |d| {
                let mut p = RandomForestClassifierParameters::default().with_n_trees(n_trees as u16).with_keep_samples(keep).with_seed(seed);
                p.m = m_try;
                let x = xm::<T>(d);
                let m = RandomForestClassifier::fit(&x, &yv::<T>(d, task), p).map_err(es)?;
                let train = d.x.clone();
                Ok(wrap_eq(
                    m,
                    Rc::new(move |m: &RandomForestClassifier<T>, q: &[Vec<f64>]| {
                        let mut o = predict_obs::<T>("predict", q, &|x| m.predict(x));
                        let r = mc::guard(|| m.predict_oob(&dm::<T>(&train)));
                        o.push(Obs { label: "own:predict_oob(training rows)".into(), res: call_outcome(r, |v| vals(&v)) });
                        o
                    }),
                ))
            });
            // edge family: forests of one tree (on ordinary data and on two rows; a single class is refused)
            if n_trees == 1 {
                edge(&mut v, &["plain", "two-rows"], edge_only);
            }
        }
        subj!(v, format!("random_forest_regressor[keep_samples={},m={:?},n_trees={},seed={}]", keep, m_try, n_trees, seed), "random_forest_regressor", Task::Regression, Domain::Real, 1, false, |d| {
            let mut p = RandomForestRegressorParameters::default().with_n_trees(n_trees).with_keep_samples(keep).with_seed(seed);
            p.m = m_try;
            let x = xm::<T>(d);
            let m = RandomForestRegressor::fit(&x, &yv::<T>(d, Task::Regression), p).map_err(es)?;
            let train = d.x.clone();
            Ok(wrap_eq(
                m,
                Rc::new(move |m: &RandomForestRegressor<T>, q: &[Vec<f64>]| {
                    let mut o = predict_obs::<T>("predict", q, &|x| m.predict(x));
                    let r = mc::guard(|| m.predict_oob(&dm::<T>(&train)));
                    o.push(Obs { label: "own:predict_oob(training rows)".into(), res: call_outcome(r, |v| vals(&v)) });
                    o
                }),
            ))
        });
        if n_trees == 1 {
            edge(&mut v, &["plain", "two-rows", "const-target"], edge_only);
        }
    }

    // naive Bayes
    for (task, tn) in [(Task::Binary, "binary"), (Task::Multi, "multi")] {
        for priors in [false, true] {
            subj!(v, format!("gaussian_nb[{},priors={}]", tn, priors), "gaussian_nb", task, Domain::Real, 1, false, |d| {
                let mut p = GaussianNBParameters::<T> { priors: None };
                if priors {
                    p = p.with_priors(if task == Task::Binary { vec![t::<T>(0.25), t::<T>(0.75)] } else { vec![t::<T>(0.2), t::<T>(0.3), t::<T>(0.5)] });
                }
                let m = GaussianNB::fit(&xm::<T>(d), &yv::<T>(d, task), p).map_err(es)?;
                Ok(wrap_eq(
                    m,
                    Rc::new(|m: &GaussianNB<T, DM<T>>, q: &[Vec<f64>]| {
                        let mut o = predict_obs::<T>("predict", q, &|x| m.predict(x));
                        o.push(Obs::vals("class_priors", vals(m.class_priors())));
                        o.push(Obs::vals("theta", m.theta().iter().flat_map(|r| vals(r)).collect()));
                        o.push(Obs::vals("var", m.var().iter().flat_map(|r| vals(r)).collect()));
                        o
                    }),
                ))
            });
        }
        for (bn, binarize) in [("none", None), ("1.5", Some(1.5f64))] {
            subj!(v, format!("bernoulli_nb[{},binarize={}]", tn, bn), "bernoulli_nb", task, Domain::Counts, 1, false, |d| {
                let mut p = BernoulliNBParameters::default();
                p.binarize = binarize.map(|b| t::<T>(b));
                let m = BernoulliNB::fit(&xm::<T>(d), &yv::<T>(d, task), p).map_err(es)?;
                Ok(wrap_eq(
                    m,
                    Rc::new(|m: &BernoulliNB<T, DM<T>>, q: &[Vec<f64>]| {
                        let mut o = predict_obs::<T>("predict", q, &|x| m.predict(x));
                        o.push(Obs::vals("feature_log_prob", m.feature_log_prob().iter().flat_map(|r| vals(r)).collect()));
                        o
                    }),
                ))
            });
        }
        for alpha in [1.0, 0.5] {
            subj!(v, format!("multinomial_nb[{},alpha={}]", tn, alpha), "multinomial_nb", task, Domain::Counts, 1, false, |d| {
                let p = MultinomialNBParameters::default().with_alpha(t::<T>(alpha));
                let m = MultinomialNB::fit(&xm::<T>(d), &yv::<T>(d, task), p).map_err(es)?;
                Ok(wrap_eq(
                    m,
                    Rc::new(|m: &MultinomialNB<T, DM<T>>, q: &[Vec<f64>]| {
                        let mut o = predict_obs::<T>("predict", q, &|x| m.predict(x));
                        o.push(Obs::vals("feature_log_prob", m.feature_log_prob().iter().flat_map(|r| vals(r)).collect()));
                        o
                    }),
                ))
            });
            if task == Task::Multi {
                // also fitted on the class-size family (4..7 classes, every size vector)
                edge(&mut v, &["class-counts"], false);
            }
            subj!(v, format!("categorical_nb[{},alpha={}]", tn, alpha), "categorical_nb", task, Domain::Counts, 1, false, |d| {
                let p = CategoricalNBParameters::default().with_alpha(t::<T>(alpha));
                let m = CategoricalNB::fit(&xm::<T>(d), &yv::<T>(d, task), p).map_err(es)?;
                Ok(wrap_eq(
                    m,
                    Rc::new(|m: &CategoricalNB<T, DM<T>>, q: &[Vec<f64>]| {
                        let mut o = predict_obs::<T>("predict", q, &|x| m.predict(x));
                        o.push(Obs::vals("feature_log_prob", m.feature_log_prob().iter().flat_map(|a| a.iter().flat_map(|r| vals(r))).collect()));
                        o
                    }),
                ))
            });
            if task == Task::Multi {
                edge(&mut v, &["class-counts"], false);
            }
        }
    }

    // edge family: user-supplied priors with an exact 0.0 / a tiny / a subnormal entry (GaussianNB,
    // MultinomialNB, BernoulliNB; CategoricalNB has no priors parameter), and no smoothing
    // (alpha = 0: "0 for no smoothing" in the parameter documentation) for the three count models,
    // which makes the stored log-probability of an unseen (class, feature value) ln(0) = -inf
    for (task, tn) in [(Task::Binary, "binary"), (Task::Multi, "multi")] {
        let prior_sets: Vec<(&'static str, Vec<f64>)> = if task == Task::Binary {
            vec![("0,1", vec![0.0, 1.0]), ("1,0", vec![1.0, 0.0]), ("1e-300,1-1e-300", vec![1e-300, 1.0 - 1e-300]), ("5e-324,1", vec![5e-324, 1.0])]
        } else {
            vec![("0.5,0,0.5", vec![0.5, 0.0, 0.5]), ("0,0,1", vec![0.0, 0.0, 1.0]), ("1e-300,0.5,0.5", vec![1e-300, 0.5, 0.5]), ("0.5,0.5,5e-324", vec![0.5, 0.5, 5e-324])]
        };
        for (pn, pr) in prior_sets {
            let pr1 = pr.clone();
            subj!(v, format!("gaussian_nb[{},priors={}]", tn, pn), "gaussian_nb", task, Domain::Real, 1, false, |d| {
                let p = GaussianNBParameters::<T> { priors: None }.with_priors(pr1.iter().map(|x| t::<T>(*x)).collect());
                let m = GaussianNB::fit(&xm::<T>(d), &yv::<T>(d, task), p).map_err(es)?;
                Ok(wrap_eq(
                    m,
                    Rc::new(|m: &GaussianNB<T, DM<T>>, q: &[Vec<f64>]| {
                        let mut o = predict_obs::<T>("predict", q, &|x| m.predict(x));
                        o.push(Obs::vals("class_priors", vals(m.class_priors())));
                        o.push(Obs::vals("theta", m.theta().iter().flat_map(|r| vals(r)).collect()));
                        o.push(Obs::vals("var", m.var().iter().flat_map(|r| vals(r)).collect()));
                        o
                    }),
                ))
            });
            edge(&mut v, &["plain"], true);
            let pr1 = pr.clone();
            subj!(v, format!("bernoulli_nb[{},binarize=1.5,priors={}]", tn, pn), "bernoulli_nb", task, Domain::Counts, 1, false, |d| {
                let mut p = BernoulliNBParameters::default().with_priors(pr1.iter().map(|x| t::<T>(*x)).collect());
                p.binarize = Some(t::<T>(1.5));
                let m = BernoulliNB::fit(&xm::<T>(d), &yv::<T>(d, task), p).map_err(es)?;
                Ok(wrap_eq(
                    m,
                    Rc::new(|m: &BernoulliNB<T, DM<T>>, q: &[Vec<f64>]| {
                        let mut o = predict_obs::<T>("predict", q, &|x| m.predict(x));
                        o.push(Obs::vals("feature_log_prob", m.feature_log_prob().iter().flat_map(|r| vals(r)).collect()));
                        o
                    }),
                ))
            });
            edge(&mut v, &["plain"], true);
            let pr1 = pr.clone();
            subj!(v, format!("multinomial_nb[{},alpha=1,priors={}]", tn, pn), "multinomial_nb", task, Domain::Counts, 1, false, |d| {
                let p = MultinomialNBParameters::default().with_priors(pr1.iter().map(|x| t::<T>(*x)).collect());
                let m = MultinomialNB::fit(&xm::<T>(d), &yv::<T>(d, task), p).map_err(es)?;
                Ok(wrap_eq(
                    m,
                    Rc::new(|m: &MultinomialNB<T, DM<T>>, q: &[Vec<f64>]| {
                        let mut o = predict_obs::<T>("predict", q, &|x| m.predict(x));
                        o.push(Obs::vals("feature_log_prob", m.feature_log_prob().iter().flat_map(|r| vals(r)).collect()));
                        o
                    }),
                ))
            });
            edge(&mut v, &["plain"], true);
        }
        subj!(v, format!("bernoulli_nb[{},binarize=1.5,alpha=0]", tn), "bernoulli_nb", task, Domain::Counts, 1, false, |d| {
            let mut p = BernoulliNBParameters::default().with_alpha(t::<T>(0.0));
            p.binarize = Some(t::<T>(1.5));
            let m = BernoulliNB::fit(&xm::<T>(d), &yv::<T>(d, task), p).map_err(es)?;
            Ok(wrap_eq(
                m,
                Rc::new(|m: &BernoulliNB<T, DM<T>>, q: &[Vec<f64>]| {
                    let mut o = predict_obs::<T>("predict", q, &|x| m.predict(x));
                    o.push(Obs::vals("feature_log_prob", m.feature_log_prob().iter().flat_map(|r| vals(r)).collect()));
                    o
                }),
            ))
        });
        edge(&mut v, &["plain"], true);
        subj!(v, format!("multinomial_nb[{},alpha=0]", tn), "multinomial_nb", task, Domain::Counts, 1, false, |d| {
            let p = MultinomialNBParameters::default().with_alpha(t::<T>(0.0));
            let m = MultinomialNB::fit(&xm::<T>(d), &yv::<T>(d, task), p).map_err(es)?;
            Ok(wrap_eq(
                m,
                Rc::new(|m: &MultinomialNB<T, DM<T>>, q: &[Vec<f64>]| {
                    let mut o = predict_obs::<T>("predict", q, &|x| m.predict(x));
                    o.push(Obs::vals("feature_log_prob", m.feature_log_prob().iter().flat_map(|r| vals(r)).collect()));
                    o
                }),
            ))
        });
        edge(&mut v, &["plain"], true);
        subj!(v, format!("categorical_nb[{},alpha=0]", tn), "categorical_nb", task, Domain::Counts, 1, false, |d| {
            let p = CategoricalNBParameters::default().with_alpha(t::<T>(0.0));
            let m = CategoricalNB::fit(&xm::<T>(d), &yv::<T>(d, task), p).map_err(es)?;
            Ok(wrap_eq(
                m,
                Rc::new(|m: &CategoricalNB<T, DM<T>>, q: &[Vec<f64>]| {
                    let mut o = predict_obs::<T>("predict", q, &|x| m.predict(x));
                    o.push(Obs::vals("feature_log_prob", m.feature_log_prob().iter().flat_map(|a| a.iter().flat_map(|r| vals(r))).collect()));
                    o
                }),
            ))
        });
        edge(&mut v, &["plain"], true);
    }

    // clustering
    for k in [2usize, 3] {
        subj!(v, format!("kmeans[k={}]", k), "kmeans", Task::Unsupervised, Domain::Real, 1, true, |d| {
            let m = KMeans::fit(&xm::<T>(d), KMeansParameters::default().with_k(k)).map_err(es)?;
            Ok(wrap_eq(m, Rc::new(|m: &KMeans<T>, q: &[Vec<f64>]| predict_obs::<T>("predict", q, &|x| m.predict(x)))))
        });
    }

    // decompositions
    for (kn, full, corr) in [("k=1", false, false), ("k=p", true, false), ("k=1,correlation", false, true), ("k=p,correlation", true, true)] {
        subj!(v, format!("pca[{}]", kn), "pca", Task::Unsupervised, Domain::Real, 1, false, |d| {
            let k = if full { d.p() } else { 1 };
            let m = PCA::fit(&xm::<T>(d), PCAParameters::default().with_n_components(k).with_use_correlation_matrix(corr)).map_err(es)?;
            Ok(wrap_eq(
                m,
                Rc::new(|m: &PCA<T, DM<T>>, q: &[Vec<f64>]| {
                    let mut o = transform_obs::<T>("transform", q, &|x| m.transform(x));
                    o.push(Obs::vals("components", mat_vals(m.components())));
                    o
                }),
            ))
        });
        // edge family: one component, on two rows and on rank-one (collinear) data
        if !full {
            edge(&mut v, &["two-rows", "rank-one"], false);
        }
    }
    for (kn, full) in [("k=1", false), ("k=p-1", true)] {
        subj!(v, format!("truncated_svd[{}]", kn), "truncated_svd", Task::Unsupervised, Domain::Real, 2, false, |d| {
            let k = if full { d.p() - 1 } else { 1 };
            let m = SVD::fit(&xm::<T>(d), SVDParameters::default().with_n_components(k)).map_err(es)?;
            Ok(wrap_eq(
                m,
                Rc::new(|m: &SVD<T, DM<T>>, q: &[Vec<f64>]| {
                    let mut o = transform_obs::<T>("transform", q, &|x| m.transform(x));
                    o.push(Obs::vals("components", mat_vals(m.components())));
                    o
                }),
            ))
        });
        if !full {
            edge(&mut v, &["two-rows", "rank-one"], false);
        }
    }
    v
}
