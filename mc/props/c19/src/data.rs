//! Data catalogue of the C19 harness: small lattice data sets of different shapes, value variants
//! (non-dyadic, large, tiny), "twin" transformations for the inequality clause, exhaustively
//! enumerated micro data sets and the query lattices on which original and restored models are
//! compared.

/// Which inputs an estimator accepts.
#[derive(Clone, Copy, PartialEq, Eq, Debug)]
pub enum Domain {
    /// any finite reals, any labels
    Real,
    /// non-negative integer features and non-negative integer class labels (count / categorical
    /// naive Bayes)
    Counts,
}

/// Which target vector a subject is fitted on.
#[derive(Clone, Copy, PartialEq, Eq, Debug)]
pub enum Task {
    Regression,
    Binary,
    Multi,
    Unsupervised,
}

#[derive(Clone, Debug)]
pub struct Data {
    pub name: String,
    pub x: Vec<Vec<f64>>,
    pub y_reg: Vec<f64>,
    pub y_bin: Vec<f64>,
    pub y_multi: Vec<f64>,
    /// length unit of the feature space (the factor the lattice was scaled by)
    pub unit: f64,
    /// offset added to the lattice coordinates
    pub off: f64,
}

impl Data {
    pub fn n(&self) -> usize {
        self.x.len()
    }
    pub fn p(&self) -> usize {
        self.x.first().map(|r| r.len()).unwrap_or(0)
    }
    pub fn target(&self, t: Task) -> &[f64] {
        match t {
            Task::Regression => &self.y_reg,
            Task::Binary => &self.y_bin,
            Task::Multi => &self.y_multi,
            Task::Unsupervised => &[],
        }
    }
}

fn mk(name: &str, x: Vec<Vec<f64>>, y_bin: Vec<f64>, y_multi: Vec<f64>, y_reg: Vec<f64>) -> Data {
    assert!(x.len() == y_bin.len() && x.len() == y_multi.len() && x.len() == y_reg.len(), "catalogue entry {}", name);
    Data { name: name.to_string(), x, y_reg, y_bin, y_multi, unit: 1.0, off: 0.0 }
}

/// The base catalogue: plain non-negative integer lattices of different shapes (n x p).
pub fn catalogue() -> Vec<Data> {
    let f = |v: Vec<i64>| v.into_iter().map(|x| x as f64).collect::<Vec<f64>>();
    let mut v = Vec::new();
    // 6 x 1, one duplicated abscissa with conflicting labels
    v.push(mk(
        "n6p1",
        vec![vec![0.0], vec![1.0], vec![2.0], vec![3.0], vec![4.0], vec![2.0]],
        f(vec![0, 0, 1, 1, 1, 0]),
        f(vec![0, 0, 1, 2, 2, 1]),
        f(vec![1, 3, 2, 5, 4, 3]),
    ));
    // 9 x 2, the full 3x3 lattice
    let mut x = Vec::new();
    let (mut yb, mut ym, mut yr) = (Vec::new(), Vec::new(), Vec::new());
    for i in 0..3i64 {
        for j in 0..3i64 {
            x.push(vec![i as f64, j as f64]);
            yb.push(if i + j >= 2 { 1 } else { 0 });
            ym.push((i + 2 * j) % 3);
            yr.push(2 * i - j + (i * j) % 2);
        }
    }
    yb[2] = 0; // (0,2): one label against the trend, so the classes are not linearly separable
    v.push(mk("n9p2-lattice", x, f(yb), f(ym), f(yr)));
    // 8 x 2, two blobs
    v.push(mk(
        "n8p2-blobs",
        vec![vec![0.0, 0.0], vec![0.0, 1.0], vec![1.0, 0.0], vec![1.0, 1.0], vec![3.0, 3.0], vec![3.0, 4.0], vec![4.0, 3.0], vec![4.0, 4.0]],
        f(vec![0, 0, 0, 1, 1, 1, 0, 1]),
        f(vec![0, 0, 1, 1, 2, 2, 2, 0]),
        f(vec![0, 3, 1, 2, 9, 12, 10, 11]),
    ));
    // 10 x 3
    let x: Vec<Vec<f64>> = (0..10i64).map(|i| f(vec![i % 3, (i / 3) % 3, (i * 2) % 5])).collect();
    v.push(mk(
        "n10p3",
        x,
        f((0..10i64).map(|i| if (i % 3) + (i * 2) % 5 >= 3 { 1 } else { 0 }).collect()),
        f((0..10i64).map(|i| (i / 3) % 3).collect()),
        f((0..10i64).map(|i| (i % 3) - 2 * ((i / 3) % 3) + 3 * ((i * 2) % 5) + (i % 2)).collect()),
    ));
    // 12 x 4
    let x: Vec<Vec<f64>> = (0..12i64).map(|i| f(vec![i % 2, (i / 2) % 3, (i * 3) % 4, (i * i) % 5])).collect();
    v.push(mk(
        "n12p4",
        x,
        f((0..12i64).map(|i| if (i * i) % 5 + i % 2 >= 2 { 1 } else { 0 }).collect()),
        f((0..12i64).map(|i| (i * 3) % 4 % 3).collect()),
        f((0..12i64).map(|i| 5 * (i % 2) - (i / 2) % 3 + 2 * ((i * 3) % 4) + (i * i) % 5 + (i % 3)).collect()),
    ));
    // 8 x 5 (n barely above p)
    let x: Vec<Vec<f64>> = (0..8i64).map(|i| f(vec![i % 2, (i / 2) % 2, (i / 4) % 2, (i * 3) % 5, (i * i) % 3])).collect();
    v.push(mk(
        "n8p5",
        x,
        f((0..8i64).map(|i| if (i * 3) % 5 >= 2 { 1 } else { 0 }).collect()),
        f((0..8i64).map(|i| (i * i) % 3).collect()),
        f((0..8i64).map(|i| (i % 2) + 2 * ((i / 2) % 2) - 3 * ((i / 4) % 2) + (i * 3) % 5 + (i % 3)).collect()),
    ));
    v
}

/// The 8 perturbation offsets selected by VERIF_SEED (seed 0 = plain alphabet).
pub const SEED_OFFSETS: [f64; 8] = [0.0, 0.25, 0.5, 3.0, -2.0, 0.125, 10.0, -0.75];

/// Number of value variants: 3 (plain, non-dyadic, larger) plus, in the thorough tier and only for
/// types whose construction is not an iterative optimisation, the two extreme scales 2^-30 / 2^30.
pub fn n_variants(domain: Domain, thorough: bool, iterative: bool) -> usize {
    match (domain, thorough && !iterative) {
        (Domain::Real, false) => 3,
        (Domain::Real, true) => 5,
        (Domain::Counts, _) => 3,
    }
}

/// class index -> label value; indices beyond the alphabet (the class-count family has up to 7
/// classes) continue the alphabet upwards with its last step
fn relabel(y: &[f64], map: &[f64]) -> Vec<f64> {
    let last = map[map.len() - 1];
    let step = (last - map[map.len() - 2]).abs().max(1.0);
    y.iter()
        .map(|c| {
            let i = *c as usize;
            if i < map.len() {
                map[i]
            } else {
                map.iter().cloned().fold(f64::MIN, f64::max).max(last) + (i - map.len() + 1) as f64 * step
            }
        })
        .collect()
}

/// Value variant `v` of a base data set (base labels are 0..k-1, base features small integers).
pub fn variant(base: &Data, domain: Domain, v: usize, seed: u64) -> Data {
    let mut d = base.clone();
    match domain {
        Domain::Real => {
            let so = SEED_OFFSETS[(seed % 8) as usize];
            // (scale, offset) of the features, (scale, offset) of the regression target, label alphabets
            let (sx, ox, sy, oy, lb, lm): (f64, f64, f64, f64, [f64; 2], [f64; 3]) = match v {
                0 => (1.0, 0.0, 1.0, 0.0, [0.0, 1.0], [0.0, 1.0, 2.0]),
                1 => (0.1, 0.3, 0.3, -0.7, [-1.0, 1.0], [-3.0, 7.0, 10.0]),
                2 => (16.0, -5.0, 10.0, 123.456, [2.0, 3.0], [2.0, 3.0, 5.0]),
                3 => (2f64.powi(-30), 0.0, 2f64.powi(-30) * 3.0, 0.0, [0.0, 1.0], [0.0, 1.0, 2.0]),
                _ => (2f64.powi(30), 1.0, 2f64.powi(30) / 3.0, 0.1, [-1.0, 1.0], [1.0, 2.0, 3.0]),
            };
            for r in d.x.iter_mut() {
                for e in r.iter_mut() {
                    *e = (*e + so) * sx + ox;
                }
            }
            for e in d.y_reg.iter_mut() {
                *e = *e * sy + oy;
            }
            d.y_bin = relabel(&d.y_bin, &lb);
            d.y_multi = relabel(&d.y_multi, &lm);
            d.unit = sx;
            d.off = so * sx + ox;
            d.name = format!("{}/v{}", base.name, v);
        }
        Domain::Counts => {
            let so = (seed % 3) as f64;
            let (sx, ox, lb, lm): (f64, f64, [f64; 2], [f64; 3]) = match v {
                0 => (1.0, 0.0, [0.0, 1.0], [0.0, 1.0, 2.0]),
                1 => (1.0, 1.0, [1.0, 2.0], [1.0, 2.0, 4.0]),
                _ => (2.0, 0.0, [2.0, 3.0], [0.0, 2.0, 3.0]),
            };
            for r in d.x.iter_mut() {
                for e in r.iter_mut() {
                    *e = (*e + so) * sx + ox;
                }
            }
            d.y_bin = relabel(&d.y_bin, &lb);
            d.y_multi = relabel(&d.y_multi, &lm);
            d.unit = sx;
            d.off = so * sx + ox;
            d.name = format!("{}/c{}", base.name, v);
        }
    }
    d
}

pub const N_TWINS: usize = 6;

/// Twin `t` of a data set: a data set with different rows AND different targets, built so that the
/// fitted models tend to differ in as few stored parts as possible.
pub fn twin(d: &Data, domain: Domain, t: usize) -> Data {
    let mut o = d.clone();
    let u = d.unit;
    match t {
        0 => {}
        1 => {
            // every row shifted by 7 units; regression target shifted, labels moved to other names
            for r in o.x.iter_mut() {
                for e in r.iter_mut() {
                    *e += 7.0 * u;
                }
            }
            for e in o.y_reg.iter_mut() {
                *e += 3.0;
            }
            let sh = if domain == Domain::Counts { 1.0 } else { 5.0 };
            o.y_bin.iter_mut().for_each(|e| *e += sh);
            o.y_multi.iter_mut().for_each(|e| *e += sh);
            o.off += 7.0 * u;
        }
        2 => {
            // one far row appended, targets of all rows changed
            let p = d.p();
            o.x.push(vec![9.0 * u + d.off; p]);
            let last_b = *d.y_bin.last().unwrap();
            let last_m = *d.y_multi.last().unwrap();
            o.y_bin.push(last_b);
            o.y_multi.push(last_m);
            o.y_reg.push(d.y_reg.iter().cloned().fold(f64::MIN, f64::max));
            for e in o.y_reg.iter_mut() {
                *e *= 2.0;
            }
        }
        3 => {
            // rows and targets in reverse order
            o.x.reverse();
            o.y_reg.reverse();
            o.y_bin.reverse();
            o.y_multi.reverse();
        }
        5 => {
            // rows and targets in reverse order, and ONLY the largest class name / largest target
            // replaced by a new, larger value: the label sets of the two fits overlap partly
            o.x.reverse();
            o.y_reg.reverse();
            o.y_bin.reverse();
            o.y_multi.reverse();
            let bump = |y: &mut Vec<f64>| {
                let hi = y.iter().cloned().fold(f64::MIN, f64::max);
                for e in y.iter_mut() {
                    if *e == hi {
                        *e = hi + 5.0;
                    }
                }
            };
            bump(&mut o.y_bin);
            bump(&mut o.y_multi);
            bump(&mut o.y_reg);
        }
        _ => {
            // first column mirrored, the two (first two) class names swapped, regression target negated
            let hi = d.x.iter().map(|r| r[0]).fold(f64::MIN, f64::max);
            let lo = d.x.iter().map(|r| r[0]).fold(f64::MAX, f64::min);
            for r in o.x.iter_mut() {
                r[0] = hi + lo - r[0];
            }
            let swap = |y: &mut Vec<f64>| {
                let mut names: Vec<f64> = y.clone();
                names.sort_by(|a, b| a.partial_cmp(b).unwrap());
                names.dedup();
                if names.len() >= 2 {
                    let (a, b) = (names[0], names[1]);
                    for e in y.iter_mut() {
                        if *e == a {
                            *e = b;
                        } else if *e == b {
                            *e = a;
                        }
                    }
                }
            };
            swap(&mut o.y_bin);
            swap(&mut o.y_multi);
            for e in o.y_reg.iter_mut() {
                *e = -*e;
            }
        }
    }
    o.name = format!("{}+t{}", d.name, t);
    o
}

/// The query lattice of a data set: the half-step grid over (and around) the lattice the data set
/// was drawn from for p <= 2, the integer grid {0,1,2}^p (p = 3, 4) or {0,2}^p plus the centre and
/// far points (p = 5), all mapped through the data set's unit and offset.
pub fn queries(d: &Data, domain: Domain) -> Vec<Vec<f64>> {
    let p = d.p();
    let mut grid: Vec<Vec<f64>> = Vec::new();
    let axis: Vec<f64> = match (p, domain) {
        (1, Domain::Real) => (-2..=10).map(|i| i as f64 * 0.5).collect(),
        (2, Domain::Real) => vec![-1.0, 0.0, 0.5, 1.0, 1.5, 2.0, 3.5, 5.0],
        (1, Domain::Counts) => (0..=5).map(|i| i as f64).collect(),
        (2, Domain::Counts) => (0..=4).map(|i| i as f64).collect(),
        (3, _) | (4, _) => vec![0.0, 1.0, 2.0],
        _ => vec![0.0, 2.0],
    };
    let mut idx = vec![0usize; p];
    'outer: loop {
        grid.push(idx.iter().map(|i| axis[*i]).collect());
        let mut k = p;
        loop {
            if k == 0 {
                break 'outer;
            }
            k -= 1;
            idx[k] += 1;
            if idx[k] < axis.len() {
                break;
            }
            idx[k] = 0;
        }
    }
    if p >= 3 {
        grid.push(vec![1.0; p]);
        grid.push(vec![4.0; p]);
        if domain == Domain::Real {
            grid.push(vec![0.5; p]);
            grid.push(vec![-1.0; p]);
        }
    }
    let (sx, ox) = match domain {
        Domain::Real => (d.unit, d.off),
        // count data: stay on the non-negative integers
        Domain::Counts => (1.0, 0.0),
    };
    let mut q: Vec<Vec<f64>> = grid.into_iter().map(|r| r.into_iter().map(|e| e * sx + ox).collect()).collect();
    // the training rows themselves (exact hits: zero distances, ties)
    for r in &d.x {
        if !q.contains(r) {
            q.push(r.clone());
        }
    }
    q
}

/// Micro data sets: EVERY n x p matrix over the alphabet `sigma` (row-major odometer index `xi`)
/// with EVERY binary labelling that uses both classes (index `yi`), completed with a 3-class
/// labelling and a regression target derived from the labelling and the row index.
pub struct Micro {
    pub n: usize,
    pub p: usize,
    pub sigma: usize,
}

impl Micro {
    pub fn n_x(&self) -> usize {
        self.sigma.pow((self.n * self.p) as u32)
    }
    pub fn n_y(&self) -> usize {
        (1usize << self.n) - 2
    }
    pub fn build(&self, xi: usize, yi: usize) -> Data {
        let mut c = xi;
        let mut x = vec![vec![0.0; self.p]; self.n];
        for i in 0..self.n {
            for j in 0..self.p {
                x[i][j] = (c % self.sigma) as f64;
                c /= self.sigma;
            }
        }
        let bits = yi + 1; // 1 ..= 2^n - 2: both classes present
        let y_bin: Vec<f64> = (0..self.n).map(|i| ((bits >> i) & 1) as f64).collect();
        let y_multi: Vec<f64> = (0..self.n).map(|i| ((((bits >> i) & 1) + i) % 3) as f64).collect();
        let y_reg: Vec<f64> = (0..self.n).map(|i| (((bits >> i) & 1) * 3) as f64 + i as f64 * 0.5 - 1.0).collect();
        Data { name: format!("micro-n{}p{}s{}-x{}-y{}", self.n, self.p, self.sigma, xi, yi), x, y_reg, y_bin, y_multi, unit: 1.0, off: 0.0 }
    }
}

// ------------------------------------------------------------------------------------------------
// Extension (round 2): data sets for the "edge" family — fitted models whose state contains
// legitimate boundary values (no / one pair of support vectors, single-leaf trees, all-zero
// coefficients, rank-one data, ...). Base form like the catalogue (small non-negative integers,
// labels 0..k-1), so that `variant` applies unchanged.

/// Tags of the edge data sets (a subject lists the tags it is fitted on in the edge family).
pub const EDGE_TAGS: [&str; 6] = ["plain", "two-rows", "const-target", "rank-one", "class-counts", "many-classes"];

/// The edge catalogue: (tag, data set).
/// * `plain`: the six catalogue data sets unchanged (for subjects whose CONFIGURATION is the
///   boundary: k = n, eps wider than the target range, zero priors, max_depth 0, ...);
/// * `two-rows`: two distinct training rows with different targets, p = 1, 2, 3 (thorough: + 5);
/// * `const-target`: the features of the six catalogue data sets with every target
///   constant — regression target 0 and 3 (two data sets per shape), a single class (label index 1
///   / 2 of the variant's label alphabet);
/// * `rank-one`: collinear rows (every column a multiple of the first), 5x2 and 4x3 (thorough: + 6x4).
pub fn edge_catalogue(thorough: bool) -> Vec<(&'static str, Data)> {
    let cat = catalogue();
    let shapes: Vec<usize> = (0..cat.len()).collect();
    let mut v: Vec<(&'static str, Data)> = Vec::new();
    for &i in &shapes {
        let mut d = cat[i].clone();
        d.name = format!("edge-plain-{}", cat[i].name);
        v.push(("plain", d));
    }
    let ps: Vec<usize> = if thorough { vec![1, 2, 3, 5] } else { vec![1, 2, 3] };
    for p in ps {
        let a: Vec<f64> = (0..p).map(|j| ((j + 1) % 3) as f64).collect();
        let b: Vec<f64> = (0..p).map(|j| ((j + 2) % 3 + 1) as f64).collect();
        v.push(("two-rows", Data { name: format!("edge-two-rows-p{}", p), x: vec![a, b], y_reg: vec![1.0, 3.0], y_bin: vec![0.0, 1.0], y_multi: vec![0.0, 2.0], unit: 1.0, off: 0.0 }));
    }
    for &i in &shapes {
        for c in [0.0, 3.0] {
            let n = cat[i].n();
            v.push(("const-target", Data { name: format!("edge-const-target-{}-y{}", cat[i].name, c), x: cat[i].x.clone(), y_reg: vec![c; n], y_bin: vec![1.0; n], y_multi: vec![2.0; n], unit: 1.0, off: 0.0 }));
        }
    }
    let r1: Vec<(usize, usize)> = if thorough { vec![(5, 2), (4, 3), (6, 4)] } else { vec![(5, 2), (4, 3)] };
    for (n, p) in r1 {
        let x: Vec<Vec<f64>> = (0..n).map(|i| (0..p).map(|j| (i * (j + 1)) as f64).collect()).collect();
        v.push((
            "rank-one",
            Data {
                name: format!("edge-rank-one-n{}p{}", n, p),
                x,
                y_reg: (0..n).map(|i| (2 * i + i % 2) as f64).collect(),
                y_bin: (0..n).map(|i| if i >= n / 2 { 1.0 } else { 0.0 }).collect(),
                y_multi: (0..n).map(|i| (i % 3) as f64).collect(),
                unit: 1.0,
                off: 0.0,
            },
        ));
    }
    // `class-counts`: 4 and 7 classes with EVERY vector of class sizes summing to 7 (4 classes: 20
    // compositions) plus a few 7-class size vectors; the fitted priors count/n are then sums of
    // several rounded fractions (round 7: a loader that insists on |sum - 1| < eps rejects some)
    fn compositions(total: usize, k: usize) -> Vec<Vec<usize>> {
        if k == 1 {
            return vec![vec![total]];
        }
        let mut out = Vec::new();
        for first in 1..=(total - (k - 1)) {
            for mut rest in compositions(total - first, k - 1) {
                let mut c = vec![first];
                c.append(&mut rest);
                out.push(c);
            }
        }
        out
    }
    let mut size_vectors = compositions(7, 4);
    if thorough {
        size_vectors.extend(compositions(9, 4));
        size_vectors.extend(compositions(9, 7));
    }
    size_vectors.extend(vec![vec![1, 4, 6, 5, 1, 1, 1], vec![1, 2, 4, 4], vec![2, 3, 1, 1, 3, 2, 1], vec![3, 1, 1, 1, 1, 1, 3]]);
    for sizes in size_vectors {
        let n: usize = sizes.iter().sum();
        let mut y_multi: Vec<f64> = Vec::new();
        for (c, sz) in sizes.iter().enumerate() {
            y_multi.extend(std::iter::repeat(c as f64).take(*sz));
        }
        let x: Vec<Vec<f64>> = (0..n).map(|i| vec![(i % 3) as f64, ((i * 2 + i / 3) % 4) as f64]).collect();
        v.push((
            "class-counts",
            Data {
                name: format!("edge-class-counts-{}", sizes.iter().map(|s| s.to_string()).collect::<Vec<_>>().join("_")),
                x,
                y_reg: (0..n).map(|i| (i % 5) as f64).collect(),
                y_bin: y_multi.iter().map(|c| if *c == 0.0 { 0.0 } else { 1.0 }).collect(),
                y_multi,
                unit: 1.0,
                off: 0.0,
            },
        ));
    }
    // `many-classes`: every row its own class, 255..258 (thorough: + 65535..65537 is too slow) classes
    for n in [255usize, 256, 257, 258] {
        let x: Vec<Vec<f64>> = (0..n).map(|i| vec![i as f64, ((i * 7) % 13) as f64]).collect();
        v.push((
            "many-classes",
            Data {
                name: format!("edge-many-classes-{}", n),
                x,
                y_reg: (0..n).map(|i| i as f64).collect(),
                y_bin: (0..n).map(|i| (i % 2) as f64).collect(),
                y_multi: (0..n).map(|i| i as f64).collect(),
                unit: 1.0,
                off: 0.0,
            },
        ));
    }
    v
}

/// The edge data sets a subject with the given tags is fitted on (in catalogue order), restricted
/// to those with at least `min_p` columns.
pub fn edge_data_for(tags: &[&'static str], min_p: usize, thorough: bool) -> Vec<Data> {
    edge_catalogue(thorough).into_iter().filter(|(t, d)| tags.contains(t) && d.p() >= min_p).map(|(_, d)| d).collect()
}
