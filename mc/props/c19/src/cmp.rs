//! Comparison helpers: observations (what a model answers on the query lattice), tolerant
//! comparison of `Debug` renderings, and a field-level diff of two serialised models (used only to
//! name the input class of a violation).

use mc_core::Value;

/// One observation of a model: a labelled vector of numbers, or the way the call failed.
#[derive(Clone, Debug)]
pub struct Obs {
    pub label: String,
    pub res: Result<Vec<f64>, String>,
}

impl Obs {
    pub fn vals(label: impl Into<String>, v: Vec<f64>) -> Obs {
        Obs { label: label.into(), res: Ok(v) }
    }
}

pub fn obs_digest(o: &[Obs]) -> u64 {
    use mc_core::hash::*;
    o.iter().fold(0x51ed_270b, |h, ob| {
        let h = mix(h, h_str(&ob.label));
        match &ob.res {
            Ok(v) => mix(h, h_f64s(v)),
            Err(e) => mix(h, h_str(e)),
        }
    })
}

fn same_bits(a: f64, b: f64) -> bool {
    (a.is_nan() && b.is_nan()) || a.to_bits() == b.to_bits()
}

fn close(a: f64, b: f64, tol: f64, scale: f64) -> bool {
    if same_bits(a, b) || a == b {
        return true;
    }
    if !a.is_finite() || !b.is_finite() {
        return false;
    }
    (a - b).abs() <= tol * scale.max(a.abs()).max(b.abs())
}

/// Compare what the original and the restored model answer. `tol = None`: bit for bit.
/// `tol = Some(t)`: |a-b| <= t * max(scale of the observation vector, |a|, |b|).
/// Returns a description of the first difference.
pub fn obs_compare(a: &[Obs], b: &[Obs], tol: Option<f64>) -> Option<String> {
    if a.len() != b.len() {
        return Some(format!("{} observations from the original, {} from the restored model", a.len(), b.len()));
    }
    for (x, y) in a.iter().zip(b) {
        if x.label != y.label {
            return Some(format!("observation '{}' of the original answers where the restored model answers '{}'", x.label, y.label));
        }
        match (&x.res, &y.res) {
            (Ok(u), Ok(v)) => {
                if u.len() != v.len() {
                    return Some(format!("{}: {} values from the original, {} from the restored model", x.label, u.len(), v.len()));
                }
                let scale = u.iter().chain(v.iter()).filter(|e| e.is_finite()).fold(0.0f64, |m, e| m.max(e.abs()));
                for i in 0..u.len() {
                    let ok = match tol {
                        None => same_bits(u[i], v[i]),
                        Some(t) => close(u[i], v[i], t, scale),
                    };
                    if !ok {
                        return Some(format!("{}[{}]: original {:?}, restored {:?}", x.label, i, u[i], v[i]));
                    }
                }
            }
            (Err(e), Err(f)) => {
                if e != f {
                    return Some(format!("{}: original fails with '{}', restored with '{}'", x.label, e, f));
                }
            }
            (Ok(_), Err(f)) => return Some(format!("{}: original answers, restored fails with '{}'", x.label, f)),
            (Err(e), Ok(_)) => return Some(format!("{}: original fails with '{}', restored answers", x.label, e)),
        }
    }
    None
}

/// Do two models answer materially differently on the same queries (relative difference above
/// `thr` of the output scale, or one fails where the other answers)? `None` = cannot be decided
/// (differences only below `thr`: too close to call).
pub fn obs_materially_different(a: &[Obs], b: &[Obs], thr: f64) -> Option<(bool, String)> {
    // observations on a model's own training rows are not "the same input" for two models
    let a: Vec<&Obs> = a.iter().filter(|o| !o.label.starts_with("own:")).collect();
    let b: Vec<&Obs> = b.iter().filter(|o| !o.label.starts_with("own:")).collect();
    if a.len() != b.len() {
        return Some((true, "different number of observations".into()));
    }
    let mut grey = false;
    for (x, y) in a.iter().zip(b.iter()) {
        match (&x.res, &y.res) {
            (Ok(u), Ok(v)) => {
                if u.len() != v.len() {
                    return Some((true, format!("{}: {} vs {} values", x.label, u.len(), v.len())));
                }
                let scale = u.iter().chain(v.iter()).filter(|e| e.is_finite()).fold(0.0f64, |m, e| m.max(e.abs()));
                for i in 0..u.len() {
                    if close(u[i], v[i], 1e-13, scale) {
                        continue;
                    }
                    if !close(u[i], v[i], thr, scale) {
                        return Some((true, format!("{}[{}]: {:?} vs {:?}", x.label, i, u[i], v[i])));
                    }
                    grey = true;
                }
            }
            (Err(e), Err(f)) => {
                if e != f {
                    return Some((true, format!("{}: '{}' vs '{}'", x.label, e, f)));
                }
            }
            _ => return Some((true, format!("{}: one model answers, the other fails", x.label))),
        }
    }
    if grey {
        None
    } else {
        Some((false, String::new()))
    }
}

// ------------------------------------------------------------------------------------------------
// Debug renderings

#[derive(Debug, PartialEq, Clone)]
enum Tok {
    Num(f64),
    Word(String),
    Ch(char),
}

fn lex(s: &str) -> Vec<Tok> {
    let b: Vec<char> = s.chars().collect();
    let mut out = Vec::new();
    let mut i = 0;
    while i < b.len() {
        let c = b[i];
        if c.is_alphabetic() || c == '_' {
            let st = i;
            while i < b.len() && (b[i].is_alphanumeric() || b[i] == '_') {
                i += 1;
            }
            let w: String = b[st..i].iter().collect();
            match w.as_str() {
                "NaN" => out.push(Tok::Num(f64::NAN)),
                "inf" => out.push(Tok::Num(f64::INFINITY)),
                _ => out.push(Tok::Word(w)),
            }
        } else if c.is_ascii_digit() || (c == '-' && i + 1 < b.len() && (b[i + 1].is_ascii_digit() || b[i + 1] == 'i')) {
            let st = i;
            if c == '-' {
                i += 1;
            }
            if i + 2 < b.len() + 0 && b[i] == 'i' && b[i + 1] == 'n' && b[i + 2] == 'f' {
                i += 3;
                out.push(Tok::Num(f64::NEG_INFINITY));
                continue;
            }
            while i < b.len() && (b[i].is_ascii_digit() || b[i] == '.') {
                i += 1;
            }
            if i < b.len() && (b[i] == 'e' || b[i] == 'E') && i + 1 < b.len() && (b[i + 1].is_ascii_digit() || ((b[i + 1] == '-' || b[i + 1] == '+') && i + 2 < b.len() && b[i + 2].is_ascii_digit())) {
                i += 2;
                while i < b.len() && b[i].is_ascii_digit() {
                    i += 1;
                }
            }
            let w: String = b[st..i].iter().collect();
            match w.parse::<f64>() {
                Ok(v) => out.push(Tok::Num(v)),
                Err(_) => out.push(Tok::Word(w)),
            }
        } else if c.is_whitespace() {
            i += 1;
        } else {
            out.push(Tok::Ch(c));
            i += 1;
        }
    }
    out
}

/// Compare two `{:?}` renderings: identical text when `tol` is None; otherwise identical structure
/// with every number within `tol` relative (absolute below 1e-300).
pub fn debug_compare(a: &str, b: &str, tol: Option<f64>) -> Option<String> {
    if a == b {
        return None;
    }
    let t = match tol {
        None => return Some(first_text_difference(a, b)),
        Some(t) => t,
    };
    let (ta, tb) = (lex(a), lex(b));
    if ta.len() != tb.len() {
        return Some(format!("renderings have {} vs {} tokens; {}", ta.len(), tb.len(), first_text_difference(a, b)));
    }
    for (i, (x, y)) in ta.iter().zip(tb.iter()).enumerate() {
        let ok = match (x, y) {
            (Tok::Num(u), Tok::Num(v)) => close(*u, *v, t, 1e-300),
            _ => x == y,
        };
        if !ok {
            return Some(format!("token {}: original {:?}, restored {:?}; {}", i, x, y, first_text_difference(a, b)));
        }
    }
    None
}

fn first_text_difference(a: &str, b: &str) -> String {
    let (ca, cb): (Vec<char>, Vec<char>) = (a.chars().collect(), b.chars().collect());
    let mut i = 0;
    while i < ca.len() && i < cb.len() && ca[i] == cb[i] {
        i += 1;
    }
    let st = i.saturating_sub(40);
    let ea = (i + 40).min(ca.len());
    let eb = (i + 40).min(cb.len());
    format!("first difference at char {}: original '...{}...', restored '...{}...'", i, ca[st..ea].iter().collect::<String>(), cb[st..eb].iter().collect::<String>())
}

/// Is every non-finite number of the rendering a negative infinity (the logarithm of a zero
/// probability), and is there at least one?
pub fn non_finite_only_neg_inf(debug: &str) -> bool {
    let nf: Vec<f64> = lex(debug).iter().filter_map(|t| if let Tok::Num(v) = t { Some(*v) } else { None }).filter(|v| !v.is_finite()).collect();
    !nf.is_empty() && nf.iter().all(|v| *v == f64::NEG_INFINITY)
}

pub fn mentions_non_finite(debug: &str) -> bool {
    lex(debug).iter().any(|t| matches!(t, Tok::Num(v) if !v.is_finite()))
}

// ------------------------------------------------------------------------------------------------
// field diff of serialised models

fn value_differs(a: &Value, b: &Value, tol: f64) -> bool {
    match (a, b) {
        (Value::Number(x), Value::Number(y)) => {
            let (u, v) = (x.as_f64().unwrap_or(f64::NAN), y.as_f64().unwrap_or(f64::NAN));
            !close(u, v, tol, 1.0)
        }
        (Value::Array(x), Value::Array(y)) => x.len() != y.len() || x.iter().zip(y).any(|(p, q)| value_differs(p, q, tol)),
        (Value::Object(x), Value::Object(y)) => x.len() != y.len() || x.iter().any(|(k, p)| y.get(k).map(|q| value_differs(p, q, tol)).unwrap_or(true)),
        _ => a != b,
    }
}

fn diff_paths(a: &Value, b: &Value, tol: f64, depth: usize, path: &str, out: &mut Vec<String>) {
    match (a, b) {
        (Value::Object(x), Value::Object(y)) if depth > 0 => {
            let mut keys: Vec<&String> = x.keys().chain(y.keys()).collect();
            keys.sort();
            keys.dedup();
            for k in keys {
                let sub = if path.is_empty() { k.clone() } else { format!("{}.{}", path, k) };
                match (x.get(k), y.get(k)) {
                    (Some(p), Some(q)) => diff_paths(p, q, tol, depth - 1, &sub, out),
                    _ => out.push(sub),
                }
            }
        }
        _ => {
            if value_differs(a, b, tol) {
                out.push(if path.is_empty() { "value".to_string() } else { path.to_string() });
            }
        }
    }
}

/// Names (paths through nested structs, at most `depth` levels) of the serialised fields in which
/// two models differ by more than `tol` relative. Sorted, '+'-joined; "none" when there are none.
pub fn differing_fields(a: &Value, b: &Value, tol: f64, depth: usize) -> String {
    let mut out = Vec::new();
    diff_paths(a, b, tol, depth, "", &mut out);
    out.sort();
    out.dedup();
    if out.is_empty() {
        "none".into()
    } else {
        out.join("+")
    }
}
