//! E1, two matrix operands: every pairing of shapes within the bound. Compatible operands are
//! compared with the formula; incompatible operands must be rejected (panic), except for the
//! equality tests which must return false.

use crate::model::*;
use mc_core::{self as mc, json};
use smartcore::linalg::high_order::HighOrderOperations;
use smartcore::linalg::naive::dense_matrix::DenseMatrix;
use smartcore::linalg::BaseMatrix;

const OPS: &[&str] = &["add", "sub", "mul", "div", "matmul", "ab_ff", "ab_tf", "ab_ft", "ab_tt", "dot", "h_stack", "v_stack", "copy_from", "equality", "max_diff"];

fn is_vec(m: &M) -> bool {
    m.r == 1 || m.c == 1
}

/// Reference product with per-entry tolerance 4 k eps sum|a||b|.
fn product<T: W>(a: &M, b: &M) -> (M, Vec<f64>) {
    assert_eq!(a.c, b.r);
    let mut tol = Vec::with_capacity(a.r * b.c);
    let m = M::new(a.r, b.c, |i, j| (0..a.c).map(|k| a.at(i, k) * b.at(k, j)).sum());
    for i in 0..a.r {
        for j in 0..b.c {
            let s: f64 = (0..a.c).map(|k| (a.at(i, k) * b.at(k, j)).abs()).sum();
            tol.push(4.0 * a.c as f64 * T::EPS * s);
        }
    }
    (m, tol)
}

/// `wide`: long family (round 2) — the operands carry the wide index codes (injective for long rows).
pub fn run<T: W>(r1: usize, c1: usize, shapes_b: &[(usize, usize)], seed: u64, wide: bool) {
    type Code = fn(usize, usize, usize, u64) -> M;
    let coded: Code = if wide { coded_w } else { coded };
    let coded2: Code = if wide { coded2_w } else { coded2 };
    let long = |n: usize| wide && n >= crate::LONG_MIN;
    let (r2, c2) = shapes_b[mc::choose(shapes_b.len())];
    set_long_case(wide && r1.max(c1).max(r2).max(c2) >= crate::LONG_MIN);
    let fa = mc::choose(4);
    let same_size = r1 * c1 == r2 * c2 && (r1, c1) != (r2, c2);
    let fb = mc::choose(if same_size { 4 } else { 3 });
    let a = coded(r1, c1, fa, seed).round::<T>();
    let da: DenseMatrix<T> = build(&a);
    // right-hand operand: second code (+ / checkerboard), the same code as A, or the very same
    // stored values as A under a different shape
    let (b, db_owned): (M, DenseMatrix<T>) = match fb {
        0 | 1 => {
            let b = coded2(r2, c2, fb, seed).round::<T>();
            let db = build(&b);
            (b, db)
        }
        2 => {
            let b = coded(r2, c2, fa, seed).round::<T>();
            let db = build(&b);
            (b, db)
        }
        _ => {
            let raw: Vec<T> = Vec::from(da.clone());
            let db = DenseMatrix::new(r2, c2, raw);
            (view(&db), db)
        }
    };
    // aliasing: when B has the same code and shape as A, also pass the very same object as both
    // operands (`a.op(&a)`) — a fast path keyed on operand identity must not change the result
    let aliased = fb == 2 && (r1, c1) == (r2, c2) && mc::choose(2) == 1;
    if aliased {
        mc::count("binary_aliased_operands");
    }
    let db: &DenseMatrix<T> = if aliased { &da } else { &db_owned };
    let op = OPS[mc::choose(OPS.len())];
    let bname = if aliased { "the same object as A" } else { ["second code/all-positive", "second code/checkerboard", "same code as A", "same stored values as A"][fb] };
    let what = || format!("[{} A={} ({}) B={} ({})]", T::NAME, a.show(), SIGN_NAMES[fa], b.show(), bname);
    let pair = format!("{}/{}", shape_class(r1, c1), shape_class(r2, c2));
    let same_shape = (r1, c1) == (r2, c2);
    let size_cls = if r1 * c1 == r2 * c2 { "incompatible-accepted-same-size" } else { "incompatible-accepted" };
    let show_m = |x: &DenseMatrix<T>| format!("{}", mc::guard(|| view(x).show()).unwrap_or_else(|_| "<unreadable>".into()));
    match op {
        "add" | "sub" | "mul" | "div" => {
            let (oc, om) = (format!("dense.{}", op), format!("dense.{}_mut", op));
            if same_shape {
                let want = a.zip(&b, |x, y| {
                    rt::<T>(match op {
                        "add" => x + y,
                        "sub" => x - y,
                        "mul" => x * y,
                        _ => x / y,
                    })
                });
                let cls = shape_class(r1, c1);
                match op {
                    "add" => both(&oc, &om, cls, &what, &a, &da, &want, None, |m| m.add(db), |m| {
                        m.add_mut(db);
                    }),
                    "sub" => both(&oc, &om, cls, &what, &a, &da, &want, None, |m| m.sub(db), |m| {
                        m.sub_mut(db);
                    }),
                    "mul" => both(&oc, &om, cls, &what, &a, &da, &want, None, |m| m.mul(db), |m| {
                        m.mul_mut(db);
                    }),
                    _ => both(&oc, &om, cls, &what, &a, &da, &want, None, |m| m.div(db), |m| {
                        m.div_mut(db);
                    }),
                }
                if mc::guard(|| view(db)).ok().as_ref() != Some(&b) {
                    Cx { op: &om, class: cls, what: &what }.fail(":operand-modified", "the right-hand operand was changed".into());
                }
                mc::count("binary_compatible");
                if long(r1.max(c1)) {
                    mc::count("long_binary_elementwise");
                }
            } else {
                let g = mc::guard(|| match op {
                    "add" => da.add(db),
                    "sub" => da.sub(db),
                    "mul" => da.mul(db),
                    _ => da.div(db),
                });
                expect_panic(&Cx { op: &oc, class: size_cls, what: &what }, g, show_m);
                let mut m = da.clone();
                let g = mc::guard(|| {
                    match op {
                        "add" => m.add_mut(db),
                        "sub" => m.sub_mut(db),
                        "mul" => m.mul_mut(db),
                        _ => m.div_mut(db),
                    };
                });
                expect_panic(&Cx { op: &om, class: size_cls, what: &what }, g.map(|_| m), show_m);
            }
        }
        "matmul" | "ab_ff" | "ab_tf" | "ab_ft" | "ab_tt" => {
            let (ta, tb) = match op {
                "ab_tf" => (true, false),
                "ab_ft" => (false, true),
                "ab_tt" => (true, true),
                _ => (false, false),
            };
            let (ea, eb) = (if ta { a.tr() } else { a.clone() }, if tb { b.tr() } else { b.clone() });
            let name = if op == "matmul" { "dense.matmul".to_string() } else { format!("highorder.ab({},{})", ta, tb) };
            let got = mc::guard(|| if op == "matmul" { da.matmul(db) } else { da.ab(ta, db, tb) });
            if ea.c == eb.r {
                let (want, tol) = product::<T>(&ea, &eb);
                expect_m::<T>(&Cx { op: &name, class: &pair, what: &what }, got, &want, Some(&tol));
                mc::count("product_compatible");
                if ea.r != ea.c || eb.r != eb.c {
                    mc::count("product_nonsquare");
                }
                if long(ea.c) {
                    mc::count("long_product_inner");
                } else if long(ea.r.max(eb.c)) {
                    mc::count("long_product_outer");
                }
            } else {
                expect_panic(&Cx { op: &name, class: "incompatible-accepted", what: &what }, got, show_m);
            }
        }
        "dot" => {
            let got = mc::guard(|| da.dot(db));
            if is_vec(&a) && is_vec(&b) && a.v.len() == b.v.len() {
                let want: f64 = a.v.iter().zip(&b.v).map(|(x, y)| x * y).sum();
                let sabs: f64 = a.v.iter().zip(&b.v).map(|(x, y)| (x * y).abs()).sum();
                let tol = 4.0 * a.v.len() as f64 * T::EPS * sabs;
                if same_shape || a.v.len() == 1 {
                    expect_s::<T>(&Cx { op: "dense.dot", class: &pair, what: &what }, got, want, tol);
                    mc::count("dot_vectors");
                    if long(a.v.len()) {
                        mc::count("long_dot");
                    }
                } else {
                    // a row against a column of the same length: rejecting and the inner product
                    // are both acceptable readings; a returned value must be the inner product
                    mc::count("dot_row_against_column");
                    if got.is_ok() {
                        expect_s::<T>(&Cx { op: "dense.dot", class: &pair, what: &what }, got, want, tol);
                    }
                }
            } else {
                let cls = if !is_vec(&a) || !is_vec(&b) { "non-vector-operand-accepted" } else { "length-mismatch-accepted" };
                expect_panic(&Cx { op: "dense.dot", class: cls, what: &what }, got, |x| format!("{}", x));
            }
        }
        "h_stack" => {
            let got = mc::guard(|| da.h_stack(db));
            if r1 == r2 {
                let want = M::new(r1, c1 + c2, |i, j| if j < c1 { a.at(i, j) } else { b.at(i, j - c1) });
                expect_m::<T>(&Cx { op: "dense.h_stack", class: &pair, what: &what }, got, &want, None);
                mc::count("stack_compatible");
                if long(r1.max(c1 + c2)) {
                    mc::count("long_stack");
                }
            } else {
                expect_panic(&Cx { op: "dense.h_stack", class: "incompatible-accepted", what: &what }, got, show_m);
            }
        }
        "v_stack" => {
            let got = mc::guard(|| da.v_stack(db));
            if c1 == c2 {
                let want = M::new(r1 + r2, c1, |i, j| if i < r1 { a.at(i, j) } else { b.at(i - r1, j) });
                expect_m::<T>(&Cx { op: "dense.v_stack", class: &pair, what: &what }, got, &want, None);
                mc::count("stack_compatible");
                if long(c1.max(r1 + r2)) {
                    mc::count("long_stack");
                }
            } else {
                expect_panic(&Cx { op: "dense.v_stack", class: "incompatible-accepted", what: &what }, got, show_m);
            }
        }
        "copy_from" => {
            let mut m = da.clone();
            let g = mc::guard(|| m.copy_from(db));
            if same_shape {
                expect_m::<T>(&Cx { op: "dense.copy_from", class: shape_class(r1, c1), what: &what }, g.map(|_| m), &b, None);
                if mc::guard(|| view(db)).ok().as_ref() != Some(&b) {
                    Cx { op: "dense.copy_from", class: shape_class(r1, c1), what: &what }.fail(":operand-modified", "the source was changed".into());
                }
            } else {
                expect_panic(&Cx { op: "dense.copy_from", class: size_cls, what: &what }, g.map(|_| m), show_m);
            }
        }
        "equality" => {
            let maxd = if same_shape { a.v.iter().zip(&b.v).fold(0.0f64, |m, (x, y)| m.max((x - y).abs())) } else { f64::INFINITY };
            let equal = same_shape && maxd == 0.0;
            if equal {
                mc::count("equal_operands");
            }
            let cls = if same_shape {
                shape_class(r1, c1)
            } else if r1 * c1 == r2 * c2 {
                "different-shape-same-size"
            } else {
                "different-shape"
            };
            expect_eq(&Cx { op: "dense.eq", class: cls, what: &what }, mc::guard(|| da == *db), equal);
            expect_eq(&Cx { op: "dense.eq", class: cls, what: &what }, mc::guard(|| *db == da), equal);
            for err in [0.5, 1e9] {
                if same_shape && (maxd - err).abs() <= 1e-3 * err {
                    continue;
                }
                let w = || format!("{} error {:e}", what(), err);
                expect_eq(&Cx { op: "dense.approximate_eq", class: cls, what: &w }, mc::guard(|| da.approximate_eq(db, t(err))), same_shape && maxd <= err);
                expect_eq(&Cx { op: "dense.approximate_eq", class: cls, what: &w }, mc::guard(|| db.approximate_eq(&da, t(err))), same_shape && maxd <= err);
            }
            if !same_shape {
                mc::count("equality_incompatible");
            }
        }
        "max_diff" => {
            if same_shape {
                let want = a.v.iter().zip(&b.v).fold(0.0f64, |m, (x, y)| m.max(rt::<T>(x - y).abs()));
                expect_s::<T>(&Cx { op: "dense.max_diff", class: shape_class(r1, c1), what: &what }, mc::guard(|| da.max_diff(db)), want, 0.0);
            } else {
                // the statement does not list max_diff among the operations that must reject
                mc::count("max_diff_outside_statement");
            }
        }
        _ => unreachable!(),
    }
    mc::nontrivial();
    mc::describe(|| json!({"width": T::NAME, "operation": op, "A": a.rows(), "B": b.rows(), "A_fill": SIGN_NAMES[fa], "B_fill": bname}));
}
