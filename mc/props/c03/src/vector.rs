//! E1 over `BaseVector for Vec<T>`: every length within the bound, every pairing of lengths for the
//! binary operations.

use crate::model::*;
use mc_core::{self as mc, json};
use smartcore::linalg::BaseVector;

const UOPS: &[&str] = &["basic", "sum_mean", "var_std", "norms", "unique", "scalar", "elem_mut", "take"];
const BOPS: &[&str] = &["arith", "dot", "approx_eq", "copy_from"];
const NORM_PS: [f64; 6] = [1.0, 2.0, 3.0, 0.5, f64::INFINITY, f64::NEG_INFINITY];
const SCALARS: [f64; 4] = [2.0, -3.0, 0.5, 0.0];

pub fn run_unary<T: W>(n: usize, fs: FillSet, shard: (usize, usize), seed: u64) {
    let fi = crate::unary::shard_fill(n_fills(1, n, fs), shard.0, shard.1);
    let a: Vec<f64> = fill_t::<T>(fi, 1, n, fs, seed).v;
    let v: Vec<T> = vt::<T>(&a);
    // adjacent floats (round 7): exact selections, means, correctly rounded arithmetic and
    // approximate_eq against one-ulp neighbours (var / std / finite norms: outside the quantifier)
    const ADJ_UOPS: &[&str] = &["basic", "sum_mean", "norms", "unique", "scalar", "elem_mut", "approx_adjacent"];
    let adj = fs.is_adjacent();
    if adj {
        mc::count("adjacent_vec");
    }
    let uops = if adj { ADJ_UOPS } else { UOPS };
    let op = uops[mc::choose(uops.len())];
    let what = || format!("[{} {} input {:?}]", T::NAME, fill_name(fi, fs), a);
    let lc = if n == 1 { "length-1" } else { "length>1" };
    let sg = sign_class(&a);
    let nf = n as f64;
    let mut opname = op.to_string();
    match op {
        "basic" => {
            expect_eq(&Cx { op: "vec.len", class: lc, what: &what }, mc::guard(|| BaseVector::len(&v)), n);
            expect_eq(&Cx { op: "vec.is_empty", class: lc, what: &what }, mc::guard(|| BaseVector::is_empty(&v)), false);
            expect_v::<T>(&Cx { op: "vec.get", class: lc, what: &what }, mc::guard(|| (0..n).map(|i| BaseVector::get(&v, i)).collect::<Vec<T>>()), &a, None);
            expect_v::<T>(&Cx { op: "vec.to_vec", class: lc, what: &what }, mc::guard(|| BaseVector::to_vec(&v)), &a, None);
            expect_v::<T>(&Cx { op: "vec.from_array", class: lc, what: &what }, mc::guard(|| <Vec<T> as BaseVector<T>>::from_array(&v)), &a, None);
            expect_v::<T>(&Cx { op: "vec.zeros", class: lc, what: &what }, mc::guard(|| <Vec<T> as BaseVector<T>>::zeros(n)), &vec![0.0; n], None);
            expect_v::<T>(&Cx { op: "vec.ones", class: lc, what: &what }, mc::guard(|| <Vec<T> as BaseVector<T>>::ones(n)), &vec![1.0; n], None);
            expect_v::<T>(&Cx { op: "vec.fill", class: lc, what: &what }, mc::guard(|| <Vec<T> as BaseVector<T>>::fill(n, t(a[0]))), &vec![a[0]; n], None);
            for i in 0..n {
                let mut m = v.clone();
                let res = mc::guard(|| BaseVector::set(&mut m, i, t(-777.5)));
                let mut want = a.clone();
                want[i] = -777.5;
                expect_v::<T>(&Cx { op: "vec.set", class: lc, what: &what }, res.map(|_| m), &want, None);
            }
        }
        "sum_mean" => {
            let s: f64 = a.iter().sum();
            expect_s::<T>(&Cx { op: "vec.sum", class: sg, what: &what }, mc::guard(|| v.sum()), s, 4.0 * nf * T::EPS * sum_abs(&a));
            // + SUB: the division may round in the subnormal range (absolute error <= SUB/2 < 1e-44)
            expect_s::<T>(&Cx { op: "vec.mean", class: sg, what: &what }, mc::guard(|| v.mean()), s / nf, 4.0 * nf * T::EPS * sum_abs(&a) / nf + T::SUB);
        }
        "var_std" => {
            let (mu, var) = (mean_of(&a), var_of(&a).max(0.0));
            judge_var_std::<T>(&v, n, mu, var, &what);
        }
        "norms" => {
            // adjacent floats: the two infinite norms only (exact selections of max |x| / min |x|)
            let pi = if adj { 4 + mc::choose(2) } else { mc::choose(NORM_PS.len() + 1) };
            if pi == NORM_PS.len() {
                let want = a.iter().map(|x| x * x).sum::<f64>().sqrt();
                expect_s::<T>(&Cx { op: "vec.norm2", class: sg, what: &what }, mc::guard(|| v.norm2()), want, 8.0 * (nf + 2.0) * T::EPS * want);
                opname = "norm2".into();
            } else {
                let p = NORM_PS[pi];
                let want = pnorm(&a, p);
                let w = || format!("{} p={}", what(), p);
                expect_s::<T>(&Cx { op: "vec.norm", class: sg, what: &w }, mc::guard(|| v.norm(t(p))), want, pnorm_tol::<T>(&a, p, want));
                opname = format!("norm({})", p);
            }
        }
        "unique" => {
            let mut want = a.clone();
            want.sort_by(|x, y| x.partial_cmp(y).unwrap());
            want.dedup();
            let cls = if want.len() < n { "with-duplicates" } else { "all-distinct" };
            if adj && want.len() >= 2 {
                mc::count("adjacent_unique_distinct_neighbours");
            }
            expect_v::<T>(&Cx { op: "vec.unique", class: cls, what: &what }, mc::guard(|| v.unique()), &want, None);
        }
        "scalar" => {
            let which = mc::choose(4);
            let s = SCALARS[mc::choose(SCALARS.len())];
            let name = ["add_scalar", "sub_scalar", "mul_scalar", "div_scalar"][which];
            let want: Vec<f64> = a
                .iter()
                .map(|x| {
                    rt::<T>(match which {
                        0 => x + s,
                        1 => x - s,
                        2 => x * s,
                        _ => x / s,
                    })
                })
                .collect();
            let st: T = t(s);
            let w = || format!("{} scalar {}", what(), s);
            let (oc, om) = (format!("vec.{}", name), format!("vec.{}_mut", name));
            let g1 = mc::guard(|| match which {
                0 => v.add_scalar(st),
                1 => v.sub_scalar(st),
                2 => v.mul_scalar(st),
                _ => v.div_scalar(st),
            });
            let g1 = expect_v::<T>(&Cx { op: &oc, class: lc, what: &w }, g1, &want, None);
            let mut m = v.clone();
            let g2 = mc::guard(|| {
                match which {
                    0 => m.add_scalar_mut(st),
                    1 => m.sub_scalar_mut(st),
                    2 => m.mul_scalar_mut(st),
                    _ => m.div_scalar_mut(st),
                };
            });
            let g2 = expect_v::<T>(&Cx { op: &om, class: lc, what: &w }, g2.map(|_| m), &want, None);
            if let (Some(g1), Some(g2)) = (g1, g2) {
                if g1.len() != g2.len() || first_diff(&g1, &g2, None).is_some() {
                    Cx { op: &om, class: lc, what: &w }.fail(":differs-from-copying", format!("in-place {:?} vs copying {:?}", g2, g1));
                }
            }
            opname = format!("{}({})", name, s);
        }
        "elem_mut" => {
            let x = 3.0;
            for which in 0..4 {
                let name = ["vec.add_element_mut", "vec.sub_element_mut", "vec.mul_element_mut", "vec.div_element_mut"][which];
                for i in 0..n {
                    let mut m = v.clone();
                    let xt: T = t(x);
                    let res = mc::guard(|| match which {
                        0 => m.add_element_mut(i, xt),
                        1 => m.sub_element_mut(i, xt),
                        2 => m.mul_element_mut(i, xt),
                        _ => m.div_element_mut(i, xt),
                    });
                    let mut want = a.clone();
                    want[i] = rt::<T>(match which {
                        0 => a[i] + x,
                        1 => a[i] - x,
                        2 => a[i] * x,
                        _ => a[i] / x,
                    });
                    let w = || format!("{} at {} with {}", what(), i, x);
                    expect_v::<T>(&Cx { op: name, class: lc, what: &w }, res.map(|_| m), &want, None);
                }
            }
        }
        "approx_adjacent" => {
            // approximate_eq(error) is the formula max|a-b| <= error; against a copy with one element
            // moved by one or two ulps it is judged exactly (the difference of neighbouring floats is
            // computed without rounding): error = 0, the difference itself, and its predecessor
            expect_eq(&Cx { op: "vec.approximate_eq", class: lc, what: &what }, mc::guard(|| v.approximate_eq(&v.clone(), t(0.0))), true);
            for k in 0..n {
                for steps in [1, -1, 2, -2] {
                    let mut c = a.clone();
                    c[k] = crate::unary::ulps::<T>(a[k], steps);
                    let diff = (c[k] - a[k]).abs();
                    assert!(diff > 0.0 && rt::<T>(diff) == diff);
                    let vc = vt::<T>(&c);
                    for err in [0.0, diff, T::next_down(diff)] {
                        let w = || format!("{} against a copy with element {} moved by {} ulp(s) to {:e} (difference {:e}), error {:e}", what(), k, steps, c[k], diff, err);
                        expect_eq(&Cx { op: "vec.approximate_eq", class: lc, what: &w }, mc::guard(|| v.approximate_eq(&vc, t(err))), diff <= err);
                        expect_eq(&Cx { op: "vec.approximate_eq", class: lc, what: &w }, mc::guard(|| vc.approximate_eq(&v, t(err))), diff <= err);
                    }
                }
            }
        }
        "take" => {
            let idx: Vec<usize> = crate::unary::choose_take(n, fs.is_long());
            let want: Vec<f64> = idx.iter().map(|i| a[*i]).collect();
            let w = || format!("{} take({:?})", what(), idx);
            expect_v::<T>(&Cx { op: "vec.take", class: lc, what: &w }, mc::guard(|| v.take(&idx)), &want, None);
            opname = format!("take({:?})", idx);
        }
        _ => unreachable!(),
    }
    mc::nontrivial();
    mc::describe(|| json!({"width": T::NAME, "type": "Vec<T>", "operation": opname, "fill": fill_name(fi, fs), "input": a}));
}

/// var / std of a vector against the exact moments (`mu`, `var`).
pub fn judge_var_std<T: W>(v: &Vec<T>, n: usize, mu: f64, var: f64, what: &dyn Fn() -> String) {
    let cls = offset_class::<T>(mu, var.sqrt());
    if cls == "large-offset" {
        mc::count("var_lane_large_offset");
    }
    let (tv, ts) = (var_tol::<T>(n, mu, var), std_tol::<T>(n, mu, var));
    let w = || format!("{} (true mean {:e}, true variance {:e})", what(), mu, var);
    match mc::guard(|| v.var()) {
        Err(p) => Cx { op: "vec.var", class: cls, what: &w }.panic(&p),
        Ok(g) => {
            let g = f(g);
            mc::outcome(mc::hash::canon_bits(g));
            if g.is_nan() || (g - var).abs() > tv {
                Cx { op: "vec.var", class: cls, what: &w }.fail("", format!("returned {:e}, expected {:e} (tolerance {:e})", g, var, tv));
            }
        }
    }
    match mc::guard(|| v.std()) {
        Err(p) => Cx { op: "vec.std", class: cls, what: &w }.panic(&p),
        Ok(g) => {
            let g = f(g);
            mc::outcome(mc::hash::canon_bits(g));
            if g.is_nan() || (g - var.sqrt()).abs() > ts {
                Cx { op: "vec.std", class: cls, what: &w }.fail("", format!("returned {:e}, expected {:e} (tolerance {:e})", g, var.sqrt(), ts));
            }
        }
    }
}

/// `partners`: the lengths offered to the right-hand operand (every one is paired with `n1`).
pub fn run_binary<T: W>(n1: usize, partners: &[usize], seed: u64) {
    let n2 = partners[mc::choose(partners.len())];
    let fa = mc::choose(4);
    let fb = mc::choose(3);
    let a: Vec<f64> = coded(1, n1, fa, seed).round::<T>().v;
    let b: Vec<f64> = if fb < 2 { coded2(1, n2, fb, seed) } else { coded(1, n2, fa, seed) }.round::<T>().v;
    let (va, vb) = (vt::<T>(&a), vt::<T>(&b));
    let op = BOPS[mc::choose(BOPS.len())];
    let what = || format!("[{} a={:?} b={:?}]", T::NAME, a, b);
    let same = n1 == n2;
    let lc = if n1 == 1 { "length-1" } else { "length>1" };
    let showv = |x: &Vec<T>| format!("{:?}", vf(x));
    match op {
        "arith" => {
            for which in 0..4 {
                let name = ["add", "sub", "mul", "div"][which];
                let (oc, om) = (format!("vec.{}", name), format!("vec.{}_mut", name));
                let g1 = mc::guard(|| match which {
                    0 => va.add(&vb),
                    1 => va.sub(&vb),
                    2 => va.mul(&vb),
                    _ => va.div(&vb),
                });
                let mut m = va.clone();
                let g2 = mc::guard(|| {
                    match which {
                        0 => m.add_mut(&vb),
                        1 => m.sub_mut(&vb),
                        2 => m.mul_mut(&vb),
                        _ => m.div_mut(&vb),
                    };
                });
                let g2 = g2.map(|_| m);
                if same {
                    let want: Vec<f64> = a
                        .iter()
                        .zip(&b)
                        .map(|(x, y)| {
                            rt::<T>(match which {
                                0 => x + y,
                                1 => x - y,
                                2 => x * y,
                                _ => x / y,
                            })
                        })
                        .collect();
                    let r1 = expect_v::<T>(&Cx { op: &oc, class: lc, what: &what }, g1, &want, None);
                    let r2 = expect_v::<T>(&Cx { op: &om, class: lc, what: &what }, g2, &want, None);
                    if let (Some(r1), Some(r2)) = (r1, r2) {
                        if r1.len() != r2.len() || first_diff(&r1, &r2, None).is_some() {
                            Cx { op: &om, class: lc, what: &what }.fail(":differs-from-copying", format!("in-place {:?} vs copying {:?}", r2, r1));
                        }
                    }
                    if vf(&va) != a || vf(&vb) != b {
                        Cx { op: &oc, class: lc, what: &what }.fail(":input-modified", "an operand was changed".into());
                    }
                } else {
                    expect_panic(&Cx { op: &oc, class: "incompatible-accepted", what: &what }, g1, showv);
                    expect_panic(&Cx { op: &om, class: "incompatible-accepted", what: &what }, g2, showv);
                }
            }
        }
        "dot" => {
            let g = mc::guard(|| va.dot(&vb));
            if same {
                let want: f64 = a.iter().zip(&b).map(|(x, y)| x * y).sum();
                let sabs: f64 = a.iter().zip(&b).map(|(x, y)| (x * y).abs()).sum();
                expect_s::<T>(&Cx { op: "vec.dot", class: lc, what: &what }, g, want, 4.0 * n1 as f64 * T::EPS * sabs);
            } else {
                expect_panic(&Cx { op: "vec.dot", class: "length-mismatch-accepted", what: &what }, g, |x| format!("{}", x));
            }
        }
        "approx_eq" => {
            let maxd = if same { a.iter().zip(&b).fold(0.0f64, |m, (x, y)| m.max((x - y).abs())) } else { f64::INFINITY };
            let cls = if same { lc } else { "different-length" };
            for err in [0.5, 1e9] {
                if same && (maxd - err).abs() <= 1e-3 * err {
                    continue;
                }
                let w = || format!("{} error {:e}", what(), err);
                expect_eq(&Cx { op: "vec.approximate_eq", class: cls, what: &w }, mc::guard(|| va.approximate_eq(&vb, t(err))), same && maxd <= err);
                expect_eq(&Cx { op: "vec.approximate_eq", class: cls, what: &w }, mc::guard(|| vb.approximate_eq(&va, t(err))), same && maxd <= err);
            }
            // one-entry perturbations of a
            for k in 0..n1 {
                let mut c = a.clone();
                c[k] = rt::<T>(c[k] + c[k].abs().max(1.0));
                let vc = vt::<T>(&c);
                let err = 0.5 * a[k].abs().max(1.0);
                let w = || format!("{} against a copy with element {} changed to {:e}, error {:e}", what(), k, c[k], err);
                expect_eq(&Cx { op: "vec.approximate_eq", class: lc, what: &w }, mc::guard(|| va.approximate_eq(&vc, t(err))), false);
            }
            expect_eq(&Cx { op: "vec.approximate_eq", class: lc, what: &what }, mc::guard(|| va.approximate_eq(&va.clone(), t(0.0))), true);
        }
        "copy_from" => {
            let mut m = va.clone();
            let g = mc::guard(|| m.copy_from(&vb));
            if same {
                expect_v::<T>(&Cx { op: "vec.copy_from", class: lc, what: &what }, g.map(|_| m), &b, None);
            } else {
                expect_panic(&Cx { op: "vec.copy_from", class: "incompatible-accepted", what: &what }, g.map(|_| m), showv);
            }
        }
        _ => unreachable!(),
    }
    mc::nontrivial();
    mc::describe(|| json!({"width": T::NAME, "type": "Vec<T>", "operation": op, "a": a, "b": b}));
}
