//! Reference model for C03: a plain row-major matrix of f64 (`M`), the value alphabets ("fills"),
//! input classes for site keys, and the comparison helpers. Nothing here calls into the library
//! except `build` / `view` (construction through `from_2d_vec`, reading through `shape` + `get`).

use mc_core::{self as mc, PanicInfo};
use smartcore::linalg::naive::dense_matrix::DenseMatrix;
use smartcore::linalg::BaseMatrix;
use smartcore::math::num::RealNumber;

/// The two floating-point widths of the property.
pub trait W: RealNumber + 'static {
    const NAME: &'static str;
    /// machine epsilon of the width
    const EPS: f64;
    /// smallest positive normal number
    const TINY: f64;
    /// required relative accuracy of var (relative to the true variance) inside the quantifier
    const VAR_ACC: f64;
    /// largest |mean|/std for which the spread-relative accuracy clause is demanded
    const VAR_RMAX: f64;
    /// smallest positive (subnormal) number of the width: the absolute rounding error of one
    /// operation whose result falls into the subnormal range is at most SUB/2 (it is below 1e-44,
    /// so it has no effect on any value of the lattice fills)
    const SUB: f64;
    /// successor of `x` in the width (`x` is a finite value of the width; built through `to_bits`)
    fn next_up(x: f64) -> f64;
    /// predecessor of `x` in the width
    fn next_down(x: f64) -> f64 {
        -Self::next_up(-x)
    }
}

impl W for f64 {
    const NAME: &'static str = "f64";
    const EPS: f64 = f64::EPSILON;
    const TINY: f64 = f64::MIN_POSITIVE;
    const VAR_ACC: f64 = 1e-6;
    const VAR_RMAX: f64 = 1.0e8;
    const SUB: f64 = 5e-324;
    fn next_up(x: f64) -> f64 {
        assert!(x.is_finite());
        if x == 0.0 {
            f64::from_bits(1)
        } else if x > 0.0 {
            f64::from_bits(x.to_bits() + 1)
        } else {
            f64::from_bits(x.to_bits() - 1)
        }
    }
}

impl W for f32 {
    const NAME: &'static str = "f32";
    const EPS: f64 = f32::EPSILON as f64;
    const TINY: f64 = f32::MIN_POSITIVE as f64;
    const VAR_ACC: f64 = 1e-2;
    const VAR_RMAX: f64 = 4.0e3;
    const SUB: f64 = 1.401298464324817e-45;
    fn next_up(x: f64) -> f64 {
        let y = x as f32;
        assert!(y.is_finite() && y as f64 == x, "{} is not a value of f32", x);
        (if y == 0.0 {
            f32::from_bits(1)
        } else if y > 0.0 {
            f32::from_bits(y.to_bits() + 1)
        } else {
            f32::from_bits(y.to_bits() - 1)
        }) as f64
    }
}

#[inline]
pub fn t<T: W>(x: f64) -> T {
    T::from_f64(x).unwrap()
}

#[inline]
pub fn f<T: W>(x: T) -> f64 {
    x.to_f64().unwrap()
}

/// Round to the width (the value the library holds for input `x`).
#[inline]
pub fn rt<T: W>(x: f64) -> f64 {
    f(t::<T>(x))
}

pub fn vt<T: W>(v: &[f64]) -> Vec<T> {
    v.iter().map(|x| t::<T>(*x)).collect()
}

pub fn vf<T: W>(v: &[T]) -> Vec<f64> {
    v.iter().map(|x| f(*x)).collect()
}

#[derive(Clone, Debug, PartialEq)]
pub struct M {
    pub r: usize,
    pub c: usize,
    /// row-major
    pub v: Vec<f64>,
}

impl M {
    pub fn new(r: usize, c: usize, g: impl Fn(usize, usize) -> f64) -> M {
        let mut v = Vec::with_capacity(r * c);
        for i in 0..r {
            for j in 0..c {
                v.push(g(i, j));
            }
        }
        M { r, c, v }
    }
    #[inline]
    pub fn at(&self, i: usize, j: usize) -> f64 {
        self.v[i * self.c + j]
    }
    pub fn rows(&self) -> Vec<Vec<f64>> {
        (0..self.r).map(|i| self.v[i * self.c..(i + 1) * self.c].to_vec()).collect()
    }
    pub fn row(&self, i: usize) -> Vec<f64> {
        self.v[i * self.c..(i + 1) * self.c].to_vec()
    }
    pub fn col(&self, j: usize) -> Vec<f64> {
        (0..self.r).map(|i| self.at(i, j)).collect()
    }
    pub fn map(&self, g: impl Fn(f64) -> f64) -> M {
        M { r: self.r, c: self.c, v: self.v.iter().map(|x| g(*x)).collect() }
    }
    pub fn zip(&self, o: &M, g: impl Fn(f64, f64) -> f64) -> M {
        assert_eq!((self.r, self.c), (o.r, o.c));
        M { r: self.r, c: self.c, v: self.v.iter().zip(&o.v).map(|(x, y)| g(*x, *y)).collect() }
    }
    pub fn tr(&self) -> M {
        M::new(self.c, self.r, |i, j| self.at(j, i))
    }
    pub fn colmajor(&self) -> Vec<f64> {
        let mut v = Vec::with_capacity(self.r * self.c);
        for j in 0..self.c {
            for i in 0..self.r {
                v.push(self.at(i, j));
            }
        }
        v
    }
    pub fn round<T: W>(&self) -> M {
        self.map(rt::<T>)
    }
    pub fn show(&self) -> String {
        format!("{}x{}{:?}", self.r, self.c, self.rows())
    }
    pub fn max_abs(&self) -> f64 {
        self.v.iter().fold(0.0, |m, x| m.max(x.abs()))
    }
}

pub fn build<T: W>(m: &M) -> DenseMatrix<T> {
    let rows: Vec<Vec<T>> = m.rows().iter().map(|r| vt::<T>(r)).collect();
    DenseMatrix::from_2d_vec(&rows)
}

/// Logical rows-by-columns view of a library matrix, read through `shape` and `get` only.
pub fn view<T: W>(d: &DenseMatrix<T>) -> M {
    let (r, c) = d.shape();
    M::new(r, c, |i, j| f(d.get(i, j)))
}

// ------------------------------------------------------------------------------------------------
// alphabets

pub fn sgn(p: usize, i: usize, j: usize) -> f64 {
    match p {
        0 => 1.0,
        1 => -1.0,
        2 => {
            if (i + j) % 2 == 0 {
                1.0
            } else {
                -1.0
            }
        }
        _ => {
            if i % 2 == 0 {
                1.0
            } else {
                -1.0
            }
        }
    }
}

pub const SIGN_NAMES: [&str; 4] = ["all-positive", "all-negative", "checkerboard", "row-alternating"];

/// VERIF_SEED selects which finite alphabet is enumerated: the index code is multiplied by k and
/// shifted by off (all values stay exactly representable in f32).
pub fn seed_kf(seed: u64) -> (f64, f64) {
    [(1.0, 0.0), (3.0, 0.0), (1.0, 0.25), (2.0, 0.5), (5.0, 0.0), (0.5, 0.0), (7.0, 0.25), (4.0, 0.0)][(seed % 8) as usize]
}

/// Index-coded matrix: every entry distinct, v(i,j) = sign(i,j) * ((1 + 16 i + j) k + off).
pub fn coded(r: usize, c: usize, p: usize, seed: u64) -> M {
    let (k, off) = seed_kf(seed);
    M::new(r, c, |i, j| sgn(p, i, j) * ((1 + 16 * i + j) as f64 * k + off))
}

/// Row stride of the wide index code (long family, round 2): injective for every c <= 512.
pub const WIDE: usize = 512;

/// Wide index code for the long family: v(i,j) = sign(i,j) * ((1 + 512 i + j) k + off); every entry
/// distinct for c <= 512 and exactly representable in f32 for r <= 1024 (all seed variants).
pub fn coded_w(r: usize, c: usize, p: usize, seed: u64) -> M {
    let (k, off) = seed_kf(seed);
    M::new(r, c, |i, j| sgn(p, i, j) * ((1 + WIDE * i + j) as f64 * k + off))
}

/// Wide second code for right-hand operands of the long family: (2 + 2048 i + 3 j).
pub fn coded2_w(r: usize, c: usize, p: usize, seed: u64) -> M {
    let (k, off) = seed_kf(seed);
    let pp = if p == 0 { 0 } else { 2 };
    M::new(r, c, |i, j| sgn(pp, i, j) * ((2 + 4 * WIDE * i + 3 * j) as f64 * k + off))
}

/// A second, different index code for right-hand operands: (2 + 32 i + 3 j), sign + or checkerboard.
pub fn coded2(r: usize, c: usize, p: usize, seed: u64) -> M {
    let (k, off) = seed_kf(seed);
    let pp = if p == 0 { 0 } else { 2 };
    M::new(r, c, |i, j| sgn(pp, i, j) * ((2 + 32 * i + 3 * j) as f64 * k + off))
}

pub const LARGE: [f64; 8] = [400.0, -745.0, 1000.0, -1e6, -400.0, 745.0, -1000.0, 1e6];
pub const EQUAL: [f64; 3] = [0.0, -3.0, 7.0];
pub const OFFSETS: [(f64, f64); 3] = [(1e4, 1.0), (1e6, 1.0), (1e8, 2.0)];
pub const S3: [f64; 3] = [0.0, 1.0, -1.0];

#[derive(Clone, Copy, Debug, PartialEq)]
pub enum FillSet {
    /// 4 index-coded + 3 all-equal + 10 large-magnitude + 3 offset (+ every Sigma3 fill when r*c <= sigma_max)
    Full { sigma_max: usize },
    /// 4 index-coded + 1 large-magnitude + 1 offset (structured shapes beyond the lattice bound)
    Lite,
    /// as `Lite`, but with the wide index code (long family: rows / columns of length >= 15)
    LiteWide,
    /// the 4 wide index-coded sign patterns only (long family, structural group: values are just labels)
    CodedWide,
    /// adjacent floats (round 7): per centre x every assignment of {x, next_up(x), next_down(x)} to the
    /// entries when r*c <= sigma_max, else the structured assignments of `adjacent_pattern`
    Adjacent { sigma_max: usize },
}

impl FillSet {
    /// Does the fill set belong to the long family (round 2)?
    pub fn is_long(self) -> bool {
        matches!(self, FillSet::LiteWide | FillSet::CodedWide)
    }
    /// Does the fill set belong to the adjacent-floats family (round 7)?
    pub fn is_adjacent(self) -> bool {
        matches!(self, FillSet::Adjacent { .. })
    }
}

pub fn pow3(n: usize) -> usize {
    3usize.pow(n as u32)
}

pub fn n_fills(r: usize, c: usize, fs: FillSet) -> usize {
    match fs {
        FillSet::Full { sigma_max } => 20 + if r * c <= sigma_max { pow3(r * c) } else { 0 },
        FillSet::Lite | FillSet::LiteWide => 6,
        FillSet::CodedWide => 4,
        FillSet::Adjacent { sigma_max } => ADJ_CENTRES * adjacent_per_centre(r * c, sigma_max),
    }
}

// ------------------------------------------------------------------------------------------------
// adjacent floats (round 7): values that are distinct but one or two ulps apart

/// Number of centres x of the adjacent-floats family.
pub const ADJ_CENTRES: usize = 7;

/// VERIF_SEED scales the centres by an exact power of two (the ulp structure is unchanged).
fn adj_scale(seed: u64) -> f64 {
    [1.0, 2.0, 4.0, 0.5, 8.0, 16.0, 32.0, 64.0][(seed % 8) as usize]
}

/// Centre `k` in the width: 0.3, 1, -0.7, the largest value below 2, 2.5, 1e-17 (each rounded to the
/// width) and 0 (whose neighbours are the two smallest subnormals).
pub fn adj_centre<T: W>(k: usize, seed: u64) -> f64 {
    let x = match k {
        0 => rt::<T>(0.3),
        1 => 1.0,
        2 => rt::<T>(-0.7),
        3 => T::next_down(2.0),
        4 => 2.5,
        5 => rt::<T>(1e-17),
        _ => 0.0,
    };
    x * adj_scale(seed)
}

/// The alphabet of centre `k`: [x, next_up(x), next_down(x)], built exactly in the width.
pub fn adj_alphabet<T: W>(k: usize, seed: u64) -> [f64; 3] {
    let x = adj_centre::<T>(k, seed);
    [x, T::next_up(x), T::next_down(x)]
}

/// Assignments per centre: every one (3^n) when n <= sigma_max, else the structured ones.
pub fn adjacent_per_centre(n: usize, sigma_max: usize) -> usize {
    if n <= sigma_max {
        pow3(n)
    } else {
        6 + 2 * n
    }
}

/// Letter (0 = x, 1 = up, 2 = down) of position `pos` (row-major) under assignment `code`.
/// Exhaustive: base-3 digits of the code. Structured (n > sigma_max): 3 phases of the cyclic
/// pattern over the row-major position, 3 phases of the cyclic pattern over i + 2 j, then x
/// everywhere except one entry moved up / down, at every position.
fn adjacent_letter(code: usize, pos: usize, i: usize, j: usize, n: usize, exhaustive: bool) -> usize {
    if exhaustive {
        (code / pow3(pos)) % 3
    } else if code < 3 {
        (pos + code) % 3
    } else if code < 6 {
        (i + 2 * j + code) % 3
    } else {
        let k = code - 6;
        if k % n == pos {
            1 + k / n
        } else {
            0
        }
    }
}

/// (centre index, assignment code) of fill `idx`: the centres are the outer dimension.
pub fn adj_split(idx: usize, n: usize, sigma_max: usize) -> (usize, usize) {
    let per = adjacent_per_centre(n, sigma_max);
    (idx / per, idx % per)
}

/// Position (row-major) of the moved entry when fill `idx` is one of the structured single-deviant
/// assignments (n > sigma_max, x everywhere except one entry); None for every other assignment.
pub fn adj_single_deviant(idx: usize, n: usize, sigma_max: usize) -> Option<usize> {
    let (_, code) = adj_split(idx, n, sigma_max);
    if n > sigma_max && code >= 6 {
        Some((code - 6) % n)
    } else {
        None
    }
}

/// The adjacent-floats fill `idx` of an r x c operand in the width T (values of the width, held in f64).
pub fn adjacent_fill<T: W>(idx: usize, r: usize, c: usize, sigma_max: usize, seed: u64) -> M {
    let n = r * c;
    let (k, code) = adj_split(idx, n, sigma_max);
    let al = adj_alphabet::<T>(k, seed);
    M::new(r, c, |i, j| al[adjacent_letter(code, i * c + j, i, j, n, n <= sigma_max)])
}

/// Any fill in the width T: the lattice fills rounded to the width, the adjacent floats built in it.
pub fn fill_t<T: W>(idx: usize, r: usize, c: usize, fs: FillSet, seed: u64) -> M {
    match fs {
        FillSet::Adjacent { sigma_max } => adjacent_fill::<T>(idx, r, c, sigma_max, seed),
        _ => fill(idx, r, c, fs, seed).round::<T>(),
    }
}

fn offset_pattern(i: usize, j: usize) -> f64 {
    ((i + 2 * j) % 3) as f64 - 1.0
}

pub fn fill(idx: usize, r: usize, c: usize, fs: FillSet, seed: u64) -> M {
    match fs {
        FillSet::Adjacent { .. } => panic!("adjacent floats depend on the width: use fill_t"),
        FillSet::CodedWide => coded_w(r, c, idx, seed),
        FillSet::Lite | FillSet::LiteWide => match idx {
            0..=3 if fs == FillSet::LiteWide => coded_w(r, c, idx, seed),
            0..=3 => coded(r, c, idx, seed),
            4 => M::new(r, c, |i, j| LARGE[(i * c + j) % 8]),
            _ => M::new(r, c, |i, j| 1e8 + 2.0 * offset_pattern(i, j)),
        },
        FillSet::Full { .. } => match idx {
            0..=3 => coded(r, c, idx, seed),
            4..=6 => M::new(r, c, |_, _| EQUAL[idx - 4]),
            7..=14 => M::new(r, c, |i, j| LARGE[(i * c + j + idx - 7) % 8]),
            15 => M::new(r, c, |i, j| -LARGE[(i * c + j) % 8].abs()),
            16 => M::new(r, c, |i, j| LARGE[(i * c + j) % 8].abs()),
            17..=19 => {
                let (mu, s) = OFFSETS[idx - 17];
                M::new(r, c, |i, j| mu + s * offset_pattern(i, j))
            }
            _ => {
                let mut code = idx - 20;
                let mut v = Vec::with_capacity(r * c);
                for _ in 0..r * c {
                    v.push(S3[code % 3]);
                    code /= 3;
                }
                M { r, c, v }
            }
        },
    }
}

pub fn fill_name(idx: usize, fs: FillSet) -> String {
    match fs {
        FillSet::Adjacent { .. } => format!("adjacent-floats #{}", idx),
        FillSet::CodedWide => format!("wide-index-coded/{}", SIGN_NAMES[idx]),
        FillSet::Lite | FillSet::LiteWide => match idx {
            0..=3 if fs == FillSet::LiteWide => format!("wide-index-coded/{}", SIGN_NAMES[idx]),
            0..=3 => format!("index-coded/{}", SIGN_NAMES[idx]),
            4 => "large-magnitude".into(),
            _ => "offset 1e8+2*{-1,0,1}".into(),
        },
        FillSet::Full { .. } => match idx {
            0..=3 => format!("index-coded/{}", SIGN_NAMES[idx]),
            4..=6 => format!("all-equal {}", EQUAL[idx - 4]),
            7..=14 => format!("large-magnitude rot{}", idx - 7),
            15 => "large-magnitude all-negative".into(),
            16 => "large-magnitude all-positive".into(),
            17..=19 => format!("offset {:e}+{}*{{-1,0,1}}", OFFSETS[idx - 17].0, OFFSETS[idx - 17].1),
            _ => format!("sigma3 #{}", idx - 20),
        },
    }
}

// ------------------------------------------------------------------------------------------------
// input classes for site keys

pub fn shape_class(r: usize, c: usize) -> &'static str {
    match (r, c) {
        (1, 1) => "1x1",
        (1, _) => "row-vector",
        (_, 1) => "col-vector",
        _ if r == c => "square",
        _ if r < c => "wide",
        _ => "tall",
    }
}

pub fn sign_class(v: &[f64]) -> &'static str {
    if v.iter().all(|x| *x == 0.0) {
        "all-zero"
    } else if v.iter().all(|x| *x < 0.0) {
        "all-negative"
    } else if v.iter().all(|x| *x >= 0.0) {
        "non-negative"
    } else {
        "mixed-sign"
    }
}

/// Class of a softmax input: small-range (max|x| <= 40), else which sign the largest magnitude has.
pub fn softmax_class(x: &[f64]) -> &'static str {
    let mx = x.iter().cloned().fold(f64::NEG_INFINITY, f64::max);
    let mn = x.iter().cloned().fold(f64::INFINITY, f64::min);
    if mx.abs().max(mn.abs()) <= 40.0 {
        "small-range"
    } else if -mn > mx {
        "largest-magnitude-negative"
    } else {
        "largest-magnitude-positive"
    }
}

/// Class of a variance input: is the common offset large relative to the spread
/// (|mean| >= 1e3 std for f64, >= 1e2 std for f32)?
pub fn offset_class<T: W>(mean: f64, std: f64) -> &'static str {
    let k = if T::NAME == "f64" { 1e3 } else { 1e2 };
    if mean.abs() >= k * std && mean != 0.0 {
        "large-offset"
    } else {
        "small-offset"
    }
}

// ------------------------------------------------------------------------------------------------
// comparison helpers

/// Development aid for calibration: C03_TOLSCALE=<x> multiplies every tolerance by x (default 1).
pub fn tol_scale() -> f64 {
    static S: std::sync::OnceLock<f64> = std::sync::OnceLock::new();
    *S.get_or_init(|| std::env::var("C03_TOLSCALE").ok().and_then(|v| v.parse().ok()).unwrap_or(1.0))
}

#[inline]
pub fn same(a: f64, b: f64, tol: f64) -> bool {
    (a.is_nan() && b.is_nan()) || a == b || (a - b).abs() <= tol * tol_scale()
}

thread_local! {
    static LONG_CASE: std::cell::Cell<bool> = const { std::cell::Cell::new(false) };
}

/// Mark the current execution as a case of the long family (round 2): the input class of every site
/// key it reports gets the suffix `/long`, so that a defect which only shows from a length threshold
/// on has a key of its own (it is a different defect than one of the short space, and must not be
/// absorbed by a known finding of the short space). Set at the start of every execution.
pub fn set_long_case(long: bool) {
    LONG_CASE.with(|c| c.set(long));
}

thread_local! {
    static LONG_DEEP: std::cell::Cell<bool> = const { std::cell::Cell::new(false) };
}

/// Thorough tier of the long family: the parameter sub-families that the quick tier restricts on a
/// long axis (slice ranges, take pairs, partner lengths) are enumerated in full. A function of the
/// job parameters only; set at the start of every execution.
pub fn set_long_deep(deep: bool) {
    LONG_DEEP.with(|c| c.set(deep));
}

pub fn long_deep() -> bool {
    LONG_DEEP.with(|c| c.get())
}

thread_local! {
    static ADJ_CASE: std::cell::Cell<bool> = const { std::cell::Cell::new(false) };
}

/// Mark the current execution as a case of the adjacent-floats family (round 7): the input class of
/// every site key it reports gets the suffix `/adjacent` (a defect that only shows on values one or
/// two ulps apart - a tolerance where the formula is exact - is a different defect than one of the
/// lattice space). Set at the start of every execution.
pub fn set_adjacent_case(adj: bool) {
    ADJ_CASE.with(|c| c.set(adj));
}

fn class_key(class: &str) -> String {
    // `large-offset` (cancellation in the one-pass variance) is a property of the values, not of the
    // length: the same defect at any length, so the key is shared with the short space
    if LONG_CASE.with(|c| c.get()) && class != "large-offset" {
        format!("{}/long", class)
    } else if ADJ_CASE.with(|c| c.get()) {
        format!("{}/adjacent", class)
    } else {
        class.to_string()
    }
}

pub struct Cx<'a> {
    /// `<component>.<operation>`
    pub op: &'a str,
    /// input class
    pub class: &'a str,
    /// lazily formatted description of the case
    pub what: &'a dyn Fn() -> String,
}

impl<'a> Cx<'a> {
    pub fn fail(&self, sub: &str, msg: String) {
        mc::violation(format!("{}:{}{}", self.op, class_key(self.class), sub), format!("{} {} — {}", self.op, (self.what)(), msg));
    }
    pub fn panic(&self, p: &PanicInfo) {
        let suffix = if p.is_overflow_check() { ":overflow-check" } else { "" };
        mc::violation(format!("{}:{}:panic{}", self.op, class_key(self.class), suffix), format!("{} {} — must succeed but {}", self.op, (self.what)(), p.brief()));
    }
}

pub fn first_diff(got: &[f64], want: &[f64], tol: Option<&[f64]>) -> Option<usize> {
    (0..want.len()).find(|&k| !same(got[k], want[k], tol.map(|t| t[k]).unwrap_or(0.0)))
}

/// The library returned (or panicked instead of returning) a matrix; compare its logical view.
pub fn expect_m<T: W>(cx: &Cx, got: Result<DenseMatrix<T>, PanicInfo>, want: &M, tol: Option<&[f64]>) -> Option<M> {
    let d = match got {
        Ok(d) => d,
        Err(p) => {
            cx.panic(&p);
            return None;
        }
    };
    let g = match mc::guard(|| view(&d)) {
        Ok(g) => g,
        Err(p) => {
            cx.fail(":unreadable", format!("result of shape {:?} cannot be read through get: {}", d.shape(), p.brief()));
            return None;
        }
    };
    mc::outcome(mc::hash::mix(mc::hash::h_usizes(&[g.r, g.c]), mc::hash::h_f64s(&g.v)));
    if (g.r, g.c) != (want.r, want.c) {
        cx.fail("", format!("result has shape {}x{}, expected {}x{}", g.r, g.c, want.r, want.c));
        return Some(g);
    }
    if let Some(k) = first_diff(&g.v, &want.v, tol) {
        cx.fail("", format!("entry ({},{}) is {:e}, expected {:e} (observed {} expected {})", k / want.c, k % want.c, g.v[k], want.v[k], g.show(), want.show()));
    }
    Some(g)
}

pub fn expect_v<T: W>(cx: &Cx, got: Result<Vec<T>, PanicInfo>, want: &[f64], tol: Option<&[f64]>) -> Option<Vec<f64>> {
    let g = match got {
        Ok(v) => vf(&v),
        Err(p) => {
            cx.panic(&p);
            return None;
        }
    };
    mc::outcome(mc::hash::h_f64s(&g));
    if g.len() != want.len() {
        cx.fail("", format!("result has length {}, expected {} (observed {:?} expected {:?})", g.len(), want.len(), g, want));
        return Some(g);
    }
    if let Some(k) = first_diff(&g, want, tol) {
        cx.fail("", format!("element {} is {:e}, expected {:e} (observed {:?} expected {:?})", k, g[k], want[k], g, want));
    }
    Some(g)
}

pub fn expect_s<T: W>(cx: &Cx, got: Result<T, PanicInfo>, want: f64, tol: f64) -> Option<f64> {
    let g = match got {
        Ok(v) => f(v),
        Err(p) => {
            cx.panic(&p);
            return None;
        }
    };
    mc::outcome(mc::hash::canon_bits(g));
    if !same(g, want, tol) {
        cx.fail("", format!("returned {:e}, expected {:e} (tolerance {:e})", g, want, tol));
    }
    Some(g)
}

pub fn expect_eq<R: PartialEq + std::fmt::Debug>(cx: &Cx, got: Result<R, PanicInfo>, want: R) {
    match got {
        Err(p) => cx.panic(&p),
        Ok(g) => {
            if g != want {
                cx.fail("", format!("returned {:?}, expected {:?}", g, want));
            }
        }
    }
}

/// The operands are incompatible: the call must be rejected by a panic.
pub fn expect_panic<R>(cx: &Cx, got: Result<R, PanicInfo>, show: impl Fn(&R) -> String) {
    match got {
        Err(_) => mc::count("incompatible_rejected"),
        Ok(r) => {
            mc::violation(format!("{}:{}", cx.op, class_key(cx.class)), format!("{} {} — incompatible operands must be rejected (panic) but the call returned {}", cx.op, (cx.what)(), show(&r)));
        }
    }
}

/// In-place variant against its copying counterpart: both equal `want`, bit-identical to each other,
/// and the copying variant leaves its input untouched.
#[allow(clippy::too_many_arguments)]
pub fn both<T: W>(
    comp_op_copy: &str,
    comp_op_mut: &str,
    class: &str,
    what: &dyn Fn() -> String,
    a: &M,
    d: &DenseMatrix<T>,
    want: &M,
    tol: Option<&[f64]>,
    copying: impl Fn(&DenseMatrix<T>) -> DenseMatrix<T>,
    inplace: impl Fn(&mut DenseMatrix<T>),
) {
    let src = d.clone();
    let g1 = expect_m(&Cx { op: comp_op_copy, class, what }, mc::guard(|| copying(&src)), want, tol);
    if mc::guard(|| view(&src)).ok().as_ref() != Some(a) {
        Cx { op: comp_op_copy, class, what }.fail(":input-modified", "the copying variant changed its input".into());
    }
    let mut m = d.clone();
    let r2 = mc::guard(|| {
        inplace(&mut m);
    });
    let g2 = expect_m(&Cx { op: comp_op_mut, class, what }, r2.map(|_| m), want, tol);
    if let (Some(g1), Some(g2)) = (g1, g2) {
        if (g1.r, g1.c) != (g2.r, g2.c) || first_diff(&g1.v, &g2.v, None).is_some() {
            Cx { op: comp_op_mut, class, what }.fail(":differs-from-copying", format!("in-place result {} differs from copying result {}", g2.show(), g1.show()));
        }
    }
}

// ------------------------------------------------------------------------------------------------
// reference formulas shared by several groups

pub fn sum_abs(v: &[f64]) -> f64 {
    v.iter().map(|x| x.abs()).sum()
}

pub fn mean_of(v: &[f64]) -> f64 {
    v.iter().sum::<f64>() / v.len() as f64
}

/// Two-pass population variance (reference; inputs are exactly representable, evaluated in f64).
pub fn var_of(v: &[f64]) -> f64 {
    let m = mean_of(v);
    // second pass with compensation: sum((x-m)^2) - (sum(x-m))^2/n
    let n = v.len() as f64;
    let s2: f64 = v.iter().map(|x| (x - m) * (x - m)).sum();
    let s1: f64 = v.iter().map(|x| x - m).sum();
    (s2 - s1 * s1 / n) / n
}

/// Tolerance of the variance clause for data with true mean `mu` and true variance `var`.
pub fn var_tol<T: W>(n: usize, mu: f64, var: f64) -> f64 {
    let std = var.sqrt();
    let n = n as f64;
    tol_scale()
        * if var > 0.0 && mu.abs() <= T::VAR_RMAX * std * 1.000001 {
        // accurate relative to the spread of the data (what a two-pass or Welford evaluation gives)
        T::VAR_ACC * var + (8.0 * n * T::EPS * mu.abs()).powi(2) + 16.0 * n * T::EPS * var
    } else {
        // outside the quantifier (zero spread or offset/spread beyond the bound): formula-level accuracy
        8.0 * n * T::EPS * (mu * mu + var)
    }
}

pub fn std_tol<T: W>(n: usize, mu: f64, var: f64) -> f64 {
    let tv = var_tol::<T>(n, mu, var);
    if var > 0.0 {
        (tv / var.sqrt()).min(tv.sqrt()) + 4.0 * T::EPS * var.sqrt()
    } else {
        tv.sqrt()
    }
}

/// p-norm of the entries (p = +inf: max |x|, p = -inf: min |x|).
pub fn pnorm(v: &[f64], p: f64) -> f64 {
    if p == f64::INFINITY {
        v.iter().fold(f64::NEG_INFINITY, |m, x| m.max(x.abs()))
    } else if p == f64::NEG_INFINITY {
        v.iter().fold(f64::INFINITY, |m, x| m.min(x.abs()))
    } else {
        v.iter().map(|x| x.abs().powf(p)).sum::<f64>().powf(1.0 / p)
    }
}

pub fn pnorm_tol<T: W>(v: &[f64], p: f64, want: f64) -> f64 {
    if p.is_infinite() {
        0.0
    } else {
        16.0 * (v.len() as f64 + 2.0) * T::EPS * (1.0f64).max(1.0 / p) * want.abs()
    }
}

/// Stable softmax over all entries.
pub fn softmax_ref(x: &[f64]) -> Vec<f64> {
    let mx = x.iter().cloned().fold(f64::NEG_INFINITY, f64::max);
    let e: Vec<f64> = x.iter().map(|v| (v - mx).exp()).collect();
    let z: f64 = e.iter().sum();
    e.iter().map(|v| v / z).collect()
}

/// Judge a softmax result: a probability vector equal to the stable reference.
pub fn check_softmax<T: W>(op: &str, what: &dyn Fn() -> String, x: &[f64], got: &[f64]) {
    let class = softmax_class(x);
    let cx = Cx { op, class, what };
    let n = x.len() as f64;
    if got.len() != x.len() {
        cx.fail("", format!("{} entries returned for {} inputs", got.len(), x.len()));
        return;
    }
    if let Some(k) = got.iter().position(|p| !(*p >= 0.0 && *p <= 1.0)) {
        cx.fail("", format!("not a probability vector: entry {} is {:e} (result {:?})", k, got[k], got));
        return;
    }
    let s: f64 = got.iter().sum();
    if (s - 1.0).abs() > 8.0 * n * T::EPS * tol_scale() {
        cx.fail("", format!("not a probability vector: entries sum to {:e} (result {:?})", s, got));
        return;
    }
    let want = softmax_ref(x);
    for k in 0..got.len() {
        let tol = (4096.0 * T::EPS * want[k] + 8.0 * T::TINY) * tol_scale();
        if (got[k] - want[k]).abs() > tol {
            cx.fail("", format!("entry {} is {:e}, expected {:e} (result {:?} expected {:?})", k, got[k], want[k], got, want));
            return;
        }
    }
}
