//! E1, the two clauses with their own alphabets: softmax of every short tuple over the extreme
//! alphabet, and mean / variance / standard deviation of offset data mu + sigma * {0, 1, -1}^n with
//! exact reference moments.

use crate::model::*;
use crate::vector::judge_var_std;
use mc_core::{self as mc, json};
use smartcore::linalg::naive::dense_matrix::DenseMatrix;
use smartcore::linalg::stats::MatrixStats;
use smartcore::linalg::{BaseMatrix, BaseVector};

pub const SOFTMAX_ALPHABET: [f64; 9] = [0.0, 1.0, -1.0, 400.0, -400.0, 745.0, -745.0, 1000.0, -1000.0];

/// orient: 0 = 1xN, 1 = Nx1, 2 = 2x(N/2) (N even)
pub fn softmax<T: W>(len: usize, orient: usize, seed: u64) {
    let (k, off) = seed_kf(seed);
    let x: Vec<f64> = (0..len).map(|_| rt::<T>(SOFTMAX_ALPHABET[mc::choose(9)] * k + off)).collect();
    softmax_case::<T>(x, orient);
}

/// Long family: the value `a` everywhere except `b` at position `pos`, every (a, b) of the alphabet
/// and every position of a vector of length `len` (1xN, Nx1 and 2x(N/2)).
pub fn softmax_long<T: W>(len: usize, orient: usize, seed: u64) {
    let (k, off) = seed_kf(seed);
    let a = rt::<T>(SOFTMAX_ALPHABET[mc::choose(9)] * k + off);
    let b = rt::<T>(SOFTMAX_ALPHABET[mc::choose(9)] * k + off);
    let pos = mc::choose(len);
    let mut x = vec![a; len];
    x[pos] = b;
    mc::count("long_softmax");
    softmax_case::<T>(x, orient);
}

fn softmax_case<T: W>(x: Vec<f64>, orient: usize) {
    let len = x.len();
    let (r, c) = match orient {
        0 => (1, len),
        1 => (len, 1),
        _ => (2, len / 2),
    };
    let a = M { r, c, v: x.clone() };
    let mut d: DenseMatrix<T> = build(&a);
    let what = || format!("[{} input {}]", T::NAME, a.show());
    let res = mc::guard(|| d.softmax_mut());
    let mut got = Vec::new();
    match res.and_then(|_| mc::guard(|| view(&d))) {
        Err(p) => Cx { op: "dense.softmax_mut", class: softmax_class(&x), what: &what }.panic(&p),
        Ok(g) => {
            mc::outcome(mc::hash::h_f64s(&g.v));
            if (g.r, g.c) != (r, c) {
                Cx { op: "dense.softmax_mut", class: shape_class(r, c), what: &what }.fail(":shape", format!("shape changed to {}x{}", g.r, g.c));
            } else {
                check_softmax::<T>("dense.softmax_mut", &what, &x, &g.v);
            }
            got = g.v;
        }
    }
    match softmax_class(&x) {
        "small-range" => mc::count("softmax_small_range"),
        "largest-magnitude-negative" => mc::count("softmax_negative_dominant"),
        _ => mc::count("softmax_positive_dominant"),
    }
    mc::nontrivial();
    mc::describe(|| json!({"width": T::NAME, "operation": "softmax_mut", "input": a.rows(), "observed": got, "expected": softmax_ref(&x)}));
}

pub fn offsets<T: W>() -> &'static [f64] {
    if T::NAME == "f64" {
        &[0.0, 1e2, 1e4, 1e6, 3e7, 1e8, -1e8]
    } else {
        &[0.0, 1e1, 1e2, 1e3, 4e3, -4e3]
    }
}

pub const SIGMAS: [f64; 3] = [1.0, 2.0, 0.5];

/// kind: "vec" | "axis0" | "axis1". Data x_i = mu + sigma * s_i with s in {0,1,-1}^n: exactly
/// representable, so the exact mean and variance are mu + sigma*mean(s) and sigma^2 * var(s).
pub fn variance<T: W>(kind: &str, n: usize) {
    let mus = offsets::<T>();
    let mu = mus[mc::choose(mus.len())];
    let sigma = SIGMAS[mc::choose(SIGMAS.len())];
    let s: Vec<i64> = (0..n).map(|_| [0i64, 1, -1][mc::choose(3)]).collect();
    variance_case::<T>(kind, mu, sigma, s);
}

/// Number of structured {0,1,-1} patterns of length n of the long family.
pub fn n_long_patterns(n: usize) -> usize {
    6 + 2 * n
}

/// Structured patterns over {0,1,-1}^n: the three phases of the period-3 pattern (0,1,-1), the two
/// phases of the alternating pattern (1,-1), first half +1 / second half -1, and a single +1 or a
/// single -1 at every position of an otherwise constant (0) vector.
pub fn long_pattern(k: usize, n: usize) -> Vec<i64> {
    match k {
        0..=2 => (0..n).map(|i| [0i64, 1, -1][(i + k) % 3]).collect(),
        3 | 4 => (0..n).map(|i| if (i + k) % 2 == 0 { -1 } else { 1 }).collect(),
        5 => (0..n).map(|i| if i < n / 2 { 1 } else { -1 }).collect(),
        _ => {
            let (pos, sign) = ((k - 6) / 2, if (k - 6) % 2 == 0 { 1 } else { -1 });
            (0..n).map(|i| if i == pos { sign } else { 0 }).collect()
        }
    }
}

/// Long family: x = mu + sigma * s for every structured pattern s of length n (`long_pattern`).
pub fn variance_long<T: W>(kind: &str, n: usize) {
    let mus = offsets::<T>();
    let mu = mus[mc::choose(mus.len())];
    let sigma = SIGMAS[mc::choose(SIGMAS.len())];
    let s = long_pattern(mc::choose(n_long_patterns(n)), n);
    mc::count("long_variance");
    variance_case::<T>(kind, mu, sigma, s);
}

fn variance_case<T: W>(kind: &str, mu: f64, sigma: f64, s: Vec<i64>) {
    let n = s.len();
    let x: Vec<f64> = s.iter().map(|k| mu + sigma * *k as f64).collect();
    debug_assert!(x.iter().all(|v| rt::<T>(*v) == *v));
    let (s1, s2): (i64, i64) = (s.iter().sum(), s.iter().map(|k| k * k).sum());
    let nn = n as i64;
    let mean = mu + sigma * (s1 as f64 / n as f64);
    let var = sigma * sigma * ((nn * s2 - s1 * s1) as f64 / (nn * nn) as f64);
    let what = || format!("[{} {} data {:?} = {:e} + {} * {:?}]", T::NAME, kind, x, mu, sigma, s);
    if var > 0.0 && mean.abs() <= T::VAR_RMAX * var.sqrt() * 1.000001 {
        mc::count("var_spread_clause_applied");
        if offset_class::<T>(mean, var.sqrt()) == "large-offset" {
            mc::count("var_spread_clause_large_offset");
        }
    }
    match kind {
        "vec" => {
            let v: Vec<T> = vt::<T>(&x);
            let mtol = 4.0 * n as f64 * T::EPS * sum_abs(&x) / n as f64;
            expect_s::<T>(&Cx { op: "vec.mean", class: offset_class::<T>(mean, var.sqrt()), what: &what }, mc::guard(|| v.mean()), mean, mtol);
            judge_var_std::<T>(&v, n, mean, var, &what);
        }
        _ => {
            // two lanes: the data, and the reversed data at the mirrored offset
            let axis: u8 = if kind == "axis0" { 0 } else { 1 };
            let y: Vec<f64> = x.iter().rev().map(|v| -*v).collect();
            let a = if axis == 0 { M::new(n, 2, |i, j| if j == 0 { x[i] } else { y[i] }) } else { M::new(2, n, |i, j| if i == 0 { x[j] } else { y[j] }) };
            let d: DenseMatrix<T> = build(&a);
            let cls = offset_class::<T>(mean, var.sqrt());
            if cls == "large-offset" {
                mc::count("var_lane_large_offset");
            }
            let mtol = 4.0 * n as f64 * T::EPS * sum_abs(&x) / n as f64;
            let (tv, ts) = (var_tol::<T>(n, mean, var), std_tol::<T>(n, mean, var));
            expect_v::<T>(&Cx { op: "stats.mean", class: cls, what: &what }, mc::guard(|| d.mean(axis)), &[mean, -mean], Some(&[mtol, mtol]));
            for (name, want, tol) in [("stats.var", var, tv), ("stats.std", var.sqrt(), ts)] {
                match mc::guard(|| if name == "stats.var" { d.var(axis) } else { d.std(axis) }) {
                    Err(p) => Cx { op: name, class: cls, what: &what }.panic(&p),
                    Ok(g) => {
                        let g = vf(&g);
                        mc::outcome(mc::hash::h_f64s(&g));
                        if g.len() != 2 {
                            Cx { op: name, class: shape_class(a.r, a.c), what: &what }.fail("", format!("{} values returned for 2 lanes", g.len()));
                        } else if let Some(k) = (0..2).find(|k| g[*k].is_nan() || (g[*k] - want).abs() > tol) {
                            Cx { op: name, class: cls, what: &what }.fail("", format!("lane {}: returned {:e}, expected {:e} (tolerance {:e}; true mean {:e})", k, g[k], want, tol, if k == 0 { mean } else { -mean }));
                        }
                    }
                }
            }
        }
    }
    mc::nontrivial();
    mc::describe(|| json!({"width": T::NAME, "operation": format!("mean/var/std ({})", kind), "data": x, "offset": mu, "sigma": sigma, "pattern": s, "true_mean": mean, "true_variance": var}));
}
