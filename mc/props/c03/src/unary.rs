//! E1, one matrix operand: constructors, accessors, structural operations, element-wise and scalar
//! arithmetic, reductions and statistics of `DenseMatrix<T>`.

use crate::model::*;
use mc_core::{self as mc, json};
use smartcore::linalg::naive::dense_matrix::DenseMatrix;
use smartcore::linalg::stats::{MatrixPreprocessing, MatrixStats};
use smartcore::linalg::BaseMatrix;

pub const GROUPS: [&str; 3] = ["struct", "elem", "reduce"];

/// Fill indices of shard `k` of `kk`: the 20 base fills belong to shard 0, the Sigma3 fills are
/// dealt round-robin.
pub fn shard_fill(nf: usize, k: usize, kk: usize) -> usize {
    if kk <= 1 || nf <= 20 {
        return mc::choose(nf);
    }
    let base = if k == 0 { 20 } else { 0 };
    let sig = (nf - 20 + kk - 1 - k) / kk;
    let i = mc::choose(base + sig);
    if i < base {
        i
    } else {
        20 + k + kk * (i - base)
    }
}

pub fn run<T: W>(group: &str, r: usize, c: usize, fs: FillSet, shard: (usize, usize), seed: u64) {
    let fi = shard_fill(n_fills(r, c, fs), shard.0, shard.1);
    let a = fill_t::<T>(fi, r, c, fs, seed);
    let d: DenseMatrix<T> = build(&a);
    // adjacent floats (round 7): the alphabet [x, next_up(x), next_down(x)] of the fill's centre
    let adj: Option<[f64; 3]> = match fs {
        FillSet::Adjacent { sigma_max } => {
            mc::count("adjacent_unary_matrix");
            Some(adj_alphabet::<T>(adj_split(fi, r * c, sigma_max).0, seed))
        }
        _ => None,
    };
    let op = match group {
        "struct" => structural::<T>(&a, &d, fi, fs),
        "elem" => elementwise::<T>(&a, &d, fi, fs, adj),
        "reduce" => reduce::<T>(&a, &d, fi, fs, adj.is_some()),
        g => panic!("unknown group {}", g),
    };
    mc::nontrivial();
    mc::describe(|| json!({"width": T::NAME, "group": group, "operation": op, "fill": fill_name(fi, fs), "input": a.rows()}));
}

fn desc<'a, T: W>(a: &'a M, fi: usize, fs: FillSet, extra: String) -> impl Fn() -> String + 'a {
    move || format!("[{} {}{} input {}]", T::NAME, fill_name(fi, fs), extra, a.show())
}

/// All non-empty index ranges of 0..n, simplest first.
fn ranges(n: usize) -> Vec<(usize, usize)> {
    let mut v = Vec::new();
    for len in (1..=n).rev() {
        for s in 0..=(n - len) {
            v.push((s, s + len));
        }
    }
    v
}

/// Target shapes offered to `reshape`: every (r', c') up to r*c+1 for small matrices, otherwise
/// every factorisation plus near misses plus the 6x6 block of small targets.
pub fn reshape_targets(r: usize, c: usize) -> Vec<(usize, usize)> {
    let n = r * c;
    let mut v = Vec::new();
    if n <= 16 {
        for a in 1..=n + 1 {
            for b in 1..=n + 1 {
                v.push((a, b));
            }
        }
    } else {
        for a in 1..=n {
            if n % a == 0 {
                v.push((a, n / a));
            }
        }
        for (a, b) in [(r, c + 1), (r + 1, c), (r, c - 1), (r - 1, c), (n + 1, 1), (1, n + 1), (n - 1, 1), (1, n - 1), (r + 1, c - 1), (c + 1, r)] {
            if a >= 1 && b >= 1 && !v.contains(&(a, b)) {
                v.push((a, b));
            }
        }
        for a in 1..=6 {
            for b in 1..=6 {
                if !v.contains(&(a, b)) {
                    v.push((a, b));
                }
            }
        }
    }
    v
}

pub const LONG_TAKES: usize = 6;

/// Structured index lists over a long axis of length n (all of length >= n, so that the copy loop
/// of `take` runs over a long list): identity, reversal, rotation by one, stride 2 with wrap-around
/// (repeats when n is even), the last index n times, identity followed by reversal (length 2n).
pub fn long_take(k: usize, n: usize) -> Vec<usize> {
    match k {
        0 => (0..n).collect(),
        1 => (0..n).rev().collect(),
        2 => (0..n).map(|i| (i + 1) % n).collect(),
        3 => (0..n).map(|i| (2 * i) % n).collect(),
        4 => vec![n - 1; n],
        _ => (0..n).chain((0..n).rev()).collect(),
    }
}

/// Draw the index list of a `take` along an axis of length `dim`. Short space: every tuple of length
/// <= 3. Long axis of the long family: every single index i, every pair (i, j) with j in {0, i, n-1}
/// (thorough: every pair), and the 6 structured full-length lists of `long_take`.
pub fn choose_take(dim: usize, long: bool) -> Vec<usize> {
    if !(long && dim >= crate::LONG_MIN) {
        let len = 1 + mc::choose(3);
        (0..len).map(|_| mc::choose(dim)).collect()
    } else if long_deep() {
        let k = mc::choose(2 + LONG_TAKES);
        if k < 2 {
            (0..k + 1).map(|_| mc::choose(dim)).collect()
        } else {
            mc::count("long_take_full_length");
            long_take(k - 2, dim)
        }
    } else {
        let k = mc::choose(4 + LONG_TAKES);
        if k < 4 {
            let i = mc::choose(dim);
            match k {
                0 => vec![i],
                1 => vec![i, 0],
                2 => vec![i, i],
                _ => vec![i, dim - 1],
            }
        } else {
            mc::count("long_take_full_length");
            long_take(k - 4, dim)
        }
    }
}

/// Index ranges offered to `slice` along an axis of length n. Short space: every non-empty range.
/// Long axis of the long family: every range that starts at 0, 1 or 2 or ends at n, n-1 or n-2
/// (every length 1..n occurs, at both boundary alignments); thorough: every non-empty range.
fn slice_ranges(n: usize, long: bool) -> Vec<(usize, usize)> {
    let all = ranges(n);
    if long && n >= crate::LONG_MIN && !long_deep() {
        all.into_iter().filter(|(s, e)| *s <= 2 || *e + 2 >= n).collect()
    } else {
        all
    }
}

fn structural<T: W>(a: &M, d: &DenseMatrix<T>, fi: usize, fs: FillSet) -> String {
    const OPS: &[&str] = &["construct", "special", "set", "rows_cols", "flatten", "transpose", "slice", "reshape", "take0", "take1"];
    let op = OPS[mc::choose(OPS.len())];
    let (r, c) = (a.r, a.c);
    let sc = shape_class(r, c);
    let w0 = desc::<T>(a, fi, fs, String::new());
    match op {
        "construct" => {
            let rows_t: Vec<Vec<T>> = a.rows().iter().map(|x| vt::<T>(x)).collect();
            let flat: Vec<T> = vt::<T>(&a.v);
            let colm: Vec<T> = vt::<T>(&a.colmajor());
            let refs: Vec<&[T]> = rows_t.iter().map(|x| &x[..]).collect();
            let ck = |name: &str, got, want: &M| {
                expect_m::<T>(&Cx { op: name, class: sc, what: &w0 }, got, want, None);
            };
            ck("dense.from_2d_vec", mc::guard(|| DenseMatrix::from_2d_vec(&rows_t)), a);
            ck("dense.from_2d_array", mc::guard(|| DenseMatrix::from_2d_array(&refs)), a);
            ck("dense.from_array", mc::guard(|| DenseMatrix::from_array(r, c, &flat)), a);
            ck("dense.from_vec", mc::guard(|| DenseMatrix::from_vec(r, c, &flat)), a);
            ck("dense.new", mc::guard(|| DenseMatrix::new(r, c, colm.clone())), a);
            let as_row = M { r: 1, c: r * c, v: a.v.clone() };
            let as_col = M { r: r * c, c: 1, v: a.v.clone() };
            ck("dense.row_vector_from_array", mc::guard(|| DenseMatrix::row_vector_from_array(&flat)), &as_row);
            ck("dense.row_vector_from_vec", mc::guard(|| DenseMatrix::row_vector_from_vec(flat.clone())), &as_row);
            ck("dense.from_row_vector", mc::guard(|| DenseMatrix::from_row_vector(flat.clone())), &as_row);
            ck("dense.column_vector_from_array", mc::guard(|| DenseMatrix::column_vector_from_array(&flat)), &as_col);
            ck("dense.column_vector_from_vec", mc::guard(|| DenseMatrix::column_vector_from_vec(flat.clone())), &as_col);
            // the matrix built for all other groups reads back as the model
            ck("dense.get", Ok(d.clone()), a);
            expect_eq(&Cx { op: "dense.shape", class: sc, what: &w0 }, mc::guard(|| d.shape()), (r, c));
        }
        "special" => {
            let v0 = a.v[0];
            let ck = |name: &str, got, want: &M| {
                expect_m::<T>(&Cx { op: name, class: sc, what: &w0 }, got, want, None);
            };
            ck("dense.zeros", mc::guard(|| DenseMatrix::<T>::zeros(r, c)), &M::new(r, c, |_, _| 0.0));
            ck("dense.ones", mc::guard(|| DenseMatrix::<T>::ones(r, c)), &M::new(r, c, |_, _| 1.0));
            ck("dense.fill", mc::guard(|| DenseMatrix::<T>::fill(r, c, t(v0))), &M::new(r, c, |_, _| v0));
            ck("dense.eye", mc::guard(|| DenseMatrix::<T>::eye(r)), &M::new(r, r, |i, j| if i == j { 1.0 } else { 0.0 }));
        }
        "set" => {
            let sentinel = rt::<T>(-777.5);
            for i in 0..r {
                for j in 0..c {
                    let mut m = d.clone();
                    let res = mc::guard(|| {
                        m.set(i, j, t(sentinel));
                    });
                    let mut want = a.clone();
                    want.v[i * c + j] = sentinel;
                    let w = desc::<T>(a, fi, fs, format!(" set({},{},{})", i, j, sentinel));
                    expect_m::<T>(&Cx { op: "dense.set", class: sc, what: &w }, res.map(|_| m), &want, None);
                }
            }
        }
        "rows_cols" => {
            for i in 0..r {
                let w = desc::<T>(a, fi, fs, format!(" row {}", i));
                let want = a.row(i);
                expect_v::<T>(&Cx { op: "dense.get_row", class: sc, what: &w }, mc::guard(|| d.get_row(i)), &want, None);
                expect_v::<T>(&Cx { op: "dense.get_row_as_vec", class: sc, what: &w }, mc::guard(|| d.get_row_as_vec(i)), &want, None);
                let mut buf = vec![t::<T>(-1.0); c];
                let res = mc::guard(|| d.copy_row_as_vec(i, &mut buf));
                expect_v::<T>(&Cx { op: "dense.copy_row_as_vec", class: sc, what: &w }, res.map(|_| buf), &want, None);
            }
            for j in 0..c {
                let w = desc::<T>(a, fi, fs, format!(" column {}", j));
                let want = a.col(j);
                expect_v::<T>(&Cx { op: "dense.get_col_as_vec", class: sc, what: &w }, mc::guard(|| d.get_col_as_vec(j)), &want, None);
                let mut buf = vec![t::<T>(-1.0); r];
                let res = mc::guard(|| d.copy_col_as_vec(j, &mut buf));
                expect_v::<T>(&Cx { op: "dense.copy_col_as_vec", class: sc, what: &w }, res.map(|_| buf), &want, None);
            }
        }
        "flatten" => {
            expect_v::<T>(&Cx { op: "dense.iter", class: sc, what: &w0 }, mc::guard(|| d.iter().collect::<Vec<T>>()), &a.v, None);
            expect_v::<T>(&Cx { op: "dense.to_row_vector", class: sc, what: &w0 }, mc::guard(|| d.clone().to_row_vector()), &a.v, None);
            // positional consumption of the element iterator: k x next(), then nth(j) / skip / step_by —
            // every (k, j) on the short shapes, the iterator being part-way through a row
            let n = a.v.len();
            if n <= 12 && fi < 4 {
                let k = mc::choose(n + 1);
                let j = mc::choose(n + 1);
                let st = 1 + mc::choose(3);
                let got = mc::guard(|| {
                    let mut it = d.iter();
                    for _ in 0..k {
                        it.next();
                    }
                    let mut it2 = d.iter();
                    for _ in 0..k {
                        it2.next();
                    }
                    let mut it3 = d.iter();
                    for _ in 0..k {
                        it3.next();
                    }
                    (it.nth(j), it2.skip(j).collect::<Vec<T>>(), it3.step_by(st).collect::<Vec<T>>())
                });
                let w = desc::<T>(a, fi, fs, format!(" iter(): {} x next(), then nth({}) / skip({}) / step_by({})", k, j, j, st));
                match got {
                    Ok((nth, skipped, stepped)) => {
                        let want_nth: Option<f64> = a.v.get(k + j).copied();
                        let got_nth: Option<f64> = nth.map(|x| x.to_f64().unwrap());
                        if want_nth.map(|x| x.to_bits()) != got_nth.map(|x| x.to_bits()) {
                            Cx { op: "dense.iter", class: sc, what: &w }.fail(":nth-after-next", format!("nth returned {:?}, the row-major element is {:?}", got_nth, want_nth));
                        }
                        let want_skip: Vec<f64> = a.v.iter().skip(k + j).cloned().collect();
                        expect_v::<T>(&Cx { op: "dense.iter:skip-after-next", class: sc, what: &w }, Ok(skipped), &want_skip, None);
                        let want_step: Vec<f64> = a.v.iter().skip(k).step_by(st).cloned().collect();
                        expect_v::<T>(&Cx { op: "dense.iter:step_by-after-next", class: sc, what: &w }, Ok(stepped), &want_step, None);
                    }
                    Err(p) => Cx { op: "dense.iter", class: sc, what: &w }.fail(":positional-panic", p.brief()),
                }
                mc::count("iter_positional_after_next");
                return format!("iter/nth({},{},{})", k, j, st);
            }
        }
        "transpose" => {
            let want = a.tr();
            let g = mc::guard(|| d.transpose());
            let again = g.as_ref().ok().map(|x| mc::guard(|| x.transpose()));
            expect_m::<T>(&Cx { op: "dense.transpose", class: sc, what: &w0 }, g, &want, None);
            if let Some(tt) = again {
                let w = desc::<T>(a, fi, fs, " transposed twice".into());
                expect_m::<T>(&Cx { op: "dense.transpose", class: shape_class(c, r), what: &w }, tt, a, None);
            }
            if r != c {
                mc::count("transpose_nonsquare");
            }
        }
        "slice" => {
            let (rr, cr) = (slice_ranges(r, fs.is_long()), slice_ranges(c, fs.is_long()));
            let (r0, r1) = rr[mc::choose(rr.len())];
            let (c0, c1) = cr[mc::choose(cr.len())];
            let want = M::new(r1 - r0, c1 - c0, |i, j| a.at(r0 + i, c0 + j));
            let w = desc::<T>(a, fi, fs, format!(" slice({}..{}, {}..{})", r0, r1, c0, c1));
            expect_m::<T>(&Cx { op: "dense.slice", class: sc, what: &w }, mc::guard(|| d.slice(r0..r1, c0..c1)), &want, None);
            if (r1 - r0, c1 - c0) != (r, c) {
                mc::count("slice_proper");
            }
            return format!("slice({}..{}, {}..{})", r0, r1, c0, c1);
        }
        "reshape" => {
            let ts = reshape_targets(r, c);
            let (nr, nc) = ts[mc::choose(ts.len())];
            let w = desc::<T>(a, fi, fs, format!(" reshape({},{})", nr, nc));
            let got = mc::guard(|| d.reshape(nr, nc));
            if nr * nc == r * c {
                let want = M { r: nr, c: nc, v: a.v.clone() };
                expect_m::<T>(&Cx { op: "dense.reshape", class: sc, what: &w }, got, &want, None);
                mc::count("reshape_compatible");
            } else {
                expect_panic(&Cx { op: "dense.reshape", class: "incompatible-accepted", what: &w }, got, |x| format!("a {:?} matrix", x.shape()));
            }
            return format!("reshape({},{})", nr, nc);
        }
        "take0" | "take1" => {
            let axis: u8 = if op == "take0" { 0 } else { 1 };
            let dim = if axis == 0 { r } else { c };
            let idx: Vec<usize> = choose_take(dim, fs.is_long());
            let len = idx.len();
            let want = if axis == 0 { M::new(len, c, |i, j| a.at(idx[i], j)) } else { M::new(r, len, |i, j| a.at(i, idx[j])) };
            let w = desc::<T>(a, fi, fs, format!(" take({:?}, axis {})", idx, axis));
            expect_m::<T>(&Cx { op: "dense.take", class: sc, what: &w }, mc::guard(|| d.take(&idx, axis)), &want, None);
            let mut srt = idx.clone();
            srt.sort_unstable();
            srt.dedup();
            if srt.len() < idx.len() {
                mc::count("take_with_repeats");
            }
            return format!("take({:?},{})", idx, axis);
        }
        _ => unreachable!(),
    }
    op.to_string()
}

const SCALARS: [f64; 4] = [2.0, -3.0, 0.5, 0.0];
const POWERS: [f64; 6] = [2.0, 3.0, 0.5, -1.0, 0.0, 1.0];

/// `steps` > 0: the value `steps` ulps above `x` in the width; < 0: below.
pub fn ulps<T: W>(x: f64, steps: i32) -> f64 {
    let mut y = x;
    for _ in 0..steps.abs() {
        y = if steps > 0 { T::next_up(y) } else { T::next_down(y) };
    }
    y
}

fn elementwise<T: W>(a: &M, d: &DenseMatrix<T>, fi: usize, fs: FillSet, adj: Option<[f64; 3]>) -> String {
    const OPS: &[&str] = &["scalar", "elem_mut", "neg_abs", "pow", "binarize", "eq_self"];
    // adjacent floats: the operations in which a tolerance could stand in for an exact comparison,
    // plus the correctly rounded element-wise arithmetic (pow depends on libm, not on adjacency)
    const ADJ_OPS: &[&str] = &["scalar", "elem_mut", "neg_abs", "binarize", "eq_adjacent"];
    let ops = if adj.is_some() { ADJ_OPS } else { OPS };
    let op = ops[mc::choose(ops.len())];
    let (r, c) = (a.r, a.c);
    let sc = shape_class(r, c);
    match op {
        "scalar" => {
            let which = mc::choose(4);
            let s = SCALARS[mc::choose(SCALARS.len())];
            let name = ["add_scalar", "sub_scalar", "mul_scalar", "div_scalar"][which];
            let want = a.map(|x| {
                rt::<T>(match which {
                    0 => x + s,
                    1 => x - s,
                    2 => x * s,
                    _ => x / s,
                })
            });
            let w = desc::<T>(a, fi, fs, format!(" scalar {}", s));
            let st: T = t(s);
            let (oc, om) = (format!("dense.{}", name), format!("dense.{}_mut", name));
            match which {
                0 => both(&oc, &om, sc, &w, a, d, &want, None, |m| m.add_scalar(st), |m| {
                    m.add_scalar_mut(st);
                }),
                1 => both(&oc, &om, sc, &w, a, d, &want, None, |m| m.sub_scalar(st), |m| {
                    m.sub_scalar_mut(st);
                }),
                2 => both(&oc, &om, sc, &w, a, d, &want, None, |m| m.mul_scalar(st), |m| {
                    m.mul_scalar_mut(st);
                }),
                _ => both(&oc, &om, sc, &w, a, d, &want, None, |m| m.div_scalar(st), |m| {
                    m.div_scalar_mut(st);
                }),
            }
            return format!("{}({})", name, s);
        }
        "elem_mut" => {
            let x = 3.0;
            for which in 0..4 {
                let name = ["dense.add_element_mut", "dense.sub_element_mut", "dense.mul_element_mut", "dense.div_element_mut"][which];
                for i in 0..r {
                    for j in 0..c {
                        let mut m = d.clone();
                        let xt: T = t(x);
                        let res = mc::guard(|| match which {
                            0 => m.add_element_mut(i, j, xt),
                            1 => m.sub_element_mut(i, j, xt),
                            2 => m.mul_element_mut(i, j, xt),
                            _ => m.div_element_mut(i, j, xt),
                        });
                        let mut want = a.clone();
                        let v = a.at(i, j);
                        want.v[i * c + j] = rt::<T>(match which {
                            0 => v + x,
                            1 => v - x,
                            2 => v * x,
                            _ => v / x,
                        });
                        let w = desc::<T>(a, fi, fs, format!(" at ({},{}) with {}", i, j, x));
                        expect_m::<T>(&Cx { op: name, class: sc, what: &w }, res.map(|_| m), &want, None);
                    }
                }
            }
        }
        "neg_abs" => {
            let w = desc::<T>(a, fi, fs, String::new());
            both("dense.negative", "dense.negative_mut", sc, &w, a, d, &a.map(|x| -x), None, |m| m.negative(), |m| m.negative_mut());
            let cls = sign_class(&a.v);
            both("dense.abs", "dense.abs_mut", cls, &w, a, d, &a.map(|x| x.abs()), None, |m| m.abs(), |m| {
                m.abs_mut();
            });
        }
        "pow" => {
            let p = POWERS[mc::choose(POWERS.len())];
            let want = a.map(|x| rt::<T>(x.powf(p)));
            let tol: Vec<f64> = want.v.iter().map(|x| if x.is_finite() { 8.0 * T::EPS * x.abs() + 4.0 * T::TINY } else { 0.0 }).collect();
            let w = desc::<T>(a, fi, fs, format!(" p={}", p));
            let pt: T = t(p);
            both("dense.pow", "dense.pow_mut", sign_class(&a.v), &w, a, d, &want, Some(&tol), |m| m.clone().pow(pt), |m| {
                m.pow_mut(pt);
            });
            return format!("pow({})", p);
        }
        "binarize" => {
            // adjacent floats: the threshold is the middle value x (strict >: next_up(x) -> 1, x -> 0,
            // next_down(x) -> 0), and also each neighbour of x
            let thr = match adj {
                Some(al) => al[mc::choose(3)],
                None => [0.0, a.v[0], -5.5][mc::choose(3)],
            };
            let want = a.map(|x| if x > thr { 1.0 } else { 0.0 });
            if adj.is_some() && want.v.iter().any(|x| *x == 1.0) && a.v.iter().any(|x| *x == thr) {
                mc::count("adjacent_binarize_split_at_threshold");
            }
            let w = desc::<T>(a, fi, fs, format!(" threshold {:e}", thr));
            let tt: T = t(thr);
            both("dense.binarize", "dense.binarize_mut", sign_class(&a.v), &w, a, d, &want, None, |m| m.binarize(tt), |m| m.binarize_mut(tt));
            return format!("binarize({})", thr);
        }
        "eq_self" => {
            // equal to an identical copy; unequal to every one-entry perturbation
            let w = desc::<T>(a, fi, fs, " against an identical copy".into());
            let copy: DenseMatrix<T> = build(a);
            expect_eq(&Cx { op: "dense.eq", class: sc, what: &w }, mc::guard(|| *d == copy), true);
            expect_eq(&Cx { op: "dense.approximate_eq", class: sc, what: &w }, mc::guard(|| d.approximate_eq(&copy, t(0.5))), true);
            for k in 0..r * c {
                for delta in [0.25, 1.0] {
                    let mut b = a.clone();
                    b.v[k] = rt::<T>(b.v[k] + delta * b.v[k].abs().max(1.0));
                    let diff = (b.v[k] - a.v[k]).abs();
                    if diff == 0.0 {
                        continue;
                    }
                    let err = 0.5 * a.v[k].abs().max(1.0);
                    if (diff - err).abs() <= 1e-3 * err {
                        continue;
                    }
                    let bd: DenseMatrix<T> = build(&b);
                    let w = desc::<T>(a, fi, fs, format!(" against a copy with entry ({},{}) changed to {:e}, error {:e}", k / c, k % c, b.v[k], err));
                    expect_eq(&Cx { op: "dense.eq", class: sc, what: &w }, mc::guard(|| *d == bd), false);
                    expect_eq(&Cx { op: "dense.approximate_eq", class: sc, what: &w }, mc::guard(|| d.approximate_eq(&bd, t(err))), diff <= err);
                    expect_eq(&Cx { op: "dense.approximate_eq", class: sc, what: &w }, mc::guard(|| bd.approximate_eq(d, t(err))), diff <= err);
                }
            }
        }
        "eq_adjacent" => {
            // equal to an identical copy; a copy with ONE entry moved by one or two ulps:
            // * `==` — DenseMatrix::eq is implemented with the absolute tolerance T::epsilon()
            //   (|a-b| > eps <=> unequal). That is taken as given: only pairs that are identical or
            //   differ by MORE than eps are judged (the rest is counted, not flagged);
            // * approximate_eq(error) is the formula max|a-b| <= error, judged exactly (the difference
            //   of two neighbouring floats is computed without rounding): error = 0, the difference
            //   itself, and its predecessor;
            // * max_diff returns the difference exactly.
            let w = desc::<T>(a, fi, fs, " against an identical copy".into());
            let copy: DenseMatrix<T> = build(a);
            expect_eq(&Cx { op: "dense.eq", class: sc, what: &w }, mc::guard(|| *d == copy), true);
            expect_eq(&Cx { op: "dense.approximate_eq", class: sc, what: &w }, mc::guard(|| d.approximate_eq(&copy, t(0.0))), true);
            expect_s::<T>(&Cx { op: "dense.max_diff", class: sc, what: &w }, mc::guard(|| d.max_diff(&copy)), 0.0, 0.0);
            // moved entry: every position; for the structured single-deviant assignments of the larger
            // shapes (one entry p already differs from x) the positions 0, p-1, p, p+1 and the last one
            let n = r * c;
            let dev = match fs {
                FillSet::Adjacent { sigma_max } => adj_single_deviant(fi, n, sigma_max),
                _ => None,
            };
            let moved: Vec<usize> = match dev {
                None => (0..n).collect(),
                Some(p) => {
                    let mut v = vec![0, (p + n - 1) % n, p, (p + 1) % n, n - 1];
                    v.sort_unstable();
                    v.dedup();
                    v
                }
            };
            for k in moved {
                for steps in [1, -1, 2, -2] {
                    let mut b = a.clone();
                    b.v[k] = ulps::<T>(a.v[k], steps);
                    let diff = (b.v[k] - a.v[k]).abs();
                    assert!(diff > 0.0 && rt::<T>(diff) == diff);
                    let bd: DenseMatrix<T> = build(&b);
                    let w = desc::<T>(a, fi, fs, format!(" against a copy with entry ({},{}) moved by {} ulp(s) to {:e} (difference {:e}, machine epsilon {:e})", k / c, k % c, steps, b.v[k], diff, T::EPS));
                    if diff > T::EPS {
                        mc::count("adjacent_eq_beyond_library_tolerance");
                        expect_eq(&Cx { op: "dense.eq", class: sc, what: &w }, mc::guard(|| *d == bd), false);
                        expect_eq(&Cx { op: "dense.eq", class: sc, what: &w }, mc::guard(|| bd == *d), false);
                    } else {
                        mc::count("adjacent_eq_within_library_tolerance");
                    }
                    for err in [0.0, diff, T::next_down(diff)] {
                        let w = desc::<T>(a, fi, fs, format!(" against a copy with entry ({},{}) moved by {} ulp(s) to {:e} (difference {:e}), error {:e}", k / c, k % c, steps, b.v[k], diff, err));
                        expect_eq(&Cx { op: "dense.approximate_eq", class: sc, what: &w }, mc::guard(|| d.approximate_eq(&bd, t(err))), diff <= err);
                        expect_eq(&Cx { op: "dense.approximate_eq", class: sc, what: &w }, mc::guard(|| bd.approximate_eq(d, t(err))), diff <= err);
                    }
                    expect_s::<T>(&Cx { op: "dense.max_diff", class: sc, what: &w }, mc::guard(|| d.max_diff(&bd)), diff, 0.0);
                }
            }
        }
        _ => unreachable!(),
    }
    op.to_string()
}

const NORM_PS: [f64; 6] = [1.0, 2.0, 3.0, 0.5, f64::INFINITY, f64::NEG_INFINITY];

/// mean / var / std along an axis of the model, with per-entry tolerances (mean, var, std).
#[allow(clippy::type_complexity)]
pub fn axis_stats<T: W>(a: &M, axis: u8) -> (Vec<Vec<f64>>, [Vec<f64>; 3], [Vec<f64>; 3]) {
    let lanes: Vec<Vec<f64>> = if axis == 0 { (0..a.c).map(|j| a.col(j)).collect() } else { (0..a.r).map(|i| a.row(i)).collect() };
    let mut want = [Vec::new(), Vec::new(), Vec::new()];
    let mut tol = [Vec::new(), Vec::new(), Vec::new()];
    for l in &lanes {
        let n = l.len();
        let (m, v) = (mean_of(l), var_of(l).max(0.0));
        want[0].push(m);
        // + SUB: the division may round in the subnormal range (absolute error <= SUB/2 < 1e-44)
        tol[0].push(4.0 * n as f64 * T::EPS * sum_abs(l) / n as f64 + T::SUB);
        want[1].push(v);
        tol[1].push(var_tol::<T>(n, m, v));
        want[2].push(v.sqrt());
        tol[2].push(std_tol::<T>(n, m, v));
    }
    (lanes, want, tol)
}

fn reduce<T: W>(a: &M, d: &DenseMatrix<T>, fi: usize, fs: FillSet, adj: bool) -> String {
    const OPS: &[&str] = &["sum_max_min", "norms", "column_mean", "mean_var_std", "scale", "argmax", "unique", "cov", "softmax"];
    // adjacent floats: exact selections (max, min, argmax, unique, the infinite norms) and the means;
    // var / std / cov / softmax / finite norms of values 1 ulp apart lie outside the quantifier
    // (|mean| / spread ~ 1/eps) or are libm-bound and say nothing about adjacency
    const ADJ_OPS: &[&str] = &["sum_max_min", "norms", "column_mean", "mean_var_std", "argmax", "unique"];
    let ops = if adj { ADJ_OPS } else { OPS };
    let op = ops[mc::choose(ops.len())];
    let mut srt = a.v.clone();
    srt.sort_by(|x, y| x.partial_cmp(y).unwrap());
    srt.dedup();
    // at least two distinct values, all within two ulps of each other
    let adj_distinct = adj && srt.len() >= 2;
    let (r, c) = (a.r, a.c);
    let sc = shape_class(r, c);
    let sg = sign_class(&a.v);
    let n = (r * c) as f64;
    let w0 = desc::<T>(a, fi, fs, String::new());
    match op {
        "sum_max_min" => {
            let s: f64 = a.v.iter().sum();
            expect_s::<T>(&Cx { op: "dense.sum", class: sg, what: &w0 }, mc::guard(|| d.sum()), s, 4.0 * n * T::EPS * sum_abs(&a.v));
            let mx = a.v.iter().cloned().fold(f64::NEG_INFINITY, f64::max);
            let mn = a.v.iter().cloned().fold(f64::INFINITY, f64::min);
            expect_s::<T>(&Cx { op: "dense.max", class: sg, what: &w0 }, mc::guard(|| d.max()), mx, 0.0);
            expect_s::<T>(&Cx { op: "dense.min", class: sg, what: &w0 }, mc::guard(|| d.min()), mn, 0.0);
            if sg == "all-negative" {
                mc::count("reduce_all_negative");
            }
            if adj_distinct {
                mc::count("adjacent_max_min_distinct_neighbours");
            }
        }
        "norms" => {
            // adjacent floats: the two infinite norms only (exact selections of max |x| / min |x|)
            let pi = if adj { 4 + mc::choose(2) } else { mc::choose(NORM_PS.len() + 1) };
            if pi == NORM_PS.len() {
                let want = a.v.iter().map(|x| x * x).sum::<f64>().sqrt();
                expect_s::<T>(&Cx { op: "dense.norm2", class: sg, what: &w0 }, mc::guard(|| d.norm2()), want, 8.0 * (n + 2.0) * T::EPS * want);
                return "norm2".into();
            }
            let p = NORM_PS[pi];
            let want = pnorm(&a.v, p);
            let w = desc::<T>(a, fi, fs, format!(" p={}", p));
            expect_s::<T>(&Cx { op: "dense.norm", class: sg, what: &w }, mc::guard(|| d.norm(t(p))), want, pnorm_tol::<T>(&a.v, p, want));
            return format!("norm({})", p);
        }
        "column_mean" => {
            let (_, want, tol) = axis_stats::<T>(a, 0);
            expect_v::<T>(&Cx { op: "dense.column_mean", class: sc, what: &w0 }, mc::guard(|| d.column_mean()), &want[0], Some(&tol[0]));
        }
        "mean_var_std" => {
            let axis = mc::choose(2) as u8;
            let (_, want, tol) = axis_stats::<T>(a, axis);
            let w = desc::<T>(a, fi, fs, format!(" axis {}", axis));
            expect_v::<T>(&Cx { op: "stats.mean", class: sc, what: &w }, mc::guard(|| d.mean(axis)), &want[0], Some(&tol[0]));
            if adj {
                return format!("mean(axis {})", axis);
            }
            // variance / std: judged lane by lane so that the class reflects the failing lane
            for (which, name) in [(1usize, "stats.var"), (2, "stats.std")] {
                let got = mc::guard(|| if which == 1 { d.var(axis) } else { d.std(axis) });
                match got {
                    Err(p) => Cx { op: name, class: sc, what: &w }.panic(&p),
                    Ok(g) => {
                        let g = vf(&g);
                        mc::outcome(mc::hash::h_f64s(&g));
                        if g.len() != want[which].len() {
                            Cx { op: name, class: sc, what: &w }.fail("", format!("{} values returned, expected {}", g.len(), want[which].len()));
                            continue;
                        }
                        for k in 0..g.len() {
                            let cls = offset_class::<T>(want[0][k], want[2][k]);
                            if cls == "large-offset" {
                                mc::count("var_lane_large_offset");
                            }
                            if g[k].is_nan() || (g[k] - want[which][k]).abs() > tol[which][k] {
                                Cx { op: name, class: cls, what: &w }.fail("", format!("lane {}: returned {:e}, expected {:e} (tolerance {:e}; lane mean {:e}, true std {:e})", k, g[k], want[which][k], tol[which][k], want[0][k], want[2][k]));
                            }
                        }
                    }
                }
            }
            return format!("mean/var/std(axis {})", axis);
        }
        "scale" => {
            let axis = mc::choose(2) as u8;
            let lanes = if axis == 0 { c } else { r };
            // (mean, std) tables: ordinary; a large mean with a spread of the order of ONE unit in the
            // last place of the mean (1e7 in f32 has ulp 1, 1e15 in f64 has ulp 0.125); zero mean
            let table = mc::choose(3);
            let big = if T::EPS > 1e-10 { 1e7 } else { 1e15 };
            let mean: Vec<f64> = (0..lanes).map(|i| rt::<T>(match table { 0 => i as f64 + 0.5, 1 => big + i as f64, _ => 0.0 })).collect();
            let std: Vec<f64> = (0..lanes).map(|i| rt::<T>(match table { 0 => 2.0 + i as f64, 1 => 0.5 + 0.125 * i as f64, _ => 0.5 + i as f64 })).collect();
            if table == 1 {
                mc::count("scale_mut_std_below_ulp_of_mean");
            }
            let want = M::new(r, c, |i, j| {
                let l = if axis == 0 { j } else { i };
                rt::<T>(rt::<T>(a.at(i, j) - mean[l]) / std[l])
            });
            let w = desc::<T>(a, fi, fs, format!(" scale_mut(mean {:?}, std {:?}, axis {})", mean, std, axis));
            let mut m = d.clone();
            let (mt, st) = (vt::<T>(&mean), vt::<T>(&std));
            let res = mc::guard(|| m.scale_mut(&mt, &st, axis));
            expect_m::<T>(&Cx { op: "stats.scale_mut", class: sc, what: &w }, res.map(|_| m), &want, None);
            return format!("scale_mut(axis {})", axis);
        }
        "argmax" => {
            match mc::guard(|| d.argmax()) {
                Err(p) => Cx { op: "dense.argmax", class: sg, what: &w0 }.panic(&p),
                Ok(g) => {
                    mc::outcome(mc::hash::h_usizes(&g));
                    if g.len() != r {
                        Cx { op: "dense.argmax", class: sg, what: &w0 }.fail("", format!("{} indices for {} rows", g.len(), r));
                    } else {
                        for i in 0..r {
                            let row = a.row(i);
                            let mx = row.iter().cloned().fold(f64::NEG_INFINITY, f64::max);
                            let ties = row.iter().filter(|x| **x == mx).count();
                            if ties > 1 {
                                mc::count("argmax_tie");
                            }
                            if adj && row.iter().any(|x| *x != mx) {
                                mc::count("adjacent_argmax_runner_up_within_2ulp");
                            }
                            // ties are resolved in the library's favour: any maximiser is accepted
                            if g[i] >= c || row[g[i]] != mx {
                                let cls = sign_class(&row);
                                Cx { op: "dense.argmax", class: cls, what: &w0 }.fail("", format!("row {}: index {} returned, but the row maximum {} is at {:?}", i, g[i], mx, (0..c).filter(|j| row[*j] == mx).collect::<Vec<_>>()));
                            }
                        }
                    }
                }
            }
        }
        "unique" => {
            let mut want = a.v.clone();
            want.sort_by(|x, y| x.partial_cmp(y).unwrap());
            want.dedup();
            let cls = if want.len() < a.v.len() { "with-duplicates" } else { "all-distinct" };
            if want.len() < a.v.len() {
                mc::count("unique_with_duplicates");
            }
            if adj_distinct {
                mc::count("adjacent_unique_distinct_neighbours");
            }
            expect_v::<T>(&Cx { op: "dense.unique", class: cls, what: &w0 }, mc::guard(|| d.unique()), &want, None);
        }
        "cov" => {
            if r < 2 {
                mc::count("cov_outside_domain");
                return "cov (single row: undefined)".into();
            }
            let m = r as f64;
            let mu: Vec<f64> = (0..c).map(|j| mean_of(&a.col(j))).collect();
            let e: Vec<f64> = (0..c).map(|j| 4.0 * m * T::EPS * a.col(j).iter().fold(0.0f64, |x, y| x.max(y.abs()))).collect();
            let mut want = M::new(c, c, |_, _| 0.0);
            let mut tol = vec![0.0; c * c];
            for i in 0..c {
                for j in 0..c {
                    let (mut s, mut sa, mut t1) = (0.0, 0.0, 0.0);
                    for k in 0..r {
                        let (di, dj) = (a.at(k, i) - mu[i], a.at(k, j) - mu[j]);
                        s += di * dj;
                        sa += (di * dj).abs();
                        t1 += di.abs() * e[j] + dj.abs() * e[i] + e[i] * e[j];
                    }
                    want.v[i * c + j] = s / (m - 1.0);
                    tol[i * c + j] = (t1 + 8.0 * m * T::EPS * sa) / (m - 1.0);
                }
            }
            expect_m::<T>(&Cx { op: "dense.cov", class: sc, what: &w0 }, mc::guard(|| d.cov()), &want, Some(&tol));
        }
        "softmax" => {
            let mut m = d.clone();
            let res = mc::guard(|| m.softmax_mut());
            match res.and_then(|_| mc::guard(|| view(&m))) {
                Err(p) => Cx { op: "dense.softmax_mut", class: softmax_class(&a.v), what: &w0 }.panic(&p),
                Ok(g) => {
                    mc::outcome(mc::hash::h_f64s(&g.v));
                    if (g.r, g.c) != (r, c) {
                        Cx { op: "dense.softmax_mut", class: sc, what: &w0 }.fail(":shape", format!("shape changed to {}x{}", g.r, g.c));
                    } else {
                        check_softmax::<T>("dense.softmax_mut", &w0, &a.v, &g.v);
                    }
                }
            }
        }
        _ => unreachable!(),
    }
    op.to_string()
}
