//! C03 — dense matrix / vector operations obey matrix algebra and shape contracts.
//!
//! E1: bounded exhaustive enumeration of (width, operation, shape(s), value fill, parameters) over
//! the real `DenseMatrix<T>` / `Vec<T>` code, judged by a row-major reference model (`model::M`).
//! E2: explicit-state search over operation chains on the real object (`chain`).
//!
//! The library has no RNG draw on any explored path (`DenseMatrix::rand` is not called), so there
//! is nothing to own through the verif-hooks seam; `cleanup` releases it anyway.

mod binary;
mod chain;
mod long;
mod model;
mod special;
mod unary;
mod vector;

use mc_core::{self as mc, json, ExtraResult, Harness, Job, Plan, Tier};
use model::FillSet;

struct C03;

/// Shortest row / column / vector that belongs to the long family (round 2).
pub const LONG_MIN: usize = 15;

/// Shapes of the lattice, simplest (fewest entries) first.
fn lattice(max: usize) -> Vec<(usize, usize)> {
    let mut v: Vec<(usize, usize)> = (1..=max).flat_map(|r| (1..=max).map(move |c| (r, c))).collect();
    v.sort_by_key(|(r, c)| (r * c, *r));
    v
}

const QUICK_BIG: [(usize, usize); 7] = [(1, 12), (12, 1), (2, 9), (9, 2), (5, 7), (7, 5), (12, 12)];
const PAIR_EXTRA: [(usize, usize); 12] = [(1, 6), (6, 1), (2, 6), (6, 2), (1, 8), (8, 1), (2, 8), (8, 2), (1, 16), (16, 1), (1, 12), (12, 1)];
const PAIR_EXTRA_T: [(usize, usize); 10] = [(1, 16), (16, 1), (1, 24), (24, 1), (1, 64), (64, 1), (4, 16), (16, 4), (1, 144), (144, 1)];

struct Bounds {
    lat: usize,
    /// every {0,1,-1} fill is enumerated when r*c <= sigma: structural group / other groups / vectors
    sigma_struct: usize,
    sigma_other: usize,
    sigma_vec: usize,
    big: Vec<(usize, usize)>,
    pair_lat: usize,
    pair_extra: Vec<(usize, usize)>,
    vec_n: usize,
    vec_big: Vec<usize>,
    vec_pair: usize,
    softmax_len: usize,
    var_n: usize,
    /// lengths of the long family (round 2)
    long: Vec<usize>,
    /// adjacent floats (round 7): every assignment of {x, up(x), down(x)} when r*c (or n) <= adj_sigma
    adj_sigma: usize,
    /// further vector lengths with the structured assignments (matrices: every lattice shape)
    adj_vec_big: Vec<usize>,
    /// the element-wise group runs the structured assignments on the shapes r,c <= adj_elem_lat
    /// (the reduction group on every lattice shape)
    adj_elem_lat: usize,
    e2_depth: (usize, usize),
    e2_signs: Vec<usize>,
    e2_stack_limit: usize,
}

fn bounds(tier: Tier) -> Bounds {
    if tier.is_thorough() {
        let lat = 12;
        let big = vec![(1, 16), (16, 1), (13, 13), (16, 16), (3, 20), (20, 3)];
        Bounds {
            lat,
            sigma_struct: 9,
            sigma_other: 14,
            sigma_vec: 10,
            big,
            pair_lat: 12,
            pair_extra: PAIR_EXTRA_T.to_vec(),
            vec_n: 10,
            vec_big: vec![11, 12, 13, 16, 24],
            vec_pair: 16,
            softmax_len: 7,
            var_n: 12,
            long: long::LONG_QUICK.iter().chain(long::LONG_THOROUGH.iter()).copied().collect(),
            adj_sigma: 9,
            adj_vec_big: vec![10, 11, 12, 13, 16, 21, 24, 32],
            adj_elem_lat: 12,
            e2_depth: (5, 5),
            e2_signs: vec![2, 0],
            e2_stack_limit: 12,
        }
    } else {
        Bounds {
            lat: 8,
            sigma_struct: 6,
            sigma_other: 9,
            sigma_vec: 8,
            big: QUICK_BIG.to_vec(),
            pair_lat: 8,
            pair_extra: PAIR_EXTRA.to_vec(),
            vec_n: 8,
            vec_big: vec![12],
            vec_pair: 8,
            softmax_len: 5,
            var_n: 9,
            long: long::LONG_QUICK.to_vec(),
            adj_sigma: 6,
            adj_vec_big: vec![7, 8, 12, 21],
            adj_elem_lat: 4,
            e2_depth: (4, 3),
            e2_signs: vec![2],
            e2_stack_limit: 12,
        }
    }
}

fn pair_shapes(b: &Bounds) -> Vec<(usize, usize)> {
    let mut v = lattice(b.pair_lat);
    for s in &b.pair_extra {
        if !v.contains(s) {
            v.push(*s);
        }
    }
    v
}

const WIDTHS: [&str; 2] = ["f64", "f32"];

impl Harness for C03 {
    fn id(&self) -> &'static str {
        "C03"
    }

    fn plan(&self, tier: Tier, seed: u64) -> Plan {
        let b = bounds(tier);
        let mut jobs: Vec<Job> = Vec::new();
        // vectors first (cheapest), then one-operand matrix groups, pairs, softmax, variance
        for w in WIDTHS {
            for n in 1..=b.vec_n {
                let shards = if n > 9 && n <= b.sigma_vec { 16 } else { 1 };
                for k in 0..shards {
                    let name = if shards > 1 { format!("vec-{}-n{}-shard{}", w, n, k) } else { format!("vec-{}-n{}", w, n) };
                    jobs.push(Job::new(name, json!({"kind": "vec", "w": w, "n": n, "fills": "full", "sigma": b.sigma_vec, "shard": k, "shards": shards})));
                }
            }
            for n in &b.vec_big {
                jobs.push(Job::new(format!("vec-{}-n{}", w, n), json!({"kind": "vec", "w": w, "n": n, "fills": "lite"})));
            }
            for n in 1..=b.vec_pair {
                jobs.push(Job::new(format!("vecpair-{}-n{}", w, n), json!({"kind": "vecpair", "w": w, "n": n})));
            }
        }
        for (r, c) in lattice(b.lat) {
            for w in WIDTHS {
                for g in unary::GROUPS {
                    let sigma = if g == "struct" { b.sigma_struct } else { b.sigma_other };
                    // the big Sigma3 spaces are dealt to 16 jobs
                    let shards = if r * c <= sigma && r * c > 9 { 16 } else { 1 };
                    for k in 0..shards {
                        let name = if shards > 1 { format!("un-{}-{}-{}x{}-shard{}", g, w, r, c, k) } else { format!("un-{}-{}-{}x{}", g, w, r, c) };
                        jobs.push(Job::new(name, json!({"kind": "unary", "group": g, "w": w, "r": r, "c": c, "fills": "full", "sigma": sigma, "shard": k, "shards": shards})));
                    }
                }
            }
        }
        for w in WIDTHS {
            for len in 1..=b.softmax_len {
                for orient in 0..3 {
                    if orient == 2 && (len % 2 == 1 || len < 4) {
                        continue;
                    }
                    jobs.push(Job::new(format!("softmax-{}-len{}-o{}", w, len, orient), json!({"kind": "softmax", "w": w, "len": len, "orient": orient})));
                }
            }
            for kind in ["vec", "axis0", "axis1"] {
                for n in 2..=b.var_n {
                    jobs.push(Job::new(format!("var-{}-{}-n{}", kind, w, n), json!({"kind": "variance", "vkind": kind, "w": w, "n": n})));
                }
            }
        }
        for (r, c) in pair_shapes(&b) {
            for w in WIDTHS {
                jobs.push(Job::new(format!("pair-{}-{}x{}", w, r, c), json!({"kind": "binary", "w": w, "r": r, "c": c})));
            }
        }
        for (r, c) in &b.big {
            for w in WIDTHS {
                for g in unary::GROUPS {
                    jobs.push(Job::new(format!("un-{}-{}-{}x{}", g, w, r, c), json!({"kind": "unary", "group": g, "w": w, "r": r, "c": c, "fills": "lite"})));
                }
            }
        }
        // long family (round 2): vectors and rows / columns of length N >= 15
        // (development aid for mutant comparisons: C03_NO_LONG=1 plans the round-1 space only)
        let no_long = std::env::var("C03_NO_LONG").is_ok();
        if no_long {
            eprintln!("[c03] C03_NO_LONG is set: the long family (round 2) is NOT enumerated");
        }
        let long_lengths: Vec<usize> = if no_long { Vec::new() } else { b.long.clone() };
        for w in WIDTHS {
            for &n in &long_lengths {
                jobs.push(Job::new(format!("long-vec-{}-n{}", w, n), json!({"kind": "vec", "w": w, "n": n, "fills": "litewide", "long": true})));
                jobs.push(Job::new(format!("long-vecpair-{}-n{}", w, n), json!({"kind": "vecpair", "w": w, "n": n, "long": true})));
                jobs.push(Job::new(format!("long-reshape-{}-n{}", w, n), json!({"kind": "longreshape", "w": w, "n": n, "long": true})));
                for orient in 0..3 {
                    if orient == 2 && n % 2 == 1 {
                        continue;
                    }
                    jobs.push(Job::new(format!("long-softmax-{}-n{}-o{}", w, n, orient), json!({"kind": "longsoftmax", "w": w, "len": n, "orient": orient, "long": true})));
                }
                for kind in ["vec", "axis0", "axis1"] {
                    jobs.push(Job::new(format!("long-var-{}-{}-n{}", kind, w, n), json!({"kind": "longvariance", "vkind": kind, "w": w, "n": n, "long": true})));
                }
            }
        }
        for &n in &long_lengths {
            for (r, c) in long::unary_shapes(n) {
                for w in WIDTHS {
                    for g in unary::GROUPS {
                        let fills = if g == "struct" { "codedwide" } else { "litewide" };
                        jobs.push(Job::new(format!("long-un-{}-{}-{}x{}", g, w, r, c), json!({"kind": "unary", "group": g, "w": w, "r": r, "c": c, "fills": fills, "long": true})));
                    }
                }
            }
        }
        for (r, c) in if no_long { Vec::new() } else { long::pair_shapes(&b.long) } {
            for w in WIDTHS {
                jobs.push(Job::new(format!("long-pair-{}-{}x{}", w, r, c), json!({"kind": "binary", "w": w, "r": r, "c": c, "long": true})));
            }
        }
        // adjacent floats (round 7): values one or two ulps apart, one-operand element-wise and
        // reduction groups on every lattice shape + Vec<T>
        // (development aid for mutant comparisons: C03_NO_ADJ=1 plans the space without them)
        let no_adj = std::env::var("C03_NO_ADJ").is_ok();
        if no_adj {
            eprintln!("[c03] C03_NO_ADJ is set: the adjacent-floats family (round 7) is NOT enumerated");
        } else {
            for w in WIDTHS {
                for n in (1..=b.adj_sigma).chain(b.adj_vec_big.iter().copied()) {
                    jobs.push(Job::new(format!("adj-vec-{}-n{}", w, n), json!({"kind": "vec", "w": w, "n": n, "fills": "adjacent", "sigma": b.adj_sigma, "adj": true})));
                }
            }
            for (r, c) in lattice(b.lat) {
                for w in WIDTHS {
                    for g in ["elem", "reduce"] {
                        if g == "elem" && r * c > b.adj_sigma && r.max(c) > b.adj_elem_lat {
                            continue;
                        }
                        jobs.push(Job::new(format!("adj-un-{}-{}-{}x{}", g, w, r, c), json!({"kind": "unary", "group": g, "w": w, "r": r, "c": c, "fills": "adjacent", "sigma": b.adj_sigma, "adj": true})));
                    }
                }
            }
        }
        let t = tier.is_thorough();
        // every job carries the tier and the seed, so that a replay file is self-contained
        for j in jobs.iter_mut() {
            j.params["t"] = json!(t);
            j.params["seed"] = json!(seed % 8);
        }
        let long_floors: Vec<(&'static str, u64)> = if no_long {
            Vec::new()
        } else {
            vec![
                ("long_family", 600_000),
                ("long_vec", 12_000),
                ("long_vecpair", 7_000),
                ("long_unary_matrix", 140_000),
                ("long_pair", 300_000),
                ("long_product_inner", 6_000),
                ("long_product_outer", 12_000),
                ("long_dot", 250),
                ("long_stack", 7_000),
                ("long_binary_elementwise", 3_000),
                ("long_reshape_compatible", 1_300),
                ("long_flatten", 400),
                ("long_take_full_length", 1_400),
                ("long_softmax", 90_000),
                ("long_variance", 55_000),
            ]
        };
        let adj_floors: Vec<(&'static str, u64)> = if no_adj {
            Vec::new()
        } else {
            vec![
                ("adjacent_family", 1_100_000),
                ("adjacent_vec", 190_000),
                ("adjacent_unary_matrix", 900_000),
                ("adjacent_unique_distinct_neighbours", 50_000),
                ("adjacent_max_min_distinct_neighbours", 45_000),
                ("adjacent_argmax_runner_up_within_2ulp", 50_000),
                ("adjacent_binarize_split_at_threshold", 45_000),
                // the split between the two depends on the power of two selected by VERIF_SEED
                ("adjacent_eq_beyond_library_tolerance", 60_000),
                ("adjacent_eq_within_library_tolerance", 150_000),
            ]
        };
        Plan {
            jobs,
            budget_s: if t { 2400 } else { 40 },
            case_deadline_ms: 20_000,
            floors: [vec![
                ("binary_aliased_operands", 1_000),
                ("incompatible_rejected", 1_000_000),
                ("reshape_compatible", 20_000),
                ("transpose_nonsquare", 4_000),
                ("slice_proper", 300_000),
                ("take_with_repeats", 400_000),
                ("argmax_tie", 50_000),
                ("unique_with_duplicates", 50_000),
                ("reduce_all_negative", 200),
                ("binary_compatible", 3_000),
                ("product_compatible", 30_000),
                ("product_nonsquare", 30_000),
                ("stack_compatible", 10_000),
                ("dot_vectors", 200),
                ("dot_row_against_column", 200),
                ("equality_incompatible", 50_000),
                ("equal_operands", 200),
                ("softmax_small_range", 800),
                ("softmax_negative_dominant", 50_000),
                ("softmax_positive_dominant", 80_000),
                ("var_spread_clause_applied", 1_000_000),
                ("var_spread_clause_large_offset", 500_000),
                ("var_lane_large_offset", 1_000_000),
                ("e2_state_1x1", 300),
                ("e2_state_1xN", 10_000),
                ("e2_state_Nx1", 10_000),
                ("e2_state_nonsquare", 20_000),
            ], long_floors, adj_floors]
            .concat(),
            bounds: json!({
                "widths": "f64 and f32",
                "one_operand_lattice": format!("every shape 1<=r,c<={} x 3 operation groups x fills {{4 index-coded sign patterns, 3 all-equal, 10 large-magnitude +-{{400,745,1000,1e6}}, 3 offset fills mu+s*{{-1,0,1}}, every {{0,1,-1}} fill when r*c<={} (structural group: <={})}} x every slice range, every reshape target (all (r',c')<=r*c+1 when r*c<=16), every take index tuple of length<=3 on both axes, 4 scalars, 6 powers, 3 thresholds, 7 norms, both axes", b.lat, b.sigma_other, b.sigma_struct),
                "one_operand_structured": format!("{} further shapes up to 12x12 with 6 fills each", b.big.len()),
                "two_operands": format!("every ordered pair of shapes from the {} shapes (lattice <={}x{} plus same-size partners) x 4 fills of A x 3-4 fills of B (incl. identical stored values under another shape) x 15 operations", pair_shapes(&b).len(), b.pair_lat, b.pair_lat),
                "vectors": format!("Vec<T> of every length 1..{} (full fills), lengths {:?} (6 fills); every ordered pair of lengths <={}", b.vec_n, b.vec_big, b.vec_pair),
                "softmax": format!("every tuple of length<={} over {{0,+-1,+-400,+-745,+-1000}} as 1xN, Nx1 and 2x(N/2)", b.softmax_len),
                "variance": format!("mu + sigma*s for every s in {{0,1,-1}}^n, 2<=n<={}, mu/sigma in {:?} (f64) / {:?} (f32), sigma in {:?}; Vec<T> and both axes of MatrixStats", b.var_n, special::offsets::<f64>(), special::offsets::<f32>(), special::SIGMAS),
                "long_family": format!("round 2 - lengths N in {:?}: Vec<T> of length N (6 fills: 4 wide-index-coded sign patterns, large-magnitude, offset) x every vector operation, take = every single index, every pair (i,j) with j in {{0,i,N-1}}, 6 full-length index lists; every ordered pair of Vec lengths N x N' in {:?}; DenseMatrix 1xN, Nx1, 2xN, Nx2 x the 3 one-operand groups (slice ranges on the long axis: start<=2 or end>=N-2; take as for Vec; every reshape factorisation + near misses); every factorisation r x c of N x 4 signs x reshape to every factorisation and back / flatten / transpose+reshape; two operands: every left shape in {{1xN,Nx1,2xN,Nx2,3xN,Nx3}} + {:?} against the short partners and the six shapes of N' in {{N, pred N, succ N}} x 4 x 3-4 fills x 15 operations (wide index codes 1+512i+j and 2+2048i+3j); softmax: value a everywhere, b at one position, every (a,b) of the alphabet x every position x 1xN, Nx1, 2x(N/2); variance: mu+sigma*s for the 6+2N structured patterns s (3 phases of (0,1,-1), 2 phases of (1,-1), half/half, a single +1 / -1 at every position) x all offsets x sigmas x Vec / axis 0 / axis 1", b.long, long::vec_partners(&b.long), long::SMALL_PARTNERS),
                "adjacent_floats": format!("round 7 - values one or two ulps apart: alphabet {{x, next_up(x), next_down(x)}} (built through to_bits in the width) for the centres x in {{0.3, 1, -0.7, largest below 2, 2.5, 1e-17, 0}} (f64; the analogous f32 values); EVERY assignment of the alphabet to the entries of every matrix shape with r*c<={} and every Vec<T> of length 1..{}; for every other lattice shape 1<=r,c<={} (element-wise group: 1<=r,c<={}) and the Vec lengths {:?} the 6+2n structured assignments (3 phases of the cyclic pattern over the row-major position, 3 over i+2j, x everywhere except one entry moved up / down at every position); operations: unique, max, min, sum, argmax, norm(+-inf), column_mean, mean on both axes, Vec sum / mean, binarize(_mut) with the threshold x / up(x) / down(x), `==` + approximate_eq (error 0, the difference, its predecessor) + max_diff against the identical copy and against every copy with one entry moved by +-1, +-2 ulps (`==` judged only beyond the library's absolute tolerance T::epsilon()), negative / abs, 4 scalar ops x 4 scalars and 4 element-mut ops at every position (correctly rounded); Vec basics", b.adj_sigma, b.adj_sigma, b.lat, b.adj_elem_lat, b.adj_vec_big),
                "e2": format!("operation chains of depth<={} (f64) / {} (f32) from every index-coded shape <=2x3, 18 actions", b.e2_depth.0, b.e2_depth.1),
                "seed": "VERIF_SEED selects the multiplier/offset applied to the index code and the softmax alphabet (8 variants; 0 = plain), and the exact power of two (1, 2, 4, 1/2, 8, 16, 32, 64) that scales the centres of the adjacent floats",
            }),
        }
    }

    fn run(&self, job: &Job) {
        let seed = job.params.get("seed").and_then(|s| s.as_u64()).unwrap_or(0);
        match job.s("w") {
            "f64" => run_t::<f64>(job, seed),
            "f32" => run_t::<f32>(job, seed),
            w => panic!("unknown width {}", w),
        }
    }

    fn cleanup(&self) {
        mc_sc::release_rng();
    }

    fn extra(&self, tier: Tier, _seed: u64) -> Vec<ExtraResult> {
        let b = bounds(tier);
        let inits: Vec<(usize, usize, usize)> = b.e2_signs.iter().flat_map(|s| [(1, 1), (1, 2), (2, 1), (1, 3), (3, 1), (2, 2), (2, 3), (3, 2)].iter().map(move |(r, c)| (*r, *c, *s))).collect();
        let cap = if tier.is_thorough() { 6_000_000 } else { 1_500_000 };
        let m64 = chain::ChainModel::<f64> { inits: inits.clone(), stack_limit: b.e2_stack_limit, _p: std::marker::PhantomData };
        let m32 = chain::ChainModel::<f32> { inits, stack_limit: b.e2_stack_limit, _p: std::marker::PhantomData };
        let t0 = std::time::Instant::now();
        let r64 = mc::bfs::search("dense-matrix-chains-f64", &m64, b.e2_depth.0, cap);
        let t1 = t0.elapsed().as_secs_f64();
        let r32 = mc::bfs::search("dense-matrix-chains-f32", &m32, b.e2_depth.1, cap);
        if std::env::var("C03_E2_TIMING").is_ok() {
            eprintln!("[e2] f64: {} states {} transitions {:.1}s; f32: {} states {:.1}s", r64.states, r64.transitions, t1, r32.states, t0.elapsed().as_secs_f64() - t1);
        }
        // determinism of the transition function: repeated searches (depth <= 4) must find the same graph
        let dd = b.e2_depth.1.min(4);
        let a1 = mc::bfs::search("dense-matrix-chains-f32", &m32, dd, cap);
        if dd == b.e2_depth.1 {
            assert_eq!((a1.states, a1.transitions), (r32.states, r32.transitions), "E2 search is not deterministic");
        } else {
            let a2 = mc::bfs::search("dense-matrix-chains-f32", &m32, dd, cap);
            assert_eq!((a1.states, a1.transitions), (a2.states, a2.transitions), "E2 search is not deterministic");
        }
        vec![r64, r32]
    }

    fn rule(&self) -> String {
        "one execution = one (width, operation, operand shape(s), value fill, operation parameters); every execution that reaches a library call is non-trivial; distinct = distinct digest of the values the library returned. E2: one state = one distinct content (shape + stored values) of the real matrix object".into()
    }

    fn assumptions(&self) -> Vec<String> {
        vec![
            "the reference model is a row-major Vec<f64> with the textbook formula of each operation; element-wise results must equal the correctly rounded IEEE result in the width, sums/products/norms are compared within c*n*eps*sum|terms|".into(),
            "variance/std: population variance; the spread-relative accuracy (1e-6 f64, 1e-2 f32) is demanded only when |mean|/std <= 1e8 (f64) / 4e3 (f32) and the spread is non-zero; otherwise formula-level accuracy 8 n eps (mean^2+var)".into(),
            "norm(p) is the entry-wise p-norm, softmax normalises over all entries, unique returns the sorted distinct values, argmax accepts any maximiser of a row (ties in the library's favour)".into(),
            "dot of a 1xN with an Nx1 may be rejected or return the inner product; max_diff is not required to reject incompatible operands (not listed in the statement)".into(),
            "DenseMatrix `==` is implemented with the absolute tolerance T::epsilon() (|a-b| > eps <=> different): taken as given; on the adjacent-floats family `==` is judged only for identical operands and for operands that differ by more than T::epsilon(); approximate_eq(error) is the formula max|a-b| <= error, judged exactly; the tolerance of the means carries + the smallest subnormal (rounding of a division in the subnormal range)".into(),
            "no RNG draw on any explored path (DenseMatrix::rand is not called); HashMap is not involved".into(),
        ]
    }

    fn engine(&self) -> &'static str {
        "E1 stateless choice-tree exploration of the real code + E2 explicit-state breadth-first search over the real DenseMatrix object"
    }
}

fn fills_of(job: &Job) -> FillSet {
    if job.s("fills") == "lite" {
        FillSet::Lite
    } else if job.s("fills") == "litewide" {
        FillSet::LiteWide
    } else if job.s("fills") == "codedwide" {
        FillSet::CodedWide
    } else if job.s("fills") == "adjacent" {
        FillSet::Adjacent { sigma_max: job.u("sigma") }
    } else {
        FillSet::Full { sigma_max: job.u("sigma") }
    }
}

fn run_t<T: model::W>(job: &Job, seed: u64) {
    // the tier only influences bounds that are part of the job parameters or derivable from them
    let thorough = job.b("t");
    let b = bounds(if thorough { Tier::Thorough } else { Tier::Quick });
    let long = job.params.get("long").and_then(|x| x.as_bool()).unwrap_or(false);
    // two-operand jobs decide per pairing (binary::run): a short x short pairing is not a long case
    model::set_long_case(long && job.kind() != "binary");
    model::set_long_deep(long && thorough);
    let adj = job.params.get("adj").and_then(|x| x.as_bool()).unwrap_or(false);
    model::set_adjacent_case(adj);
    if adj {
        mc::count("adjacent_family");
    }
    if long {
        mc::count("long_family");
        match job.kind() {
            "unary" => mc::count("long_unary_matrix"),
            "binary" => mc::count("long_pair"),
            "vec" => mc::count("long_vec"),
            "vecpair" => mc::count("long_vecpair"),
            _ => {}
        }
    }
    match job.kind() {
        "unary" => {
            let shard = (job.params["shard"].as_u64().unwrap_or(0) as usize, job.params["shards"].as_u64().unwrap_or(1) as usize);
            unary::run::<T>(job.s("group"), job.u("r"), job.u("c"), fills_of(job), shard, seed)
        }
        "binary" if long => binary::run::<T>(job.u("r"), job.u("c"), &long::partner_shapes(job.u("r"), job.u("c"), &b.long, thorough), seed, true),
        "binary" => binary::run::<T>(job.u("r"), job.u("c"), &pair_shapes(&b), seed, false),
        "vec" => {
            let shard = (job.params["shard"].as_u64().unwrap_or(0) as usize, job.params["shards"].as_u64().unwrap_or(1) as usize);
            vector::run_unary::<T>(job.u("n"), fills_of(job), shard, seed)
        }
        "vecpair" if long => vector::run_binary::<T>(job.u("n"), &long::vec_partners(&b.long), seed),
        "vecpair" => vector::run_binary::<T>(job.u("n"), &(1..=b.vec_pair).collect::<Vec<usize>>(), seed),
        "softmax" => special::softmax::<T>(job.u("len"), job.u("orient"), seed),
        "variance" => special::variance::<T>(job.s("vkind"), job.u("n")),
        "longsoftmax" => special::softmax_long::<T>(job.u("len"), job.u("orient"), seed),
        "longvariance" => special::variance_long::<T>(job.s("vkind"), job.u("n")),
        "longreshape" => long::reshape::<T>(job.u("n"), seed),
        "chain" => chain::replay::<T>(job),
        k => panic!("unknown job kind {}", k),
    }
}

fn main() {
    if let Err(e) = mc_sc::check_rng_sites() {
        eprintln!("MACHINERY-ERROR: {}", e);
        std::process::exit(2);
    }
    mc::main(C03)
}
