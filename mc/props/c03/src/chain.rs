//! E2: explicit-state search over the real `DenseMatrix<T>` object — operations applied from
//! non-initial states (reshape after transpose, stacking after slicing, ...).
//!
//! State = the complete content of the real object (nrows, ncols, stored values bit for bit), from
//! which the object is rebuilt exactly with `DenseMatrix::new`. Every transition is judged inside
//! `step`: the real result must equal the reference model applied to the logical view of the
//! predecessor, and each in-place operation must equal its copying counterpart. A failing
//! transition leads to a marked (unique) state, so it is reported even when the wrong result
//! coincides with a state already seen.

use crate::model::*;
use mc_core::bfs::{BfsViol, Model};
use mc_core::{self as mc, json, Job, Value};
use serde::{Deserialize, Serialize};
use smartcore::linalg::naive::dense_matrix::DenseMatrix;
use smartcore::linalg::stats::MatrixPreprocessing;
use smartcore::linalg::BaseMatrix;
use std::marker::PhantomData;

#[derive(Clone, Debug, PartialEq, Eq, Hash, Serialize, Deserialize)]
pub enum Act {
    Transpose,
    Reshape(usize, usize),
    AddScalar,
    SubScalar,
    MulScalar,
    Negative,
    Abs,
    AddJ,
    MulJ,
    HStackSelf,
    VStackSelf,
    DropLastRow,
    DropLastCol,
    ReverseRows,
    Pow2,
    Binarize0,
    CopyFromJ,
    Softmax,
}

#[derive(Clone, Debug, PartialEq, Eq, Hash)]
pub struct St {
    pub r: usize,
    pub c: usize,
    /// stored values (column-major, as the object holds them), f64 bit patterns
    pub raw: Vec<u64>,
    /// set when the transition into this state violated the oracle: (site, what)
    pub bad: Option<(String, String)>,
}

pub fn snapshot<T: W>(d: &DenseMatrix<T>) -> St {
    let (r, c) = d.shape();
    let raw: Vec<T> = Vec::from(d.clone());
    St { r, c, raw: raw.iter().map(|x| f(*x).to_bits()).collect(), bad: None }
}

pub fn rebuild<T: W>(s: &St) -> DenseMatrix<T> {
    DenseMatrix::new(s.r, s.c, s.raw.iter().map(|b| t::<T>(f64::from_bits(*b))).collect())
}

fn j_matrix(r: usize, c: usize) -> M {
    coded2(r, c, 1, 0)
}

pub fn enabled(a: &M, stack_limit: usize) -> Vec<Act> {
    let n = a.r * a.c;
    let mx = a.max_abs();
    let mut v = vec![Act::Transpose];
    for p in 1..=n {
        if n % p == 0 && (p, n / p) != (a.r, a.c) {
            v.push(Act::Reshape(p, n / p));
        }
    }
    v.extend([Act::AddScalar, Act::SubScalar, Act::MulScalar, Act::Negative, Act::Abs, Act::AddJ]);
    if mx <= 1e6 {
        v.push(Act::MulJ);
    }
    if n <= stack_limit {
        v.push(Act::HStackSelf);
        v.push(Act::VStackSelf);
    }
    if a.r > 1 {
        v.push(Act::DropLastRow);
        v.push(Act::ReverseRows);
    }
    if a.c > 1 {
        v.push(Act::DropLastCol);
    }
    if mx <= 1e3 {
        v.push(Act::Pow2);
    }
    v.extend([Act::Binarize0, Act::CopyFromJ, Act::Softmax]);
    v
}

/// Reference model of one action on the logical view.
fn reference<T: W>(a: &M, act: &Act) -> M {
    match act {
        Act::Transpose => a.tr(),
        Act::Reshape(p, q) => M { r: *p, c: *q, v: a.v.clone() },
        Act::AddScalar => a.map(|x| rt::<T>(x + 1.5)),
        Act::SubScalar => a.map(|x| rt::<T>(x - 2.0)),
        Act::MulScalar => a.map(|x| rt::<T>(x * -0.5)),
        Act::Negative => a.map(|x| -x),
        Act::Abs => a.map(|x| x.abs()),
        Act::AddJ => a.zip(&j_matrix(a.r, a.c), |x, y| rt::<T>(x + y)),
        Act::MulJ => a.zip(&j_matrix(a.r, a.c), |x, y| rt::<T>(x * y)),
        Act::HStackSelf => M::new(a.r, 2 * a.c, |i, j| a.at(i, j % a.c)),
        Act::VStackSelf => M::new(2 * a.r, a.c, |i, j| a.at(i % a.r, j)),
        Act::DropLastRow => M::new(a.r - 1, a.c, |i, j| a.at(i, j)),
        Act::DropLastCol => M::new(a.r, a.c - 1, |i, j| a.at(i, j)),
        Act::ReverseRows => M::new(a.r, a.c, |i, j| a.at(a.r - 1 - i, j)),
        Act::Pow2 => a.map(|x| rt::<T>(x.powf(2.0))),
        Act::Binarize0 => a.map(|x| if x > 0.0 { 1.0 } else { 0.0 }),
        Act::CopyFromJ => j_matrix(a.r, a.c),
        Act::Softmax => M { r: a.r, c: a.c, v: softmax_ref(&a.v) },
    }
}

type Viols = Vec<(String, String)>;

fn bits_equal(x: &M, y: &M) -> bool {
    (x.r, x.c) == (y.r, y.c) && first_diff(&x.v, &y.v, None).is_none()
}

/// Apply `act` to the real object; returns the real successor and the oracle's complaints.
pub fn apply<T: W>(d: &DenseMatrix<T>, act: &Act, depth_note: &str) -> (Option<DenseMatrix<T>>, Viols) {
    let mut viols: Viols = Vec::new();
    let a = match mc::guard(|| view(d)) {
        Ok(a) => a,
        Err(p) => return (None, vec![("chain.view:unreadable".into(), format!("{} state cannot be read: {}", depth_note, p.brief()))]),
    };
    let want = reference::<T>(&a, act);
    let jm: DenseMatrix<T> = build(&j_matrix(a.r, a.c));
    let name = format!("{:?}", act);
    let opname = name.split('(').next().unwrap_or("").to_string();
    let describe = |msg: String| format!("[{} {}after reaching {} apply {}] {}", T::NAME, depth_note, a.show(), name, msg);
    // in-place (or only) variant
    let mut m = d.clone();
    let res: Result<Option<DenseMatrix<T>>, _> = mc::guard(|| match act {
        Act::Transpose => Some(m.transpose()),
        Act::Reshape(p, q) => Some(m.reshape(*p, *q)),
        Act::AddScalar => {
            m.add_scalar_mut(t(1.5));
            None
        }
        Act::SubScalar => {
            m.sub_scalar_mut(t(2.0));
            None
        }
        Act::MulScalar => {
            m.mul_scalar_mut(t(-0.5));
            None
        }
        Act::Negative => {
            m.negative_mut();
            None
        }
        Act::Abs => {
            m.abs_mut();
            None
        }
        Act::AddJ => {
            m.add_mut(&jm);
            None
        }
        Act::MulJ => {
            m.mul_mut(&jm);
            None
        }
        Act::HStackSelf => Some(m.h_stack(&m)),
        Act::VStackSelf => Some(m.v_stack(&m)),
        Act::DropLastRow => Some(m.slice(0..a.r - 1, 0..a.c)),
        Act::DropLastCol => Some(m.slice(0..a.r, 0..a.c - 1)),
        Act::ReverseRows => Some(m.take(&(0..a.r).rev().collect::<Vec<_>>(), 0)),
        Act::Pow2 => {
            m.pow_mut(t(2.0));
            None
        }
        Act::Binarize0 => {
            m.binarize_mut(t(0.0));
            None
        }
        Act::CopyFromJ => {
            m.copy_from(&jm);
            None
        }
        Act::Softmax => {
            m.softmax_mut();
            None
        }
    });
    let next = match res {
        Err(p) => {
            viols.push((format!("chain.{}:{}:panic", opname, shape_class(a.r, a.c)), describe(format!("must succeed but {}", p.brief()))));
            return (None, viols);
        }
        Ok(Some(n)) => n,
        Ok(None) => m,
    };
    let g = match mc::guard(|| view(&next)) {
        Ok(g) => g,
        Err(p) => {
            viols.push((format!("chain.{}:{}:unreadable", opname, shape_class(a.r, a.c)), describe(format!("result cannot be read: {}", p.brief()))));
            return (None, viols);
        }
    };
    // compare with the reference
    match act {
        Act::Softmax => {
            let w = || describe(String::new());
            if (g.r, g.c) != (a.r, a.c) {
                viols.push(("chain.Softmax:shape".into(), describe(format!("shape changed to {}x{}", g.r, g.c))));
            } else if let Some(msg) = softmax_complaint::<T>(&a.v, &g.v) {
                viols.push((format!("dense.softmax_mut:{}", softmax_class(&a.v)), format!("{} {}", w(), msg)));
            }
        }
        _ => {
            let tol: Option<Vec<f64>> = if *act == Act::Pow2 { Some(want.v.iter().map(|x| 8.0 * T::EPS * x.abs() + 4.0 * T::TINY).collect()) } else { None };
            if (g.r, g.c) != (want.r, want.c) {
                viols.push((format!("chain.{}:{}", opname, shape_class(a.r, a.c)), describe(format!("result has shape {}x{}, expected {}x{}", g.r, g.c, want.r, want.c))));
            } else if let Some(k) = first_diff(&g.v, &want.v, tol.as_deref()) {
                viols.push((format!("chain.{}:{}", opname, shape_class(a.r, a.c)), describe(format!("entry ({},{}) is {:e}, expected {:e} (observed {} expected {})", k / want.c, k % want.c, g.v[k], want.v[k], g.show(), want.show()))));
            }
        }
    }
    // copying counterpart on the same predecessor
    let src = d.clone();
    let copy: Option<Result<DenseMatrix<T>, _>> = match act {
        Act::AddScalar => Some(mc::guard(|| src.add_scalar(t(1.5)))),
        Act::SubScalar => Some(mc::guard(|| src.sub_scalar(t(2.0)))),
        Act::MulScalar => Some(mc::guard(|| src.mul_scalar(t(-0.5)))),
        Act::Negative => Some(mc::guard(|| src.negative())),
        Act::Abs => Some(mc::guard(|| src.abs())),
        Act::AddJ => Some(mc::guard(|| src.add(&jm))),
        Act::MulJ => Some(mc::guard(|| src.mul(&jm))),
        Act::Pow2 => Some(mc::guard(|| src.clone().pow(t(2.0)))),
        Act::Binarize0 => Some(mc::guard(|| src.binarize(t(0.0)))),
        _ => None,
    };
    if let Some(cr) = copy {
        match cr.and_then(|x| mc::guard(|| view(&x))) {
            Err(p) => viols.push((format!("chain.{}:copying-variant:panic", opname), describe(format!("copying counterpart panicked: {}", p.brief())))),
            Ok(cv) => {
                if !bits_equal(&cv, &g) {
                    viols.push((format!("chain.{}:differs-from-copying", opname), describe(format!("in-place result {} differs from copying result {}", g.show(), cv.show()))));
                }
                if mc::guard(|| view(&src)).ok().as_ref() != Some(&a) {
                    viols.push((format!("chain.{}:input-modified", opname), describe("the copying variant changed its input".into())));
                }
            }
        }
    }
    // the accessors of the successor agree with its get-view
    let acc = mc::guard(|| {
        let mut bad: Vec<&'static str> = Vec::new();
        let it = vf(&next.iter().collect::<Vec<T>>());
        if it.len() != g.v.len() || first_diff(&it, &g.v, None).is_some() {
            bad.push("iter");
        }
        let rv = vf(&next.clone().to_row_vector());
        if rv.len() != g.v.len() || first_diff(&rv, &g.v, None).is_some() {
            bad.push("to_row_vector");
        }
        for i in 0..g.r {
            if first_diff(&vf(&next.get_row(i)), &g.row(i), None).is_some() {
                bad.push("get_row");
            }
        }
        for j in 0..g.c {
            if first_diff(&vf(&next.get_col_as_vec(j)), &g.col(j), None).is_some() {
                bad.push("get_col_as_vec");
            }
        }
        if Vec::from(next.clone()).len() != g.r * g.c {
            bad.push("stored-length");
        }
        bad
    });
    match acc {
        Err(p) => viols.push((format!("chain.accessors-after-{}:panic", opname), describe(format!("an accessor panicked on the result: {}", p.brief())))),
        Ok(bad) => {
            for b in bad {
                viols.push((format!("chain.{}-after-{}:inconsistent", b, opname), describe(format!("{} disagrees with get on the result {}", b, g.show()))));
            }
        }
    }
    (Some(next), viols)
}

/// Same judgement as `model::check_softmax`, returning the complaint instead of recording it.
fn softmax_complaint<T: W>(x: &[f64], got: &[f64]) -> Option<String> {
    let n = x.len() as f64;
    if let Some(k) = got.iter().position(|p| !(*p >= 0.0 && *p <= 1.0)) {
        return Some(format!("not a probability vector: entry {} is {:e} (result {:?})", k, got[k], got));
    }
    let s: f64 = got.iter().sum();
    if (s - 1.0).abs() > 8.0 * n * T::EPS {
        return Some(format!("not a probability vector: entries sum to {:e}", s));
    }
    let want = softmax_ref(x);
    for k in 0..got.len() {
        if (got[k] - want[k]).abs() > 4096.0 * T::EPS * want[k] + 8.0 * T::TINY {
            return Some(format!("entry {} is {:e}, expected {:e} (result {:?} expected {:?})", k, got[k], want[k], got, want));
        }
    }
    None
}

pub struct ChainModel<T: W> {
    pub inits: Vec<(usize, usize, usize)>,
    pub stack_limit: usize,
    pub _p: PhantomData<T>,
}

pub fn init_state<T: W>(r: usize, c: usize, sign: usize) -> St {
    snapshot::<T>(&build(&coded(r, c, sign, 0).round::<T>()))
}

impl<T: W> Model for ChainModel<T> {
    type State = St;
    type Action = Act;

    fn init(&self) -> Vec<St> {
        self.inits.iter().map(|(r, c, s)| init_state::<T>(*r, *c, *s)).collect()
    }

    fn actions(&self, s: &St) -> Vec<Act> {
        if s.bad.is_some() {
            return Vec::new();
        }
        match mc::guard(|| view(&rebuild::<T>(s))) {
            Ok(a) => enabled(&a, self.stack_limit),
            Err(_) => Vec::new(),
        }
    }

    fn step(&self, s: &St, a: &Act) -> Option<St> {
        let d = rebuild::<T>(s);
        let (next, viols) = apply::<T>(&d, a, "");
        let mut st = match next {
            Some(n) => snapshot(&n),
            None => St { r: 0, c: 0, raw: Vec::new(), bad: None },
        };
        if let Some(v) = viols.into_iter().next() {
            // make the failing transition a state of its own (never merged with a good state)
            st.raw.extend(s.raw.iter().cloned());
            st.raw.push(mc::hash::h_str(&format!("{:?}", a)));
            st.bad = Some(v);
        }
        Some(st)
    }

    fn check(&self, s: &St, _last: Option<(&St, &Act)>) -> Vec<BfsViol> {
        match &s.bad {
            Some((site, what)) => vec![BfsViol { site: site.clone(), what: what.clone() }],
            None => Vec::new(),
        }
    }

    fn witnesses(&self, s: &St) -> Vec<&'static str> {
        let mut w = Vec::new();
        if s.bad.is_some() {
            return w;
        }
        match (s.r, s.c) {
            (1, 1) => w.push("e2_state_1x1"),
            (1, _) => w.push("e2_state_1xN"),
            (_, 1) => w.push("e2_state_Nx1"),
            (r, c) if r != c => w.push("e2_state_nonsquare"),
            _ => w.push("e2_state_square"),
        }
        w
    }

    fn show_state(&self, s: &St) -> Value {
        match mc::guard(|| view(&rebuild::<T>(s))) {
            Ok(a) if s.bad.is_none() => json!({"shape": [s.r, s.c], "rows": a.rows()}),
            _ => json!({"shape": [s.r, s.c], "failed_transition": s.bad.as_ref().map(|b| b.0.clone())}),
        }
    }

    fn replay_job(&self, init: &St, path: &[Act]) -> Job {
        // the initial state is identified by its shape and sign pattern
        let sign = self.inits.iter().find(|(r, c, s)| init_state::<T>(*r, *c, *s) == *init).map(|x| x.2).unwrap_or(0);
        Job::new(
            format!("chain-replay-{}-{}x{}", T::NAME, init.r, init.c),
            json!({"kind": "chain", "w": T::NAME, "r": init.r, "c": init.c, "sign": sign, "t": false, "seed": 0, "actions": serde_json::to_value(path).unwrap()}),
        )
    }
}

/// E1 replay entry point for a path found by the search: re-executes the chain on the real object.
pub fn replay<T: W>(job: &Job) {
    let (r, c, sign) = (job.u("r"), job.u("c"), job.u("sign"));
    let acts: Vec<Act> = serde_json::from_value(job.params["actions"].clone()).expect("actions");
    let mut d: DenseMatrix<T> = rebuild::<T>(&init_state::<T>(r, c, sign));
    let mut trail: Vec<Value> = Vec::new();
    for (i, act) in acts.iter().enumerate() {
        let (next, viols) = apply::<T>(&d, act, &format!("step {} ", i + 1));
        for (site, what) in viols {
            mc::violation(site, what);
        }
        match next {
            Some(n) => {
                // continue from exactly what the search continued from: the rebuilt snapshot
                d = rebuild::<T>(&snapshot(&n));
                let g = mc::guard(|| view(&d)).ok();
                if let Some(g) = &g {
                    mc::outcome(mc::hash::h_f64s(&g.v));
                }
                trail.push(json!({"action": format!("{:?}", act), "result": g.map(|x| x.rows())}));
            }
            None => break,
        }
    }
    mc::nontrivial();
    mc::describe(|| json!({"width": T::NAME, "operation": "chain", "init": coded(r, c, sign, 0).rows(), "steps": trail}));
}
