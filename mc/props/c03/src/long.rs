//! Long family (round 2): vectors and matrix rows / columns of length N >= 15, so that code which
//! only starts at a length threshold (unrolled or blocked loops, remainder handling) is executed.
//!
//! Most of the family re-uses the drivers of the short space with long shapes (`vector::run_unary`,
//! `vector::run_binary`, `unary::run`, `binary::run` with the wide index code, `special::*_long`);
//! this module holds the plan of the family and the one driver that has no short counterpart: the
//! reshape / flatten round trip between 1xN, Nx1 and every k x (N/k).

use crate::model::*;
use mc_core::{self as mc, json};
use smartcore::linalg::naive::dense_matrix::DenseMatrix;
use smartcore::linalg::BaseMatrix;

/// Lengths of the quick tier: around the usual unrolling / blocking widths 16, 32, 64 (one below,
/// exact, one above), 24 (= 16 + 8), and 100 (no power of two near).
pub const LONG_QUICK: [usize; 11] = [15, 16, 17, 24, 31, 32, 33, 63, 64, 65, 100];
/// Further lengths of the thorough tier.
pub const LONG_THOROUGH: [usize; 9] = [47, 48, 49, 127, 128, 129, 255, 256, 257];

/// Short partner shapes offered next to the long ones in the two-operand jobs.
pub const SMALL_PARTNERS: [(usize, usize); 5] = [(1, 1), (2, 2), (2, 3), (3, 2), (3, 3)];

fn shapes_of(n: usize) -> [(usize, usize); 6] {
    [(1, n), (n, 1), (2, n), (n, 2), (3, n), (n, 3)]
}

/// Left-hand shapes of the two-operand long family: 1xN, Nx1, 2xN, Nx2, 3xN, Nx3 for every long N,
/// plus the short partners.
pub fn pair_shapes(long: &[usize]) -> Vec<(usize, usize)> {
    let mut v: Vec<(usize, usize)> = SMALL_PARTNERS.to_vec();
    for &n in long {
        v.extend(shapes_of(n));
    }
    v
}

/// Right-hand shapes offered to the left-hand shape (r, c): the short partners and the six shapes of
/// the lengths N' in {N, predecessor of N, successor of N} (cyclic in the list of long lengths),
/// where N = max(r, c); a short left-hand shape meets every long shape. This gives 2xN * Nx3 and
/// its transposed-flag variants, row * column, outer products, stacks, and the incompatible
/// neighbours N +- 1 (15/16/17, 31/32/33, 63/64/65). Thorough (`deep`): every shape of the family.
pub fn partner_shapes(r: usize, c: usize, long: &[usize], deep: bool) -> Vec<(usize, usize)> {
    let mut v: Vec<(usize, usize)> = SMALL_PARTNERS.to_vec();
    match long.iter().position(|&n| n == r.max(c)).filter(|_| !deep) {
        None => {
            for &n in long {
                v.extend(shapes_of(n));
            }
        }
        Some(k) => {
            let l = long.len();
            let mut ns = vec![long[k], long[(k + l - 1) % l], long[(k + 1) % l]];
            ns.dedup();
            for n in ns {
                v.extend(shapes_of(n));
            }
        }
    }
    v
}

/// One-operand shapes of the long family for a length N.
pub fn unary_shapes(n: usize) -> [(usize, usize); 4] {
    [(1, n), (n, 1), (2, n), (n, 2)]
}

/// Partner lengths of the `Vec<T>` pairs: every long length, the short lengths 1 and 8, and one
/// beyond the longest.
pub fn vec_partners(long: &[usize]) -> Vec<usize> {
    let mut v = vec![1, 8];
    v.extend_from_slice(long);
    v.push(long.iter().max().unwrap() + 1);
    v
}

fn factorisations(n: usize) -> Vec<(usize, usize)> {
    (1..=n).filter(|k| n % k == 0).map(|k| (k, n / k)).collect()
}

/// Every factorisation r x c of N (wide index code, 4 sign patterns) against: `reshape` to every
/// factorisation of N and to the near misses, `to_row_vector` / `iter` (row-major flattening to a
/// long vector), and transpose followed by `reshape(1, N)` (column-major reading).
pub fn reshape<T: W>(n: usize, seed: u64) {
    let facs = factorisations(n);
    let (r, c) = facs[mc::choose(facs.len())];
    let p = mc::choose(4);
    let a = coded_w(r, c, p, seed).round::<T>();
    let d: DenseMatrix<T> = build(&a);
    let sc = shape_class(r, c);
    let mut targets = facs.clone();
    for t in [(1, n + 1), (1, n - 1), (n + 1, 1), (n - 1, 1), (r, c + 1), (r + 1, c), (c + 1, r), (r + 1, c + 1)] {
        if !targets.contains(&t) {
            targets.push(t);
        }
    }
    let k = mc::choose(targets.len() + 2);
    let opname;
    if k < targets.len() {
        let (nr, nc) = targets[k];
        let w = || format!("[{} wide-index-coded/{} reshape({},{}) input {}]", T::NAME, SIGN_NAMES[p], nr, nc, a.show());
        let got = mc::guard(|| d.reshape(nr, nc));
        if nr * nc == n {
            let want = M { r: nr, c: nc, v: a.v.clone() };
            let back = got.as_ref().ok().map(|x| mc::guard(|| x.reshape(r, c)));
            expect_m::<T>(&Cx { op: "dense.reshape", class: sc, what: &w }, got, &want, None);
            if let Some(b) = back {
                let w2 = || format!("{} and back to ({},{})", w(), r, c);
                expect_m::<T>(&Cx { op: "dense.reshape", class: shape_class(nr, nc), what: &w2 }, b, &a, None);
            }
            mc::count("reshape_compatible");
            mc::count("long_reshape_compatible");
        } else {
            expect_panic(&Cx { op: "dense.reshape", class: "incompatible-accepted", what: &w }, got, |x| format!("a {:?} matrix", x.shape()));
        }
        opname = format!("reshape({},{})", nr, nc);
    } else if k == targets.len() {
        let w = || format!("[{} wide-index-coded/{} input {}]", T::NAME, SIGN_NAMES[p], a.show());
        expect_v::<T>(&Cx { op: "dense.iter", class: sc, what: &w }, mc::guard(|| d.iter().collect::<Vec<T>>()), &a.v, None);
        expect_v::<T>(&Cx { op: "dense.to_row_vector", class: sc, what: &w }, mc::guard(|| d.clone().to_row_vector()), &a.v, None);
        let as_row = M { r: 1, c: n, v: a.v.clone() };
        expect_m::<T>(&Cx { op: "dense.from_row_vector", class: sc, what: &w }, mc::guard(|| DenseMatrix::from_row_vector(d.clone().to_row_vector())), &as_row, None);
        mc::count("long_flatten");
        opname = "iter / to_row_vector / from_row_vector".to_string();
    } else {
        let w = || format!("[{} wide-index-coded/{} transpose then reshape(1,{}) input {}]", T::NAME, SIGN_NAMES[p], n, a.show());
        let want = M { r: 1, c: n, v: a.colmajor() };
        expect_m::<T>(&Cx { op: "dense.reshape", class: shape_class(c, r), what: &w }, mc::guard(|| d.transpose().reshape(1, n)), &want, None);
        mc::count("long_flatten");
        opname = format!("transpose + reshape(1,{})", n);
    }
    mc::nontrivial();
    mc::describe(|| json!({"width": T::NAME, "family": "long", "operation": opname, "fill": format!("wide-index-coded/{}", SIGN_NAMES[p]), "input": a.rows()}));
}
