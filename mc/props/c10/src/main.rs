//! C10 — SVM models are dual-feasible, KKT-consistent and equal their kernel expansion.
//!
//! E1 over (training set, labelling, kernel, C, tol, epochs) x EVERY visiting order the SVC trainer
//! can draw: the sample order is answered through the `verif-hooks` seam, so all (n!)^(1+epochs)
//! schedules of a small instance are enumerated (deviation-bounded for n = 6..8). The SVR trainer is
//! deterministic; it is enumerated over data, epsilon, C, tol and kernels and judged by the
//! epsilon-insensitive KKT conditions. Kernels are checked against closed forms on all lattice
//! vector pairs and their Gram matrices for positive semi-definiteness.

use mc_core::oracle::jacobi_eig;
use mc_core::{self as mc, json, Harness, Job, Plan, Tier, Value};
use mc_sc::{dm, own_rng, release_rng, take_draws, RngMode};
use smartcore::linalg::naive::dense_matrix::DenseMatrix;
use smartcore::svm::svc::{SVCParameters, SVC};
use smartcore::svm::svr::{SVRParameters, SVR};
use smartcore::math::num::RealNumber;
use smartcore::svm::{Kernel, Kernels};

struct C10;

type DM = DenseMatrix<f64>;

#[derive(Clone, Copy, Debug, PartialEq)]
enum Kn {
    Linear,
    Rbf(f64),
    Poly(f64, f64, f64),
    Sigmoid(f64, f64),
}

impl Kn {
    fn from_name(s: &str) -> Kn {
        match s {
            "linear" => Kn::Linear,
            "rbf" => Kn::Rbf(0.5),
            "poly" => Kn::Poly(2.0, 1.0, 1.0),
            "poly3" => Kn::Poly(3.0, 0.5, 0.0),
            // non-integer degrees (the base gamma*<a,b>+coef0 can be negative: NaN on both sides)
            "poly2.5" => Kn::Poly(2.5, 0.5, 1.0),
            "poly0.5" => Kn::Poly(0.5, 1.0, 2.0),
            "sigmoid" => Kn::Sigmoid(0.1, 0.0),
            "sigmoid2" => Kn::Sigmoid(0.7, 0.5),
            _ => panic!("unknown kernel {}", s),
        }
    }
    /// closed form, written independently of the library
    fn eval(&self, a: &[f64], b: &[f64]) -> f64 {
        let dot: f64 = a.iter().zip(b).map(|(x, y)| x * y).sum();
        match *self {
            Kn::Linear => dot,
            Kn::Rbf(g) => (-g * a.iter().zip(b).map(|(x, y)| (x - y) * (x - y)).sum::<f64>()).exp(),
            Kn::Poly(d, g, c) => (g * dot + c).powf(d),
            Kn::Sigmoid(g, c) => (g * dot + c).tanh(),
        }
    }
}

fn jf(v: &Value) -> f64 {
    v.as_f64().unwrap_or(f64::NAN)
}

fn jrows(v: &Value) -> Vec<Vec<f64>> {
    v.as_array().map(|a| a.iter().map(|r| r.as_array().map(|x| x.iter().map(jf).collect()).unwrap_or_default()).collect()).unwrap_or_default()
}

fn jvec(v: &Value) -> Vec<f64> {
    v.as_array().map(|a| a.iter().map(jf).collect()).unwrap_or_default()
}

/// Is there an injective map from support vectors to training rows with equal x such that `ok(sv, row)`?
fn embed(svs: &[Vec<f64>], rows: &[Vec<f64>], ordered: bool, ok: &dyn Fn(usize, usize) -> bool) -> Option<Vec<usize>> {
    fn rec(i: usize, start: usize, svs: &[Vec<f64>], rows: &[Vec<f64>], ordered: bool, used: &mut Vec<bool>, map: &mut Vec<usize>, ok: &dyn Fn(usize, usize) -> bool) -> bool {
        if i == svs.len() {
            return true;
        }
        let from = if ordered { start } else { 0 };
        for r in from..rows.len() {
            if !used[r] && rows[r] == svs[i] && ok(i, r) {
                used[r] = true;
                map.push(r);
                if rec(i + 1, r + 1, svs, rows, ordered, used, map, ok) {
                    return true;
                }
                map.pop();
                used[r] = false;
            }
        }
        false
    }
    let mut used = vec![false; rows.len()];
    let mut map = Vec::new();
    if rec(0, 0, svs, rows, ordered, &mut used, &mut map, ok) {
        Some(map)
    } else {
        None
    }
}

#[allow(clippy::too_many_arguments)]
fn svc_fit_and_check(site_class: &str, pts: &[Vec<f64>], y: &[f64], kn: Kn, kname: &str, c: f64, tol: f64, epoch: usize, mode: RngMode, queries: &[Vec<f64>]) {
    let x: DM = dm(pts);
    let yv = y.to_vec();
    own_rng(mode);
    let r = mc::guard(|| match kn {
        Kn::Linear => SVC::fit(&x, &yv, SVCParameters::default().with_epoch(epoch).with_c(c).with_tol(tol)).map(|m| fit_obs(&m, queries)),
        Kn::Rbf(g) => SVC::fit(&x, &yv, SVCParameters::default().with_epoch(epoch).with_c(c).with_tol(tol).with_kernel(Kernels::rbf(g))).map(|m| fit_obs(&m, queries)),
        Kn::Poly(d, g, c0) => SVC::fit(&x, &yv, SVCParameters::default().with_epoch(epoch).with_c(c).with_tol(tol).with_kernel(Kernels::polynomial(d, g, c0))).map(|m| fit_obs(&m, queries)),
        Kn::Sigmoid(g, c0) => SVC::fit(&x, &yv, SVCParameters::default().with_epoch(epoch).with_c(c).with_tol(tol).with_kernel(Kernels::sigmoid(g, c0))).map(|m| fit_obs(&m, queries)),
    });
    let draws = take_draws();
    release_rng();
    let n = pts.len();
    let sched: Vec<usize> = draws.iter().map(|d| d.2).collect();
    let ctx = format!("x={:?} y={:?} kernel={} C={} tol={} epoch={} Fisher-Yates answers={:?}", pts, y, kname, c, tol, epoch, sched);
    let site = format!("svc.fit:{}", site_class);
    if draws.len() != (1 + epoch) * (n - 1) {
        mc::violation("svc.fit:shuffle-draw-count", format!("{}: expected {} shuffles of {} draws, saw {} draws", ctx, 1 + epoch, n - 1, draws.len()));
    }
    let (model, dec, pred) = match r {
        Err(p) => {
            mc::violation(format!("{}:panic", site), format!("{}: {}", ctx, p.brief()));
            return;
        }
        Ok(Err(e)) => {
            mc::violation(format!("{}:error", site), format!("{}: {}", ctx, e));
            return;
        }
        Ok(Ok(o)) => o,
    };
    let svs = jrows(&model["instances"]);
    let w = jvec(&model["w"]);
    let b = jf(&model["b"]);
    let classes = jvec(&model["classes"]);
    let mut cl: Vec<f64> = y.to_vec();
    cl.sort_by(|a, b| a.partial_cmp(b).unwrap());
    cl.dedup();
    if classes != cl {
        mc::violation(format!("{}:classes", site), format!("{}: model classes {:?}, labels {:?}", ctx, classes, cl));
        return;
    }
    if svs.len() != w.len() || w.iter().any(|v| !v.is_finite()) || !b.is_finite() {
        mc::violation(format!("{}:non-finite-or-misaligned", site), format!("{}: {} support vectors, w={:?}, b={}", ctx, svs.len(), w, b));
        return;
    }
    // support vectors are training rows; each coefficient lies in [0,C] in the direction of its own sample's class
    let sgn = |r: usize| if y[r] == cl[1] { 1.0 } else { -1.0 };
    let slack = 1e-12 * c;
    let any_rows = embed(&svs, pts, false, &|_, _| true);
    if any_rows.is_none() {
        mc::violation(format!("{}:sv-not-training-rows", site), format!("{}: support vectors {:?} are not (distinct) training rows", ctx, svs));
    } else if embed(&svs, pts, false, &|i, r| {
        let v = sgn(r) * w[i];
        v >= -slack && v <= c + slack
    })
    .is_none()
    {
        mc::violation(format!("{}:box-infeasible", site), format!("{}: dual coefficients {:?} of support vectors {:?} are not within [0,C] in the direction of their samples' classes", ctx, w, svs));
    }
    let sw: f64 = w.iter().sum();
    if sw.abs() > 1e-9 * n as f64 * c {
        mc::violation(format!("{}:sum-nonzero", site), format!("{}: dual coefficients {:?} sum to {}", ctx, w, sw));
    }
    // decision function = kernel expansion (closed-form kernel), prediction = sign rule
    for (qi, q) in queries.iter().enumerate() {
        let terms: Vec<f64> = svs.iter().zip(&w).map(|(s, wi)| wi * kn.eval(s, q)).collect();
        let want = terms.iter().sum::<f64>() + b;
        let mag = terms.iter().map(|t| t.abs()).sum::<f64>() + b.abs();
        if !(dec[qi] - want).abs().le(&(1e-12 * (1.0 + mag))) {
            mc::violation(format!("{}:decision-not-expansion", site), format!("{}: decision_function({:?})={} but sum_i w_i K(sv_i,x)+b={}", ctx, q, dec[qi], want));
            break;
        }
        let want_label = if dec[qi] > 0.0 { cl[1] } else { cl[0] };
        if pred[qi] != want_label {
            mc::violation(format!("{}:predict-sign", site), format!("{}: decision {} at {:?} but predicted label {} (classes {:?})", ctx, dec[qi], q, pred[qi], cl));
            break;
        }
    }
    if w.iter().any(|v| (v.abs() - c).abs() <= slack) {
        mc::count("svc_clipped_at_C");
    }
    if sched.iter().any(|a| *a != 0) {
        mc::count("svc_non_identity_orders");
    }
    mc::count("svc_fits");
    mc::nontrivial();
    let mut obs: Vec<f64> = w.iter().map(|v| mc::hash::round_sig(*v, 10)).collect();
    obs.push(mc::hash::round_sig(b, 10));
    obs.extend(svs.iter().flatten());
    mc::outcome(mc::hash::h_f64s(&obs));
    mc::describe(|| json!({"op": "SVC::fit", "x": pts, "y": y, "kernel": kname, "C": c, "tol": tol, "epoch": epoch, "fisher_yates_answers": sched, "support_vectors": svs, "w": w, "b": b}));
}

fn fit_obs<K: Kernel<f64, Vec<f64>> + serde::Serialize>(m: &SVC<f64, DM, K>, queries: &[Vec<f64>]) -> (Value, Vec<f64>, Vec<f64>) {
    let q: DM = dm(queries);
    let v = serde_json::to_value(m).expect("serialise SVC");
    let dec = m.decision_function(&q).expect("decision_function");
    let pred = m.predict(&q).expect("predict");
    (v, dec, pred)
}

fn svr_obs<K: Kernel<f64, Vec<f64>> + serde::Serialize>(m: &SVR<f64, DM, K>, queries: &[Vec<f64>]) -> (Value, Vec<f64>) {
    let q: DM = dm(queries);
    (serde_json::to_value(m).expect("serialise SVR"), m.predict(&q).expect("predict"))
}

// the third pair is non-dyadic with mixed sign: a label must come back bit for bit (lo + (hi - lo) != hi there)
const LABELS: &[(f64, f64)] = &[(-1.0, 1.0), (2.0, 3.0), (-2.5, 0.3)];

fn svc_case(job: &Job) {
    let n = job.u("n");
    let dim = job.u("dim");
    let kname = job.s("kernel").to_string();
    let kn = Kn::from_name(&kname);
    let (c, tol, epoch) = (job.f("C"), job.f("tol"), job.u("epoch"));
    let enc = LABELS[job.u("enc")];
    let dev = job.b("dev");
    let pts: Vec<Vec<f64>> = if let Some(fixed) = job.params["points"].as_array() {
        fixed.iter().map(|p| p.as_array().unwrap().iter().map(jf).collect()).collect()
    } else {
        let pre: Vec<usize> = job.params["pre"].as_array().map(|a| a.iter().map(|x| x.as_u64().unwrap() as usize).collect()).unwrap_or_default();
        let mut it = pre.into_iter();
        (0..n).map(|_| (0..dim).map(|_| it.next().unwrap_or_else(|| mc::choose(3)) as f64).collect()).collect()
    };
    // every labelling with both classes present
    let lab = 1 + mc::choose((1usize << n) - 2);
    let y: Vec<f64> = (0..n).map(|i| if (lab >> i) & 1 == 1 { enc.1 } else { enc.0 }).collect();
    let queries: Vec<Vec<f64>> = if dim == 1 {
        (0..9).map(|i| vec![i as f64 * 0.5 - 1.0]).collect()
    } else {
        // a 4 x 4 grid in the first two coordinates, the remaining coordinates cycle over {-0.5, 0.5, 1.5}
        (0..16usize).map(|i| (0..dim).map(|c| match c { 0 => (i % 4) as f64 * 0.75 - 0.25, 1 => (i / 4) as f64 * 0.75 - 0.25, _ => ((i + c) % 3) as f64 - 0.5 }).collect()).collect()
    };
    let mode = if dev { RngMode::Deviations } else { RngMode::All };
    svc_fit_and_check(if dev { "deviation-bounded-order" } else { "any-order" }, &pts, &y, kn, &kname, c, tol, epoch, mode, &queries);
}

fn svr_case(job: &Job) {
    let n = job.u("n");
    let kname = job.s("kernel").to_string();
    let kn = Kn::from_name(&kname);
    let (c, tol, eps) = (job.f("C"), job.f("tol"), job.f("eps"));
    let pts: Vec<Vec<f64>> = if job.b("neardup") {
        // 7 ordinary rows at magnitudes of hundreds plus a NEAR-duplicate of one of them (one coordinate
        // moved by a relative 2^-d): the pair's curvature K11 + K22 - 2 K12 ~ 1e-13 is below the rounding
        // of the kernel values (~1e-11), so its computed value can come out slightly negative. Every
        // (twin row, coordinate, d) is enumerated; the trainer must terminate with a KKT point.
        let base: Vec<Vec<f64>> = vec![vec![101.5, 398.2], vec![120.75, 405.9], vec![137.25, 412.6], vec![150.1, 420.3], vec![163.8, 431.7], vec![181.4, 440.2], vec![195.9, 452.8]];
        let r = job.u("row");
        let c = mc::choose(2);
        let d = 28 + mc::choose(8) as i32;
        let mut twin = base[r].clone();
        twin[c] *= 1.0 + (2.0f64).powi(-d) * [1.0, 1.3][mc::choose(2)];
        let dot = |u: &[f64], v: &[f64]| u.iter().zip(v).map(|(p, q)| p * q).sum::<f64>();
        if dot(&base[r], &base[r]) + dot(&twin, &twin) - 2.0 * dot(&base[r], &twin) < 0.0 {
            mc::count("svr_neardup_rounded_curvature_negative");
        }
        let mut pts = base;
        pts.insert(5, twin);
        pts
    } else if let Some(fixed) = job.params["points"].as_array() {
        fixed.iter().map(|p| p.as_array().unwrap().iter().map(jf).collect()).collect()
    } else {
        (0..n).map(|_| vec![mc::choose(3) as f64]).collect()
    };
    let yal = [-1.0, 0.0, 2.0];
    let y: Vec<f64> = if job.b("neardup") {
        vec![1.0, 1.4, 1.9, 2.3, 2.8, 3.1, 3.3, 3.9]
    } else if let Some(fixed) = job.params["targets"].as_array() { fixed.iter().map(jf).collect() } else { (0..n).map(|_| yal[mc::choose(3)]).collect() };
    let x: DM = dm(&pts);
    let r = mc::guard(|| match kn {
        Kn::Linear => SVR::fit(&x, &y, SVRParameters::default().with_eps(eps).with_c(c).with_tol(tol)).map(|m| svr_obs(&m, &pts)),
        Kn::Rbf(g) => SVR::fit(&x, &y, SVRParameters::default().with_eps(eps).with_c(c).with_tol(tol).with_kernel(Kernels::rbf(g))).map(|m| svr_obs(&m, &pts)),
        Kn::Poly(d, g, c0) => SVR::fit(&x, &y, SVRParameters::default().with_eps(eps).with_c(c).with_tol(tol).with_kernel(Kernels::polynomial(d, g, c0))).map(|m| svr_obs(&m, &pts)),
        Kn::Sigmoid(g, c0) => SVR::fit(&x, &y, SVRParameters::default().with_eps(eps).with_c(c).with_tol(tol).with_kernel(Kernels::sigmoid(g, c0))).map(|m| svr_obs(&m, &pts)),
    });
    let ctx = format!("x={:?} y={:?} kernel={} eps={} C={} tol={}", pts, y, kname, eps, c, tol);
    let site = "svr.fit";
    let (model, pred) = match r {
        Err(p) => {
            mc::violation(format!("{}:panic", site), format!("{}: {}", ctx, p.brief()));
            return;
        }
        Ok(Err(e)) => {
            mc::violation(format!("{}:error", site), format!("{}: {}", ctx, e));
            return;
        }
        Ok(Ok(o)) => o,
    };
    let svs = jrows(&model["instances"]);
    let w = jvec(&model["w"]);
    let b = jf(&model["b"]);
    if svs.len() != w.len() || w.iter().any(|v| !v.is_finite()) || !b.is_finite() {
        mc::violation(format!("{}:non-finite-or-misaligned", site), format!("{}: {} support vectors, w={:?}, b={}", ctx, svs.len(), w, b));
        return;
    }
    let slack_c = 1e-12 * c;
    if w.iter().any(|v| v.abs() > c + slack_c) {
        mc::violation(format!("{}:box-infeasible", site), format!("{}: coefficients {:?} exceed C", ctx, w));
    }
    let sw: f64 = w.iter().sum();
    if sw.abs() > 1e-9 * n as f64 * c {
        mc::violation(format!("{}:sum-nonzero", site), format!("{}: coefficients {:?} sum to {}", ctx, w, sw));
    }
    // prediction = kernel expansion
    let f: Vec<f64> = pts.iter().map(|q| svs.iter().zip(&w).map(|(s, wi)| wi * kn.eval(s, q)).sum::<f64>() + b).collect();
    for i in 0..n {
        let mag: f64 = svs.iter().zip(&w).map(|(s, wi)| (wi * kn.eval(s, &pts[i])).abs()).sum::<f64>() + b.abs();
        if !(pred[i] - f[i]).abs().le(&(1e-12 * (1.0 + mag))) {
            mc::violation(format!("{}:predict-not-expansion", site), format!("{}: predict({:?})={} but sum_i w_i K(sv_i,x)+b={}", ctx, pts[i], pred[i], f[i]));
            break;
        }
    }
    // epsilon-insensitive KKT at every training point, for SOME assignment of the (row-ordered) support
    // vectors to training rows with equal x (duplicate x rows make the assignment ambiguous)
    let t = tol + 1e-9;
    let at_c = |v: f64| (v.abs() - c).abs() <= 1e-9 * c;
    let tiny = |v: f64| v.abs() <= 1e-12 * c;
    let kkt = |wi: f64, r: f64| -> bool {
        // r = y - f(x)
        if tiny(wi) && r.abs() <= eps + t {
            return true;
        }
        if wi > 0.0 && !at_c(wi) && !tiny(wi) {
            return (r - eps).abs() <= t;
        }
        if wi < 0.0 && !at_c(wi) && !tiny(wi) {
            return (r + eps).abs() <= t;
        }
        if wi > 0.0 && at_c(wi) {
            return r >= eps - t;
        }
        if wi < 0.0 && at_c(wi) {
            return r <= -eps + t;
        }
        // tiny but non-zero weight: accept the interior-of-box reading as well
        (r.abs() - eps).abs() <= t
    };
    let resid: Vec<f64> = (0..n).map(|i| y[i] - f[i]).collect();
    let full_ok = |map: &[usize]| -> bool {
        let mut wrow = vec![0.0; n];
        for (i, r) in map.iter().enumerate() {
            wrow[*r] = w[i];
        }
        (0..n).all(|r| kkt(wrow[r], resid[r]))
    };
    // enumerate order-preserving embeddings
    let mut found = false;
    let mut any_embedding = false;
    {
        fn rec(i: usize, start: usize, svs: &[Vec<f64>], rows: &[Vec<f64>], map: &mut Vec<usize>, any: &mut bool, f: &dyn Fn(&[usize]) -> bool) -> bool {
            if i == svs.len() {
                *any = true;
                return f(map);
            }
            for r in start..rows.len() {
                if rows[r] == svs[i] {
                    map.push(r);
                    if rec(i + 1, r + 1, svs, rows, map, any, f) {
                        return true;
                    }
                    map.pop();
                }
            }
            false
        }
        let mut map = Vec::new();
        if rec(0, 0, &svs, &pts, &mut map, &mut any_embedding, &full_ok) {
            found = true;
        }
    }
    if !any_embedding {
        mc::violation(format!("{}:sv-not-training-rows", site), format!("{}: support vectors {:?} are not training rows in order", ctx, svs));
    } else if !found {
        mc::violation(format!("{}:kkt", site), format!("{}: epsilon-insensitive optimality conditions violated beyond tol: w={:?} on support vectors {:?}, residuals y-f={:?}", ctx, w, svs, resid));
    }
    if w.iter().any(|v| at_c(*v)) {
        mc::count("svr_at_C");
    }
    if w.len() < n {
        mc::count("svr_zero_weight_rows");
    }
    mc::count("svr_fits");
    mc::nontrivial();
    let mut obs: Vec<f64> = w.iter().map(|v| mc::hash::round_sig(*v, 9)).collect();
    obs.push(mc::hash::round_sig(b, 9));
    mc::outcome(mc::hash::h_f64s(&obs));
    mc::describe(|| json!({"op": "SVR::fit", "x": pts, "y": y, "kernel": kname, "eps": eps, "C": c, "tol": tol, "support_vectors": svs, "w": w, "b": b, "residuals": resid}));
}

fn ulp_close(a: f64, b: f64, ulps: f64) -> bool {
    if a == b {
        return true;
    }
    (a - b).abs() <= ulps * f64::EPSILON * a.abs().max(b.abs()).max(f64::MIN_POSITIVE)
}

/// One (a, b) pair in number type T: the library's five built-in kernels against the closed form
/// evaluated in f64 on the T-exact inputs. `tol(kernel, |argument|)` is in units of T's epsilon.
fn kernel_pair_t<T: RealNumber>(a64: &[f64], b64: &[f64], tag: &str) {
    let a: Vec<T> = a64.iter().map(|&v| T::from_f64(v).unwrap()).collect();
    let b: Vec<T> = b64.iter().map(|&v| T::from_f64(v).unwrap()).collect();
    // the values the library really sees
    let ar: Vec<f64> = a.iter().map(|v| v.to_f64().unwrap()).collect();
    let br: Vec<f64> = b.iter().map(|v| v.to_f64().unwrap()).collect();
    let eps = T::epsilon().to_f64().unwrap();
    let len = a.len() as f64;
    let t = |v: f64| T::from_f64(v).unwrap();
    for kname in ["linear", "rbf", "poly", "poly3", "poly2.5", "poly0.5", "sigmoid", "sigmoid2"] {
        let kn = Kn::from_name(kname);
        let lib = |u: &Vec<T>, v: &Vec<T>| -> Result<f64, mc::PanicInfo> {
            mc::guard(|| {
                match kn {
                    Kn::Linear => Kernels::linear().apply(u, v),
                    Kn::Rbf(g) => Kernels::rbf(t(g)).apply(u, v),
                    Kn::Poly(d, g, c0) => Kernels::polynomial(t(d), t(g), t(c0)).apply(u, v),
                    Kn::Sigmoid(g, c0) => Kernels::sigmoid(t(g), t(c0)).apply(u, v),
                }
                .to_f64()
                .unwrap()
            })
        };
        match (lib(&a, &b), lib(&b, &a)) {
            (Ok(kab), Ok(kba)) => {
                let want = kn.eval(&ar, &br);
                // rounding a careful evaluation cannot avoid: (len+2) roundings in the dot product /
                // squared distance, amplified by the condition number of the outer function
                let d2: f64 = ar.iter().zip(&br).map(|(x, y)| (x - y) * (x - y)).sum();
                let amp = match kn {
                    Kn::Linear => 1.0,
                    Kn::Rbf(g) => 1.0 + g * d2,
                    Kn::Poly(d, _, _) => d + 1.0,
                    Kn::Sigmoid(_, _) => 2.0,
                };
                let ulps = 4.0 + (len + 2.0) * amp;
                let ok = kab == want || (kab.is_nan() && want.is_nan()) || (kab - want).abs() <= ulps * eps * kab.abs().max(want.abs()).max(f64::MIN_POSITIVE) || (want.is_infinite() && kab == want);
                if !ok {
                    mc::violation(format!("kernel.{}:closed-form{}", kname, tag), format!("K({:?},{:?})={} but the closed form gives {} (allowed {} ulps of the number type)", ar, br, kab, want, ulps));
                }
                if kab.to_bits() != kba.to_bits() && !(kab.is_nan() && kba.is_nan()) {
                    mc::violation(format!("kernel.{}:asymmetric{}", kname, tag), format!("K({:?},{:?})={} but K(b,a)={}", ar, br, kab, kba));
                }
                if let Kn::Rbf(_) = kn {
                    if !(kab <= 1.0 && kab >= 0.0) {
                        mc::violation(format!("kernel.rbf:outside-unit-interval{}", tag), format!("K({:?},{:?})={} is not in [0,1]", ar, br, kab));
                    }
                }
                mc::outcome(kab.to_bits());
            }
            (Err(p), _) | (_, Err(p)) => mc::violation(format!("kernel.{}:panic{}", kname, tag), format!("K({:?},{:?}): {}", ar, br, p.brief())),
        }
    }
}

/// offsets / spacings of the kernel and Gram families: (offset added to every coordinate, lattice spacing)
const PLACEMENTS: [(f64, f64); 6] = [(0.0, 1.0), (25.0, 1.0), (30.0, 0.03125), (1000.0, 1.0), (1000.0, 0.03125), (1048576.0, 1.0)];

fn kernel_case(job: &Job) {
    let len = job.u("len");
    let sigma = [0.0, 1.0, -1.0, 2.0, -2.0];
    let alpha = if len == 3 && !job.b("full") { 3 } else { 5 };
    let (off, h) = PLACEMENTS[mc::choose(PLACEMENTS.len())];
    let wide = mc::choose(2) == 0;
    let a: Vec<f64> = (0..len).map(|_| off + h * sigma[mc::choose(alpha)]).collect();
    let mut b: Vec<f64> = (0..len).map(|_| off + h * sigma[mc::choose(alpha)]).collect();
    // mirrored partner: b -> -b, so that <a,b> is large and NEGATIVE at the off-centre placements
    // (saturated negative side of tanh, negative bases of the polynomial kernel)
    let mirrored = mc::choose(2) == 1;
    if mirrored {
        for v in b.iter_mut() {
            *v = -*v;
        }
        mc::count("kernel_pairs_mirrored");
    }
    if wide {
        kernel_pair_t::<f64>(&a, &b, "");
    } else {
        kernel_pair_t::<f32>(&a, &b, ":f32");
    }
    mc::count("kernel_pairs");
    if off != 0.0 {
        mc::count("kernel_pairs_off_centre");
    }
    if !wide {
        mc::count("kernel_pairs_f32");
    }
    mc::nontrivial();
    mc::describe(|| json!({"op": "kernel", "a": a, "b": b, "type": if wide { "f64" } else { "f32" }}));
}

fn gram_t<T: RealNumber>(pts64: &[Vec<f64>], tag: &str) {
    let n = pts64.len();
    let pts: Vec<Vec<T>> = pts64.iter().map(|r| r.iter().map(|&v| T::from_f64(v).unwrap()).collect()).collect();
    let eps = T::epsilon().to_f64().unwrap();
    for kname in ["linear", "rbf"] {
        let kn = Kn::from_name(kname);
        let g: Vec<Vec<f64>> = (0..n)
            .map(|i| {
                (0..n)
                    .map(|j| {
                        match kn {
                            Kn::Linear => Kernels::linear().apply(&pts[i], &pts[j]),
                            Kn::Rbf(gm) => Kernels::rbf(T::from_f64(gm).unwrap()).apply(&pts[i], &pts[j]),
                            _ => unreachable!(),
                        }
                        .to_f64()
                        .unwrap()
                    })
                    .collect()
            })
            .collect();
        let (d, _) = jacobi_eig(&g);
        let tr: f64 = (0..n).map(|i| g[i][i]).sum();
        let lmin = d.last().copied().unwrap_or(0.0);
        // entries rounded to T move an eigenvalue by at most n * eps_T * max|entry| <= n * eps_T * trace
        let slack = (4.0 * n as f64 * eps).max(1e-10);
        if !(lmin >= -slack * tr.max(1e-300)) {
            mc::violation(format!("kernel.{}:gram-not-psd{}", kname, tag), format!("Gram matrix of {:?} has eigenvalue {} (trace {})", pts64, lmin, tr));
        }
        if let Kn::Rbf(_) = kn {
            for i in 0..n {
                if g[i][i] != 1.0 {
                    mc::violation(format!("kernel.rbf:diagonal-not-one{}", tag), format!("K(x,x)={} for x={:?}", g[i][i], pts64[i]));
                }
            }
        }
        mc::outcome(mc::hash::h_f64s_rounded(&d, 10));
    }
}

fn gram_case(job: &Job) {
    let (n, dim) = (job.u("n"), job.u("dim"));
    let side = if dim == 1 { 5 } else { 3 };
    let (off, h) = PLACEMENTS[mc::choose(PLACEMENTS.len())];
    let wide = mc::choose(2) == 0;
    let pts: Vec<Vec<f64>> = (0..n).map(|_| (0..dim).map(|_| off + h * (mc::choose(side) as f64 - 1.0)).collect()).collect();
    if wide {
        gram_t::<f64>(&pts, "");
    } else {
        gram_t::<f32>(&pts, ":f32");
    }
    mc::count("gram_matrices");
    if off != 0.0 {
        mc::count("gram_matrices_off_centre");
    }
    mc::nontrivial();
    mc::describe(|| json!({"op": "gram", "points": pts, "type": if wide { "f64" } else { "f32" }}));
}

fn prefixes(len: usize, side: usize) -> Vec<Vec<usize>> {
    let mut out = vec![Vec::new()];
    for _ in 0..len {
        out = out
            .into_iter()
            .flat_map(|p| {
                (0..side).map(move |c| {
                    let mut q = p.clone();
                    q.push(c);
                    q
                })
            })
            .collect();
    }
    out
}

/// every 4-subset (5-subset) of the 3x2 lattice, in row-major order
fn lattice_subsets(k: usize) -> Vec<Vec<Vec<f64>>> {
    let all: Vec<Vec<f64>> = (0..6).map(|i| vec![(i % 3) as f64, (i / 3) as f64]).collect();
    let mut out = Vec::new();
    for mask in 0u32..64 {
        if mask.count_ones() as usize == k {
            out.push((0..6).filter(|i| (mask >> i) & 1 == 1).map(|i| all[i].clone()).collect());
        }
    }
    out
}

impl Harness for C10 {
    fn id(&self) -> &'static str {
        "C10"
    }

    fn plan(&self, tier: Tier, _seed: u64) -> Plan {
        let t = tier.is_thorough();
        let mut jobs = Vec::new();
        let kernels = ["linear", "rbf", "poly", "sigmoid"];
        // parameter settings: (C, tol, encoding index)
        let settings: Vec<(f64, f64, usize)> = if t {
            let mut v = Vec::new();
            for c in [0.1, 1.0, 100.0] {
                for tol in [1e-2, 1e-4] {
                    for enc in 0..3 {
                        v.push((c, tol, enc));
                    }
                }
            }
            v
        } else {
            vec![(0.1, 1e-2, 0), (100.0, 1e-4, 0), (1.0, 1e-4, 2)]
        };
        // kernels on vector pairs and Gram matrices (cheap, first)
        for len in 1..=3usize {
            jobs.push(Job::new(format!("kernel-pairs-len{}", len), json!({"kind": "kernel", "len": len, "full": t})));
        }
        for (n, dim) in [(2usize, 1usize), (3, 1), (4, 1), (2, 2), (3, 2), (4, 2)] {
            if !t && n == 4 && dim == 2 {
                continue;
            }
            jobs.push(Job::new(format!("gram-n{}-d{}", n, dim), json!({"kind": "gram", "n": n, "dim": dim})));
        }
        // SVC, n = 4, epoch 1: all (4!)^2 visiting orders
        for k in kernels {
            for &(c, tol, enc) in &settings {
                for pre in prefixes(2, 3) {
                    jobs.push(Job::new(format!("svc-1d-n4-e1-{}-C{}-tol{}-enc{}-pre{:?}", k, c, tol, enc, pre), json!({"kind": "svc", "n": 4, "dim": 1, "kernel": k, "C": c, "tol": tol, "epoch": 1, "enc": enc, "pre": pre})));
                }
            }
        }
        // SVC on 2-D lattice subsets, n = 4
        for (si, pts) in lattice_subsets(4).into_iter().enumerate() {
            for k in kernels {
                let sets: Vec<(f64, f64, usize)> = if t { settings.clone() } else { vec![(1.0, 1e-4, 0)] };
                for (c, tol, enc) in sets {
                    jobs.push(Job::new(format!("svc-2d-subset{}-e1-{}-C{}-tol{}-enc{}", si, k, c, tol, enc), json!({"kind": "svc", "n": 4, "dim": 2, "kernel": k, "C": c, "tol": tol, "epoch": 1, "enc": enc, "points": pts})));
                }
            }
        }
        // SVC, n = 4, epoch 2: all (4!)^3 orders — quick: sequences starting 0,1,2 only, one setting
        for k in kernels {
            let sets: Vec<(f64, f64, usize)> = if t { settings.clone() } else { vec![(1.0, 1e-4, 0)] };
            for (c, tol, enc) in sets {
                for pre in prefixes(3, 3) {
                    if !t && pre != vec![0, 1, 2] {
                        continue;
                    }
                    jobs.push(Job::new(format!("svc-1d-n4-e2-{}-C{}-tol{}-enc{}-pre{:?}", k, c, tol, enc, pre), json!({"kind": "svc", "n": 4, "dim": 1, "kernel": k, "C": c, "tol": tol, "epoch": 2, "enc": enc, "pre": pre})));
                }
            }
        }
        // SVC, n = 5, epoch 1: all (5!)^2 = 14400 orders (thorough)
        if t {
            for k in ["linear", "rbf"] {
                for (c, tol, enc) in [(1.0, 1e-4, 0usize)] {
                    for pre in prefixes(4, 3) {
                        jobs.push(Job::new(format!("svc-1d-n5-e1-{}-C{}-tol{}-enc{}-pre{:?}", k, c, tol, enc, pre), json!({"kind": "svc", "n": 5, "dim": 1, "kernel": k, "C": c, "tol": tol, "epoch": 1, "enc": enc, "pre": pre})));
                    }
                }
            }
        }
        // SVC, n = 6..8, deviation-bounded orders, epochs up to 4
        let big: Vec<Vec<Vec<f64>>> = vec![
            (0..6).map(|i| vec![(i % 3) as f64, (i / 3) as f64]).collect(),
            (0..7).map(|i| vec![((i * 3) % 7) as f64 * 0.5]).collect(),
            (0..8).map(|i| vec![(i % 4) as f64, (i / 4) as f64 * 2.0, ((i * 5) % 3) as f64]).collect(),
        ];
        for (bi, pts) in big.iter().enumerate() {
            for k in kernels {
                for epoch in [1usize, 2, 4] {
                    if !t && (epoch == 4 || bi == 2) {
                        continue;
                    }
                    for (c, tol) in [(1.0, 1e-3), (100.0, 1e-4)] {
                        jobs.push(
                            Job::new(format!("svc-big{}-e{}-{}-C{}-dev", bi, epoch, k, c), json!({"kind": "svc", "n": pts.len(), "dim": pts[0].len(), "kernel": k, "C": c, "tol": tol, "epoch": epoch, "enc": 0, "points": pts, "dev": true}))
                                .with_dev_bound(if t { 2 } else { 1 }),
                        );
                    }
                }
            }
        }
        // SVR
        for k in ["linear", "rbf", "poly"] {
            for n in 2..=(if t { 5 } else { 4 }) {
                for eps in [0.0, 0.1, 0.5] {
                    for c in [0.1, 1.0, 100.0] {
                        for tol in [1e-2, 1e-3, 1e-4] {
                            if !t && n == 4 && tol == 1e-3 {
                                continue;
                            }
                            jobs.push(Job::new(format!("svr-n{}-{}-eps{}-C{}-tol{}", n, k, eps, c, tol), json!({"kind": "svr", "n": n, "kernel": k, "eps": eps, "C": c, "tol": tol})));
                        }
                    }
                }
            }
        }
        // SVR structured larger sets
        for n in [8usize, 20, 72, 40, 80] {
            if !t && n > 20 && n != 72 {
                continue;
            }
            for variant in 0..3usize {
                let pts: Vec<Vec<f64>> = (0..n).map(|i| vec![i as f64 * 0.25, ((i * 7) % 5) as f64]).collect();
                let y: Vec<f64> = (0..n).map(|i| match variant {
                    0 => 0.5 * i as f64 * 0.25 + 1.0,
                    1 => ((i % 5) as f64 - 2.0) * 0.7,
                    _ => if i % 7 == 0 { 5.0 } else { (i as f64 * 0.1).floor() },
                }).collect();
                for k in ["linear", "rbf"] {
                    for (eps, c) in [(0.1, 1.0), (0.0, 10.0), (0.5, 0.1)] {
                        jobs.push(Job::new(format!("svr-structured-n{}-v{}-{}-eps{}-C{}", n, variant, k, eps, c), json!({"kind": "svr", "n": n, "kernel": k, "eps": eps, "C": c, "tol": 1e-3, "points": pts, "targets": y})));
                    }
                }
            }
        }
        // SVR stiff problems: feature magnitudes of tens with C = 10 (or hundreds with C = 1) make the
        // dual badly conditioned; SMO then needs 10^5..10^6 steps to reach the tolerance. The
        // optimality clause must hold however long the trainer has to run.
        for (n, dim, scale, c) in [(20usize, 2usize, 100.0f64, 1.0f64), (30, 2, 20.0, 10.0), (40, 3, 20.0, 10.0)] {
            if !t && n == 40 {
                continue;
            }
            for variant in 0..2usize {
                let pts: Vec<Vec<f64>> = (0..n).map(|i| (0..dim).map(|j| (((i * (2 * j + 3) + 5 * j * j + (i * i) / (j + 2)) % 41) as f64 - 20.0) * scale / 20.0).collect()).collect();
                let y: Vec<f64> = (0..n)
                    .map(|i| {
                        let lin = 0.3 * pts[i][0] - 0.2 * pts[i][1];
                        match variant {
                            0 => lin / scale * 20.0 + ((i * 7) % 5) as f64 * 0.5 - 1.0,
                            _ => ((i * i + 3) % 11) as f64 - 5.0,
                        }
                    })
                    .collect();
                jobs.push(Job::new(format!("svr-structured-stiff-n{}-d{}-s{}-v{}-linear-C{}", n, dim, scale, variant, c), json!({"kind": "svr", "n": n, "kernel": "linear", "eps": 0.1, "C": c, "tol": 1e-3, "points": pts, "targets": y, "stiff": true})));
            }
        }
        // SVR with NEAR-duplicate rows at magnitudes of hundreds (choice-driven family, see svr_case)
        for k in ["linear", "poly"] {
            for c in [1.0, 10.0] {
                for row in 0..7usize {
                    // (C = 10, twin of row 5) contains the inputs on which the unchanged library never
                    // terminates (known finding, see known_findings.txt): those two jobs run in the
                    // thorough tier only, where the 20 s per-case deadline does not hurt
                    if !t && c == 10.0 && row == 5 {
                        continue;
                    }
                    jobs.push(Job::new(format!("svr-structured-neardup-{}-C{}-r{}", k, c, row), json!({"kind": "svr", "n": 8, "kernel": k, "eps": 0.1, "C": c, "tol": 1e-3, "neardup": true, "row": row, "stiff": true})));
                }
            }
        }
        // cheap and diverse jobs first, the large all-order SVC families last
        let rank = |name: &str| -> usize {
            let order = ["kernel", "gram", "svr-n", "svr-structured", "svc-big", "svc-2d", "svc-1d-n4-e1", "svc-1d-n4-e2", "svc-1d-n5"];
            order.iter().position(|p| name.starts_with(p)).unwrap_or(order.len())
        };
        jobs.sort_by_key(|j| rank(&j.name));
        jobs.insert(0, Job::new("builders", json!({"kind": "builders"})));
        {
            let j = &mut jobs;
            for i in 0..mc_sc::entry::n_parts("C10") {
                j.insert(1 + i, Job::new(format!("entry-{}", i), json!({"kind": "entry", "part": i})));
            }
        }
        Plan {
            jobs,
            budget_s: if t { 2700 } else { 40 },
            case_deadline_ms: 20_000,
            floors: vec![("builder_chains", 5), ("entry_cases", 1000), ("svc_fits", 100_000), ("svc_non_identity_orders", 100_000), ("svc_clipped_at_C", 1000), ("svr_fits", 10_000), ("svr_at_C", 100), ("svr_zero_weight_rows", 100), ("kernel_pairs", 5000), ("kernel_pairs_off_centre", 4000), ("kernel_pairs_f32", 2500), ("kernel_pairs_mirrored", 5000), ("svr_neardup_rounded_curvature_negative", 30), ("gram_matrices", 1000), ("gram_matrices_off_centre", 800)],
            bounds: json!({
                "builders": mc_sc::builders::BOUNDS,
                "entry_paths": mc_sc::entry::BOUNDS,
                "svc_all_orders": "every x sequence over {0,1,2}^4 x every labelling with both classes x 4 kernels x (C,tol,encoding) settings x ALL (4!)^2 visiting orders (epoch 1); 2-D: every 4-subset of the 3x2 lattice; epoch 2 ((4!)^3 orders) on one sequence family (all in thorough); n=5 with all (5!)^2 orders for the linear and RBF kernels in thorough",
                "svc_deviation_bounded": "n=6..8 fixed point sets, epochs 1,2(,4): every schedule with at most 1 (2 thorough) non-identity Fisher-Yates steps",
                "svr_near_duplicates": "an 8-row set at magnitudes of hundreds in which one row has a NEAR-duplicate (every row x coordinate x relative distance 2^-28..2^-35 x 2 factors) carrying a different target, linear and polynomial kernels, C in {1,10}: termination and KKT; the rounded pair curvature is negative in a counted share of them", "svr_stiff": "linear-kernel SVR on deterministic integer designs with feature magnitudes up to 20 (C=10) and 100 (C=1), n in {20,30} (40 thorough): problems on which SMO needs 1e5..1e6 steps", "svr": "every x sequence over {0,1,2}^n, y over {-1,0,2}^n, n<=4 (5 thorough) x eps {0,.1,.5} x C {.1,1,100} x tol {1e-2,1e-3,1e-4} x {linear,rbf,poly}; structured sets n in {8,20,72} (also 40,80 thorough)",
                "kernels": "every vector pair of length <=2 over {0,±1,±2} and length 3 over {0,±1} (all in thorough), each at 6 placements (offset, spacing) in {(0,1),(25,1),(30,1/32),(1000,1),(1000,1/32),(2^20,1)} and in f64 and f32, (5 built-in kernels incl. polynomial degrees 2, 3, 2.5 and 0.5) against the closed form with a rounding allowance of 4+(len+2)*cond ulps of the number type, exact symmetry, RBF in [0,1]; Gram matrices (linear, RBF) of every point sequence n<=4 at the same placements and widths: PSD, RBF diagonal exactly 1",
            }),
        }
    }

    fn run(&self, job: &Job) {
        if job.kind() == "entry" {
            return mc_sc::entry::run_part("C10", job.u("part"));
        }
        match job.kind() {
            "svc" => svc_case(job),
            "svr" => svr_case(job),
            "kernel" => kernel_case(job),
            "gram" => gram_case(job),
            "builders" => mc_sc::builders::run("C10"),
            other => panic!("unknown job kind {}", other),
        }
    }

    fn cleanup(&self) {
        release_rng();
    }

    fn rule(&self) -> String {
        "one execution = one (training set, labelling/targets, kernel, C, tol, epochs/epsilon) and, for SVC, one complete sequence of Fisher-Yates answers for all 1+epochs shuffles; non-trivial = a model was returned and checked; distinct = digest of (support vectors, rounded coefficients, intercept)".into()
    }

    fn assumptions(&self) -> Vec<String> {
        vec![
            "the chooser-driven Fisher-Yates of the seam produces exactly the permutations rand's shuffle can produce".into(),
            "models are read through their serde serialisation (instances, w, b, classes)".into(),
            "support vectors are matched to training rows by value; with duplicated rows any consistent matching is accepted (library's favour)".into(),
            "SVR KKT slack = tol + 1e-9 (calibrated worst case 0.5*tol)".into(),
            "the RNG call sites of /repo/src equal /verif/rng_sites.allow (checked at start-up)".into(),
        ]
    }
}

fn main() {
    if let Err(e) = mc_sc::check_rng_sites() {
        eprintln!("MACHINERY-ERROR: {}", e);
        std::process::exit(2);
    }
    mc::main(C10)
}
