//! Small oracle-side helpers of the C01 harness (norms, headroom counters, formatting).
//! Nothing in here calls the library under test.

use mc_core as mc;
use mc_core::oracle::Mat;
use std::cell::RefCell;
use std::collections::HashMap;

thread_local! {
    static NAMES: RefCell<HashMap<String, &'static str>> = RefCell::new(HashMap::new());
}

/// Intern a counter name (the recorder wants `&'static str`; the set of names is small and fixed).
pub fn name(s: &str) -> &'static str {
    NAMES.with(|n| {
        let mut n = n.borrow_mut();
        if let Some(x) = n.get(s) {
            return *x;
        }
        let leaked: &'static str = Box::leak(s.to_string().into_boxed_str());
        n.insert(s.to_string(), leaked);
        leaked
    })
}

pub fn count(s: &str) {
    mc::count(name(s));
}

/// Compare an observed defect with its tolerance. Returns true when the clause is BROKEN
/// (observed > tol, or not a number). Also maintains the headroom counters
/// `near4:<clause>` / `near16:<clause>` (observed above tol/4, tol/16) used for calibration.
pub fn broken(clause: &str, observed: f64, tol: f64) -> bool {
    if !(observed <= tol) {
        return true;
    }
    if tol > 0.0 {
        if observed > tol / 4.0 {
            count(&format!("near4:{}", clause));
        } else if observed > tol / 16.0 {
            count(&format!("near16:{}", clause));
        }
    }
    false
}

pub fn fmt_mat(a: &Mat) -> String {
    let rows: Vec<String> = a.iter().map(|r| format!("[{}]", r.iter().map(|x| fmt_num(*x)).collect::<Vec<_>>().join(","))).collect();
    format!("[{}]", rows.join(","))
}

pub fn fmt_num(x: f64) -> String {
    if x == 0.0 {
        "0".into()
    } else if x.fract() == 0.0 && x.abs() < 1e9 {
        format!("{}", x as i64)
    } else {
        format!("{:e}", x)
    }
}

/// Matrix printed in full when small, else by shape only.
pub fn fmt_mat_short(a: &Mat) -> String {
    let (r, c) = mc::oracle::shape(a);
    if r * c <= 20 {
        fmt_mat(a)
    } else {
        format!("<{}x{} matrix>", r, c)
    }
}

pub fn pow2(e: i32) -> f64 {
    2f64.powi(e)
}

pub fn top_rows(a: &Mat, k: usize) -> Mat {
    a.iter().take(k).cloned().collect()
}

pub fn is_symmetric(a: &Mat) -> bool {
    let n = a.len();
    if n == 0 || a[0].len() != n {
        return false;
    }
    for i in 0..n {
        for j in 0..i {
            if a[i][j] != a[j][i] {
                return false;
            }
        }
    }
    true
}

pub fn hash_mat(h: u64, a: &Mat) -> u64 {
    a.iter().fold(h, |h, r| mc::hash::mix(h, mc::hash::h_f64s(r)))
}
