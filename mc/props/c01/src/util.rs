//! Small oracle-side helpers of the C01 harness (norms, headroom counters, formatting).
//! Nothing in here calls the library under test.

use mc_core as mc;
use mc_core::oracle::Mat;
use std::cell::RefCell;
use std::collections::HashMap;

thread_local! {
    static NAMES: RefCell<HashMap<String, &'static str>> = RefCell::new(HashMap::new());
}

/// Intern a counter name (the recorder wants `&'static str`; the set of names is small and fixed).
pub fn name(s: &str) -> &'static str {
    NAMES.with(|n| {
        let mut n = n.borrow_mut();
        if let Some(x) = n.get(s) {
            return *x;
        }
        let leaked: &'static str = Box::leak(s.to_string().into_boxed_str());
        n.insert(s.to_string(), leaked);
        leaked
    })
}

fn calib() -> bool {
    thread_local! {
        static ON: bool = std::env::var("C01_CALIB").is_ok();
    }
    ON.with(|x| *x)
}

pub fn count(s: &str) {
    mc::count(name(s));
}

/// Compare an observed defect with its tolerance. Returns true when the clause is BROKEN
/// (observed > tol, or not a number). Also maintains the headroom counters
/// `near4:<clause>` / `near16:<clause>` (observed above tol/4, tol/16) used for calibration.
pub fn broken(op: &str, clause: &str, observed: f64, tol: f64) -> bool {
    if !(observed <= tol) {
        return true;
    }
    if tol > 0.0 {
        if observed > tol / 4.0 {
            if calib() {
                // development aid: C01_CALIB=1 prints every case within a factor 4 of its tolerance
                eprintln!("CALIB {}:{} ratio={:.3}", op, clause, observed / tol);
            }
            count(&format!("near4:{}:{}", op, clause));
        } else if observed > tol / 16.0 {
            count(&format!("near16:{}:{}", op, clause));
        }
    }
    false
}

pub fn fmt_mat(a: &Mat) -> String {
    let rows: Vec<String> = a.iter().map(|r| format!("[{}]", r.iter().map(|x| fmt_num(*x)).collect::<Vec<_>>().join(","))).collect();
    format!("[{}]", rows.join(","))
}

pub fn fmt_num(x: f64) -> String {
    if x == 0.0 {
        "0".into()
    } else if x.fract() == 0.0 && x.abs() < 1e9 {
        format!("{}", x as i64)
    } else {
        format!("{:e}", x)
    }
}

/// Matrix printed in full when small, else by shape only.
pub fn fmt_mat_short(a: &Mat) -> String {
    let (r, c) = mc::oracle::shape(a);
    if r * c <= 20 {
        fmt_mat(a)
    } else {
        format!("<{}x{} matrix>", r, c)
    }
}

pub fn pow2(e: i32) -> f64 {
    2f64.powi(e)
}

pub fn is_symmetric(a: &Mat) -> bool {
    let n = a.len();
    if n == 0 || a[0].len() != n {
        return false;
    }
    for i in 0..n {
        for j in 0..i {
            if a[i][j] != a[j][i] {
                return false;
            }
        }
    }
    true
}

pub fn hash_mat(h: u64, a: &Mat) -> u64 {
    a.iter().fold(h, |h, r| mc::hash::mix(h, mc::hash::h_f64s(r)))
}

// ---- allocation-free defect measures (hot path of the oracle) ------------------------------------

/// max |C - X*Y| over all entries
pub fn prod_defect_max(c: &Mat, x: &Mat, y: &Mat) -> f64 {
    let k = y.len();
    let mut worst = 0.0f64;
    for (ci, xi) in c.iter().zip(x) {
        for (j, cij) in ci.iter().enumerate() {
            let mut s = 0.0;
            for l in 0..k {
                s += xi[l] * y[l][j];
            }
            let d = (cij - s).abs();
            if d.is_nan() {
                return f64::INFINITY;
            }
            worst = worst.max(d);
        }
    }
    worst
}

/// max |P*A - L*U|
pub fn lu_defect_max(p: &Mat, a: &Mat, l: &Mat, u: &Mat) -> f64 {
    let n = a.len();
    let mut worst = 0.0f64;
    for i in 0..n {
        for j in 0..n {
            let mut s = 0.0;
            let mut t = 0.0;
            for k in 0..n {
                s += p[i][k] * a[k][j];
                t += l[i][k] * u[k][j];
            }
            let d = (s - t).abs();
            if d.is_nan() {
                return f64::INFINITY;
            }
            worst = worst.max(d);
        }
    }
    worst
}

/// max |A - X*X^T|
pub fn llt_defect_max(a: &Mat, l: &Mat) -> f64 {
    let n = a.len();
    let mut worst = 0.0f64;
    for i in 0..n {
        for j in 0..n {
            let mut s = 0.0;
            for k in 0..n {
                s += l[i][k] * l[j][k];
            }
            let d = (a[i][j] - s).abs();
            if d.is_nan() {
                return f64::INFINITY;
            }
            worst = worst.max(d);
        }
    }
    worst
}

/// max |A - U*diag(s)*V^T|
pub fn usvt_defect_max(a: &Mat, u: &Mat, s: &[f64], v: &Mat) -> f64 {
    let mut worst = 0.0f64;
    for (i, ai) in a.iter().enumerate() {
        for (j, aij) in ai.iter().enumerate() {
            let mut t = 0.0;
            for (k, sk) in s.iter().enumerate() {
                t += u[i][k] * sk * v[j][k];
            }
            let d = (aij - t).abs();
            if d.is_nan() {
                return f64::INFINITY;
            }
            worst = worst.max(d);
        }
    }
    worst
}

/// max |Q^T Q - I|
pub fn orth_defect_max(q: &Mat) -> f64 {
    let m = q.len();
    let n = if m == 0 { 0 } else { q[0].len() };
    let mut worst = 0.0f64;
    for a in 0..n {
        for b in a..n {
            let mut s = 0.0;
            for r in q.iter().take(m) {
                s += r[a] * r[b];
            }
            let d = (s - if a == b { 1.0 } else { 0.0 }).abs();
            if d.is_nan() {
                return f64::INFINITY;
            }
            worst = worst.max(d);
        }
    }
    worst
}

/// Frobenius norm without rescaling (entries of this harness stay within 2^+-200)
pub fn fro(a: &Mat) -> f64 {
    let mut s = 0.0;
    for r in a {
        for x in r {
            s += x * x;
        }
    }
    if s.is_nan() {
        f64::INFINITY
    } else {
        s.sqrt()
    }
}

/// R = A*X - B
pub fn residual(a: &Mat, x: &Mat, b: &Mat) -> Mat {
    let n = x.len();
    b.iter()
        .enumerate()
        .map(|(i, bi)| {
            bi.iter()
                .enumerate()
                .map(|(j, bij)| {
                    let mut s = 0.0;
                    for k in 0..n {
                        s += a[i][k] * x[k][j];
                    }
                    s - bij
                })
                .collect()
        })
        .collect()
}

/// |A^T R|_F
pub fn at_r_fro(a: &Mat, r: &Mat) -> f64 {
    let m = a.len();
    let n = if m == 0 { 0 } else { a[0].len() };
    let p = if r.is_empty() { 0 } else { r[0].len() };
    let mut s = 0.0;
    for c in 0..n {
        for j in 0..p {
            let mut t = 0.0;
            for i in 0..m {
                t += a[i][c] * r[i][j];
            }
            s += t * t;
        }
    }
    if s.is_nan() {
        f64::INFINITY
    } else {
        s.sqrt()
    }
}
