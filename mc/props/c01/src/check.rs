//! The oracle of C01: runs the real factorisations / solvers of `DenseMatrix<T>` on one input at one
//! scale and judges every clause of the statement by definition-level checks evaluated in f64.

use crate::gen::{CholClass, Input};
use crate::util::{self, broken, fmt_mat_short, hash_mat, pow2};
use mc_core::oracle::{self as o, Mat};
use mc_core::{self as mc, json, PanicInfo};
use mc_sc::{dm, rows_of};
use smartcore::error::Failed;
use smartcore::linalg::cholesky::CholeskyDecomposableMatrix;
use smartcore::linalg::lu::LUDecomposableMatrix;
use smartcore::linalg::naive::dense_matrix::DenseMatrix;
use smartcore::linalg::qr::QRDecomposableMatrix;
use smartcore::linalg::svd::SVDDecomposableMatrix;
use smartcore::math::num::RealNumber;

/// Constants of the tolerances `c * k * eps_T * scale` (k = max(m, n)); see NOTES.md for the
/// calibration on the unchanged tree.
pub const C_LU: f64 = 32.0;
pub const C_QR: f64 = 32.0;
pub const C_CHOL: f64 = 32.0;
pub const C_SVD: f64 = 64.0;
pub const C_SOLVE: f64 = 64.0;
/// conditioning bound of the statement
pub const COND_MAX: f64 = 1e6;
/// Clauses whose success depends on cond*eps being small (Cholesky must succeed, SVD rank decision,
/// comparison with the exact solution) are only demanded when k*eps_T*cond <= this.
pub const COND_EPS_GUARD: f64 = 1.0 / 64.0;

#[derive(Clone, Copy, Debug, PartialEq, Eq)]
pub enum RhsMode {
    /// the whole catalogue: p = 1..4 columns x 3 patterns (x consistent / inconsistent)
    Full,
    /// p = 1..4 columns, one pattern each (x consistent / inconsistent)
    PerWidth,
    /// p = 1 (pattern 1) and p = 3 (pattern 2) (x consistent / inconsistent)
    Two,
}

pub struct Rhs {
    pub p: usize,
    pub pattern: usize,
    pub exact_perp: bool,
    pub x0: Mat,
    pub b: Mat,
    pub consistent: bool,
    /// x0 is THE least-squares solution (full column rank and B - A*x0 exactly orthogonal to range(A))
    pub x0_is_solution: bool,
}

impl Rhs {
    pub fn tag(&self) -> String {
        if self.consistent {
            format!("B=A*X0(p={},pattern={}) B={}", self.p, self.pattern, fmt_mat_short(&self.b))
        } else {
            format!("B=A*X0+E(p={},pattern={},E {} range(A)) B={}", self.p, self.pattern, if self.exact_perp { "exactly orthogonal to" } else { "outside" }, fmt_mat_short(&self.b))
        }
    }
}

const SIG3: [f64; 3] = [0.0, 1.0, -1.0];

fn x0_pattern(n: usize, p: usize, v: usize) -> Mat {
    (0..n)
        .map(|i| {
            (0..p)
                .map(|j| match v {
                    0 => 1.0,
                    1 => SIG3[(i + j + 1) % 3],
                    _ => SIG3[(2 * i + j + 2) % 3],
                })
                .collect()
        })
        .collect()
}

pub fn rhs_list(inp: &Input, a: &Mat, e: i32, mode: RhsMode) -> Vec<Rhs> {
    let (m, n) = (inp.m, inp.n);
    let mut out = Vec::new();
    let combos: Vec<(usize, usize)> = match mode {
        RhsMode::Full => (1..=4).flat_map(|p| (0..3).map(move |v| (p, v))).collect(),
        RhsMode::PerWidth => (1..=4).map(|p| (p, p % 3)).collect(),
        RhsMode::Two => vec![(1, 1), (3, 2)],
    };
    let full_col = inp.rank == n;
    let amax = o::max_abs(a);
    for (p, v) in combos {
        let x0 = x0_pattern(n, p, v);
        let ax = o::matmul(a, &x0);
        out.push(Rhs { p, pattern: v, exact_perp: false, x0: x0.clone(), b: ax.clone(), consistent: true, x0_is_solution: full_col });
        if inp.rank < m {
            // a right-hand side outside range(A)
            let mut b = ax;
            let exact_perp = match &inp.lnull {
                Some(basis) if !basis.is_empty() => {
                    for (k, z) in basis.iter().enumerate() {
                        for j in 0..p {
                            let c = (1 + (k + j) % 2) as f64 * pow2(e);
                            for i in 0..m {
                                b[i][j] += c * z[i];
                            }
                        }
                    }
                    true
                }
                _ => {
                    for i in 0..m {
                        for j in 0..p {
                            b[i][j] += (((i + 2 * j) % 3) as f64 - 1.0) * 0.5 * amax;
                        }
                    }
                    false
                }
            };
            out.push(Rhs { p, pattern: v, exact_perp, x0, b, consistent: false, x0_is_solution: full_col && exact_perp });
        }
    }
    out
}

pub struct Cx<'a> {
    pub inp: &'a Input,
    pub e: i32,
    pub width: u8,
    /// the matrix exactly as the library sees it (after conversion to T), in f64
    pub a: Mat,
    pub eps: f64,
    pub k: f64,
    pub cls: &'static str,
    pub amax: f64,
    pub afro: f64,
}

impl<'a> Cx<'a> {
    fn viol(&self, op: &str, clause: &str, msg: impl FnOnce() -> String) {
        // Grouping of all accuracy clauses under one key per input regime was how the symptoms of the
        // absolute-epsilon defect (repaired in /repo, commit 6c64a71) were bundled; with that defect gone
        // every clause keeps its own key (set GROUP_ABS_EPS_REGIME to true to get the bundling back).
        const GROUP_ABS_EPS_REGIME: bool = false;
        let grouped = GROUP_ABS_EPS_REGIME && (op.starts_with("qr.") || op.starts_with("svd.")) && in_abs_eps_regime(self.cls) && ACCURACY_CLAUSES.contains(&clause);
        if grouped {
            self.viol_cls(op, "inaccurate", self.cls, || format!("[{}] {}", clause, msg()))
        } else {
            self.viol_cls(op, clause, self.cls, msg)
        }
    }
    /// A panic of the library: the clause key carries the kind of panic; an index error is
    /// determined by the shape, so its input class is the shape relation.
    fn viol_panic(&self, op: &str, p: &PanicInfo, ctx: impl FnOnce() -> String) {
        let kind = panic_kind(p);
        let cls = if kind == "panic-index-out-of-bounds" {
            match self.inp.m.cmp(&self.inp.n) {
                std::cmp::Ordering::Less => "m<n",
                std::cmp::Ordering::Equal => "m=n",
                std::cmp::Ordering::Greater => "m>n",
            }
        } else {
            self.cls
        };
        self.viol_cls(op, kind, cls, || format!("{}{}", ctx(), p.brief()))
    }
    /// Report a violation. The human-readable line is only built the first time this process sees
    /// the site key (the explorer keeps one message per site and job; later ones are only counted)
    /// and whenever the case is being sampled / replayed.
    fn viol_cls(&self, op: &str, clause: &str, cls: &str, msg: impl FnOnce() -> String) {
        let site = format!("{}:{}:{}{}", op, clause, cls, if self.width == 32 { ":f32" } else { "" });
        let first = SEEN.with(|s| s.borrow_mut().insert(site.clone()));
        if first || mc::sampling() {
            mc::violation(site, format!("{} | {}", self.head(), msg()));
        } else {
            mc::violation(site, String::new());
        }
    }
    fn head(&self) -> String {
        let inp = self.inp;
        format!("{} T=f{} scale=2^{} A({}x{})={} rank={} cond={:.3e}", inp.label, self.width, self.e, inp.m, inp.n, fmt_mat_short(&self.a), inp.rank, inp.cond)
    }
    fn guard_ok(&self) -> bool {
        self.k * self.eps * self.inp.cond <= COND_EPS_GUARD
    }
}

/// The two absolute-scale input classes existed to give the symptoms of the absolute-epsilon defect
/// of QR/SVD (repaired in /repo, commit 6c64a71) their own site keys; with the defect gone, the
/// class of an input no longer depends on its scale.
const CLASSIFY_BY_ABSOLUTE_SCALE: bool = false;

/// Input class used in site keys; a predicate of the input alone (decided by the oracle).
pub fn input_class(inp: &Input, scale: f64, eps: f64) -> &'static str {
    if inp.rank == 0 {
        "zero-matrix"
    } else if CLASSIFY_BY_ABSOLUTE_SCALE && inp.sv[inp.rank - 1] * scale <= 4.0 * eps {
        // the smallest non-zero singular value is below 4*eps_T in ABSOLUTE size: a comparison of a
        // column norm with the absolute constant T::epsilon() fires although the matrix is
        // perfectly conditioned (the statement is scale-free down to 1e-12)
        "sigma-min-below-4eps-absolute"
    } else if inp.rank < inp.n {
        // non-trivial null space: A has an exactly zero singular value - either only because it is
        // wide with full row rank, or because it is rank-deficient proper
        if inp.m < inp.n && inp.rank == inp.m {
            "wide-full-row-rank"
        } else {
            "rank-deficient"
        }
    } else if CLASSIFY_BY_ABSOLUTE_SCALE && inp.sv[0] * scale <= 1.0 / 64.0 {
        // |A|_2 <= 2^-6 (absolute): a matrix that has been scaled down. A quantity q dropped because
        // q <= T::epsilon() is then significant relative to |A| (q/|A| up to 64*eps_T and more)
        "norm-below-2^-6-absolute"
    } else {
        "full-column-rank"
    }
}

/// In the three input regimes in which comparisons with the ABSOLUTE constant T::epsilon() decide
/// branches of QR / SVD, all accuracy clauses of an operation share one clause key.
fn in_abs_eps_regime(cls: &str) -> bool {
    matches!(cls, "sigma-min-below-4eps-absolute" | "norm-below-2^-6-absolute" | "wide-full-row-rank" | "rank-deficient")
}

const ACCURACY_CLAUSES: &[&str] = &[
    "A!=QR", "Q-not-orthonormal", "A!=USVt", "V-not-orthonormal", "U-not-orthonormal", "non-finite", "residual", "not-least-squares", "not-minimum-norm", "wrong-solution",
];

fn panic_kind(p: &PanicInfo) -> &'static str {
    if p.msg.contains("no convergence") {
        "panic-no-convergence"
    } else if p.msg.contains("index out of bounds") || p.msg.contains("Invalid index") {
        "panic-index-out-of-bounds"
    } else if p.msg.contains("singular") || p.msg.contains("rank deficient") {
        "panic-reported-singular"
    } else if p.is_overflow_check() {
        "panic-overflow-check"
    } else {
        "panic-other"
    }
}

fn count(name: &'static str) {
    mc::count(name)
}

thread_local! {
    static SEEN: std::cell::RefCell<std::collections::HashSet<String>> = std::cell::RefCell::new(std::collections::HashSet::new());
}

type Lib<X> = Result<Result<X, Failed>, PanicInfo>;

fn all_finite(ms: &[&Mat]) -> bool {
    ms.iter().all(|m| o::all_finite(m))
}

fn is_permutation_matrix(p: &Mat) -> bool {
    let n = p.len();
    let mut colseen = vec![0; n];
    for r in p {
        if r.len() != n {
            return false;
        }
        let mut ones = 0;
        for (j, x) in r.iter().enumerate() {
            if *x == 1.0 {
                ones += 1;
                colseen[j] += 1;
            } else if *x != 0.0 {
                return false;
            }
        }
        if ones != 1 {
            return false;
        }
    }
    colseen.iter().all(|c| *c == 1)
}

fn lower_exact(l: &Mat) -> bool {
    l.iter().enumerate().all(|(i, r)| r.iter().enumerate().all(|(j, x)| j <= i || *x == 0.0))
}

fn upper_exact(u: &Mat) -> bool {
    u.iter().enumerate().all(|(i, r)| r.iter().enumerate().all(|(j, x)| j >= i || *x == 0.0))
}

// ---- normalised reconstruction defects (used by the checks and by the scale-1 localiser) --------

fn lu_defect<T: RealNumber>(a: &Mat) -> Option<f64> {
    let at: DenseMatrix<T> = dm(a);
    let lu = mc::guard(|| at.lu()).ok()?.ok()?;
    let (l, u, p) = (rows_of(&lu.L()), rows_of(&lu.U()), rows_of(&lu.pivot()));
    Some(util::lu_defect_max(&p, a, &l, &u))
}

fn qr_defect<T: RealNumber>(a: &Mat) -> Option<f64> {
    let at: DenseMatrix<T> = dm(a);
    let qr = mc::guard(|| at.qr()).ok()?.ok()?;
    let (q, r) = (rows_of(&qr.Q()), rows_of(&qr.R()));
    Some(util::prod_defect_max(a, &q, &r))
}

fn chol_defect<T: RealNumber>(a: &Mat) -> Option<f64> {
    let at: DenseMatrix<T> = dm(a);
    let ch = mc::guard(|| at.cholesky()).ok()?.ok()?;
    let l = rows_of(&ch.L());
    Some(util::llt_defect_max(a, &l))
}

fn svd_defect<T: RealNumber>(a: &Mat) -> Option<f64> {
    let at: DenseMatrix<T> = dm(a);
    let svd = mc::guard(|| at.svd()).ok()?.ok()?;
    let (u, v) = (rows_of(&svd.U), rows_of(&svd.V));
    let s: Vec<f64> = svd.s.iter().map(|x| x.to_f64().unwrap()).collect();
    if o::shape(&u).1 != s.len() || o::shape(&v).1 != s.len() {
        return None;
    }
    Some(util::usvt_defect_max(a, &u, &s, &v))
}

impl<'a> Cx<'a> {
    /// Localiser for a failed reconstruction at scale != 1: does the same clause hold for the same
    /// matrix at scale 1?
    fn scale1_note(&self, defect_at: fn(&Mat) -> Option<f64>, c: f64) -> String {
        if self.e == 0 {
            return String::new();
        }
        let a1: Mat = {
            // the base matrix as T sees it at scale 1
            let s = pow2(-self.e);
            self.a.iter().map(|r| r.iter().map(|x| x * s).collect()).collect()
        };
        match defect_at(&a1) {
            Some(d) if d <= c * self.k * self.eps * o::max_abs(&a1) => " [the same matrix at scale 1 passes this clause: the algorithm is not scale-free]".into(),
            Some(_) => " [fails at scale 1 too]".into(),
            None => " [no factors at scale 1 either]".into(),
        }
    }
}

// ---- solves --------------------------------------------------------------------------------------

impl<'a> Cx<'a> {
    /// Judge the result of one solve. `op` = "lu.solve" etc.
    fn judge_solve<T: RealNumber>(&self, op: &str, rhs: &Rhs, r: Lib<DenseMatrix<T>>, minimum_norm: bool) {
        let inp = self.inp;
        let (m, n) = (inp.m, inp.n);
        let p = rhs.x0[0].len();
        let full = match r {
            Err(pn) => {
                self.viol_panic(op, &pn, || format!("{}: ", rhs.tag()));
                return;
            }
            Ok(Err(f)) => {
                self.viol(op, "error", || format!("{}: returned Err({})", rhs.tag(), f));
                return;
            }
            Ok(Ok(x)) => rows_of(&x),
        };
        let (xr, xc) = o::shape(&full);
        // The solvers overwrite B: for tall A the result keeps B's m rows and the solution is its
        // leading n rows (that is how linear_regression.rs reads it). Accept n or m rows.
        if xc != p || !(xr == n || (xr == m && m >= n)) {
            self.viol(op, "shape", || format!("{}: result is {}x{}, expected {}x{} (or {}x{} with the solution in the leading rows)", rhs.tag(), xr, xc, n, p, m, p));
            return;
        }
        let mut x = full;
        x.truncate(n);
        mc::outcome(hash_mat(7, &x));
        if !o::all_finite(&x) {
            self.viol(op, "non-finite", || format!("{}: solution contains NaN/inf: {}", rhs.tag(), fmt_mat_short(&x)));
            return;
        }
        let (xf, bf) = (util::fro(&x), util::fro(&rhs.b));
        let res = util::residual(&self.a, &x, &rhs.b);
        let ceps = C_SOLVE * self.k * self.eps;
        if rhs.consistent {
            let d = util::fro(&res);
            let tol = ceps * (self.afro * xf + bf);
            if broken(op, "residual", d, tol) {
                self.viol(op, "residual", || format!("{}: |A*X-B|_F = {:e} > {:e} = {}*k*eps*(|A||X|+|B|); X={}", rhs.tag(), d, tol, C_SOLVE, fmt_mat_short(&x)));
                return;
            }
        }
        if m > inp.rank {
            // least squares: A^T (A X - B) = 0
            let d = util::at_r_fro(&self.a, &res);
            let tol = ceps * self.afro * (self.afro * xf + bf);
            if broken(op, "normal-equations", d, tol) {
                self.viol(op, "not-least-squares", || format!("{}: |A^T(A*X-B)|_F = {:e} > {:e} = {}*k*eps*|A|(|A||X|+|B|); X={}", rhs.tag(), d, tol, C_SOLVE, fmt_mat_short(&x)));
                return;
            }
            count("ls_checked");
        }
        if minimum_norm && inp.rank < n {
            let loosen = if inp.null_exact { 1.0 } else { 16.0 };
            for z in &inp.null {
                let zn = o::norm2(z);
                for j in 0..p {
                    let xj = o::col(&x, j);
                    let d = o::dot(z, &xj).abs();
                    let tol = loosen * ceps * inp.cond * zn * o::norm2(&xj);
                    if broken(op, "minimum-norm", d, tol) {
                        self.viol(op, "not-minimum-norm", || format!("{}: column {} of X has component {:e} along the null vector {:?} of A (allowed {:e}); X={}", rhs.tag(), j, d / zn, z, tol / zn, fmt_mat_short(&x)));
                        return;
                    }
                }
            }
            count("min_norm_checked");
        }
        if rhs.x0_is_solution {
            // perturbation theory of least squares: |dx| <~ eps * (cond*|x| + cond^2*|r|/|A|_2), r = B - A*X0
            let f = ceps * inp.cond;
            if f >= 0.25 {
                count("x0_comparison_uninformative");
            } else {
                let d = util::fro(&o::sub(&x, &rhs.x0));
                let r0 = if rhs.consistent { 0.0 } else { util::fro(&util::residual(&self.a, &rhs.x0, &rhs.b)) };
                let a2 = inp.sv[0] * pow2(self.e);
                let tol = f * (util::fro(&rhs.x0) + inp.cond * r0 / a2);
                if broken(op, "x-x0", d, tol) {
                    self.viol(op, "wrong-solution", || format!("{}: |X-X0|_F = {:e} > {:e} = {}*k*eps*(cond*|X0| + cond^2*|B-A*X0|/|A|_2) (cond={:.3e}); X={}", rhs.tag(), d, tol, C_SOLVE, inp.cond, fmt_mat_short(&x)));
                }
            }
        }
    }
}

// ---- the four factorisations ---------------------------------------------------------------------

fn check_lu<T: RealNumber>(cx: &Cx, at: &DenseMatrix<T>, rhs: &[Rhs]) {
    let n = cx.inp.n;
    let a = &cx.a;
    count("lu_cases");
    let r: Lib<_> = mc::guard(|| at.lu());
    let lu = match r {
        Err(p) => return cx.viol_panic("lu.factor", &p, String::new),
        Ok(Err(f)) => return cx.viol("lu.factor", "error", || format!("lu() returned Err({}) for a non-singular matrix", f)),
        Ok(Ok(lu)) => lu,
    };
    let parts: Lib<_> = mc::guard(|| Ok((rows_of(&lu.L()), rows_of(&lu.U()), rows_of(&lu.pivot()))));
    let (l, u, p) = match parts {
        Ok(Ok(x)) => x,
        Err(pn) => return cx.viol_panic("lu.factor", &pn, || "L()/U()/pivot(): ".into()),
        Ok(Err(_)) => unreachable!(),
    };
    mc::outcome(hash_mat(hash_mat(hash_mat(1, &l), &u), &p));
    let mut ok = true;
    if o::shape(&l) != (n, n) || o::shape(&u) != (n, n) || o::shape(&p) != (n, n) {
        return cx.viol("lu.factor", "shape", || format!("L {:?}, U {:?}, P {:?} for a {}x{} matrix", o::shape(&l), o::shape(&u), o::shape(&p), n, n));
    }
    if !all_finite(&[&l, &u]) {
        return cx.viol("lu.factor", "non-finite", || format!("L={} U={}", fmt_mat_short(&l), fmt_mat_short(&u)));
    }
    if !lower_exact(&l) || (0..n).any(|i| l[i][i] != 1.0) {
        cx.viol("lu.factor", "L-not-unit-lower", || format!("L={}", fmt_mat_short(&l)));
        ok = false;
    }
    if !upper_exact(&u) {
        cx.viol("lu.factor", "U-not-upper", || format!("U={}", fmt_mat_short(&u)));
        ok = false;
    }
    if !is_permutation_matrix(&p) {
        cx.viol("lu.factor", "P-not-permutation", || format!("P={}", fmt_mat_short(&p)));
        ok = false;
    } else if (0..n).any(|i| p[i][i] != 1.0) {
        count("lu_pivoted");
    }
    // partial pivoting: the pivot is a largest entry of its column, hence every multiplier is a
    // quotient x/y of floats with |x| <= |y| and (correct rounding is monotone) |L_ij| <= 1 exactly.
    // A wrong pivot choice shows here directly, before it shows as element growth.
    let lmax = l.iter().enumerate().flat_map(|(i, r)| r.iter().take(i).map(|x| x.abs())).fold(0.0f64, f64::max);
    if lmax > 1.0 + 4.0 * cx.eps {
        cx.viol("lu.factor", "L-entry-above-1", || format!("max|L_ij| = {:e} > 1: the pivot is not a largest entry of its column (partial pivoting); L={} U={} P={}", lmax, fmt_mat_short(&l), fmt_mat_short(&u), fmt_mat_short(&p)));
    }
    if ok {
        let d = util::lu_defect_max(&p, a, &l, &u);
        let tol = C_LU * cx.k * cx.eps * cx.amax;
        if broken("lu.factor", "PA=LU", d, tol) {
            cx.viol("lu.factor", "PA!=LU", || format!("|PA-LU|max = {:e} > {:e} = {}*n*eps*|A|max; L={} U={} P={}{}", d, tol, C_LU, fmt_mat_short(&l), fmt_mat_short(&u), fmt_mat_short(&p), cx.scale1_note(lu_defect::<T>, C_LU)));
        }
    }
    // inverse
    let r: Lib<_> = mc::guard(|| lu.inverse());
    match r {
        Err(pn) => cx.viol_panic("lu.inverse", &pn, String::new),
        Ok(Err(f)) => cx.viol("lu.inverse", "error", || format!("inverse() returned Err({})", f)),
        Ok(Ok(inv)) => {
            let inv = rows_of(&inv);
            mc::outcome(hash_mat(2, &inv));
            if o::shape(&inv) != (n, n) {
                cx.viol("lu.inverse", "shape", || format!("inverse is {:?}", o::shape(&inv)));
            } else if !o::all_finite(&inv) {
                cx.viol("lu.inverse", "non-finite", || format!("inverse={}", fmt_mat_short(&inv)));
            } else {
                let d = util::fro(&o::sub(&o::matmul(a, &inv), &o::eye(n)));
                let tol = C_SOLVE * cx.k * cx.eps * cx.afro * util::fro(&inv);
                if broken("lu.inverse", "A*inv=I", d, tol) {
                    cx.viol("lu.inverse", "A*inv!=I", || format!("|A*inv-I|_F = {:e} > {:e} = {}*n*eps*|A|_F|inv|_F; inv={}", d, tol, C_SOLVE, fmt_mat_short(&inv)));
                }
            }
        }
    }
    for r in rhs.iter().filter(|r| r.consistent) {
        let bt: DenseMatrix<T> = dm(&r.b);
        let res: Lib<_> = mc::guard(|| at.clone().lu_solve_mut(bt));
        cx.judge_solve("lu.solve", r, res, false);
    }
}

fn check_qr<T: RealNumber>(cx: &Cx, at: &DenseMatrix<T>, rhs: &[Rhs]) {
    let (m, n) = (cx.inp.m, cx.inp.n);
    let a = &cx.a;
    count("qr_cases");
    if m > n {
        count("qr_tall");
    }
    let r: Lib<_> = mc::guard(|| at.qr());
    let qr = match r {
        Err(p) => return cx.viol_panic("qr.factor", &p, String::new),
        Ok(Err(f)) => return cx.viol("qr.factor", "error", || format!("qr() returned Err({})", f)),
        Ok(Ok(x)) => x,
    };
    let parts: Lib<_> = mc::guard(|| Ok((rows_of(&qr.Q()), rows_of(&qr.R()))));
    let (q, r) = match parts {
        Ok(Ok(x)) => x,
        Err(pn) => return cx.viol_panic("qr.factor", &pn, || "Q()/R(): ".into()),
        Ok(Err(_)) => unreachable!(),
    };
    mc::outcome(hash_mat(hash_mat(3, &q), &r));
    if o::shape(&q) != (m, n) || o::shape(&r) != (n, n) {
        return cx.viol("qr.factor", "shape", || format!("Q {:?}, R {:?} for a {}x{} matrix", o::shape(&q), o::shape(&r), m, n));
    }
    if !all_finite(&[&q, &r]) {
        return cx.viol("qr.factor", "non-finite", || format!("Q={} R={}{}", fmt_mat_short(&q), fmt_mat_short(&r), cx.scale1_note(qr_defect::<T>, C_QR)));
    }
    if (0..n).any(|i| r[i][i] > 0.0) {
        count("qr_negative_diagonal_branch");
    }
    if (0..n).any(|i| r[i][i] < 0.0) {
        count("qr_positive_diagonal_branch");
    }
    if (0..n).any(|i| r[i][i] == 0.0) {
        count("qr_skipped_column");
    }
    if !upper_exact(&r) {
        cx.viol("qr.factor", "R-not-upper", || format!("R={}", fmt_mat_short(&r)));
    }
    let d = util::orth_defect_max(&q);
    let tol = C_QR * cx.k * cx.eps;
    if broken("qr.factor", "QtQ=I", d, tol) {
        cx.viol("qr.factor", "Q-not-orthonormal", || format!("|Q^T Q - I|max = {:e} > {:e} = {}*m*eps; Q={} R={}{}", d, tol, C_QR, fmt_mat_short(&q), fmt_mat_short(&r), cx.scale1_note(qr_defect::<T>, C_QR)));
    }
    let d = util::prod_defect_max(a, &q, &r);
    let tol = C_QR * cx.k * cx.eps * cx.amax;
    if broken("qr.factor", "A=QR", d, tol) {
        cx.viol("qr.factor", "A!=QR", || format!("|A-QR|max = {:e} > {:e} = {}*m*eps*|A|max; Q={} R={}{}", d, tol, C_QR, fmt_mat_short(&q), fmt_mat_short(&r), cx.scale1_note(qr_defect::<T>, C_QR)));
    }
    for r in rhs {
        let bt: DenseMatrix<T> = dm(&r.b);
        let res: Lib<_> = mc::guard(|| at.clone().qr_solve_mut(bt));
        cx.judge_solve("qr.solve", r, res, false);
    }
}

fn check_chol<T: RealNumber>(cx: &Cx, at: &DenseMatrix<T>, rhs: &[Rhs]) {
    let n = cx.inp.n;
    let a = &cx.a;
    let r: Lib<_> = mc::guard(|| at.cholesky());
    match cx.inp.chol {
        CholClass::NotSym => {}
        CholClass::Unconstrained => {
            count("chol_unconstrained");
            match r {
                Ok(Ok(_)) => mc::outcome(41),
                Ok(Err(_)) => mc::outcome(42),
                Err(_) => mc::outcome(43),
            }
        }
        CholClass::ClearlyIndefinite => {
            count("chol_must_refuse");
            match r {
                Ok(Err(_)) => {
                    mc::outcome(44);
                    count("chol_refused");
                }
                Ok(Ok(ch)) => {
                    let l = mc::guard(|| rows_of(&ch.L())).unwrap_or_default();
                    cx.viol_cls("chol.factor", "indefinite-accepted", cx.inp.chol_cls, || format!("symmetric matrix with lambda_min = {:.4e} <= -|A|_2/10 (|A|_2 = {:.4e}) was factored instead of refused; L={}", cx.inp.lam_min * pow2(cx.e), cx.inp.lam_max_abs * pow2(cx.e), fmt_mat_short(&l)));
                }
                Err(pn) => cx.viol_cls("chol.factor", "indefinite-panic", cx.inp.chol_cls, || format!("symmetric matrix with a clearly negative eigenvalue: panic instead of Err: {}", pn.brief())),
            }
        }
        CholClass::Spd => {
            if cx.inp.cond > COND_MAX || !cx.guard_ok() {
                count("chol_spd_outside_conditioning_domain");
                return;
            }
            count("chol_spd");
            let ch = match r {
                Err(p) => return cx.viol_panic("chol.factor", &p, String::new),
                Ok(Err(f)) => return cx.viol("chol.factor", "spd-refused", || format!("cholesky() returned Err({}) for a positive definite matrix (cond {:.3e})", f, cx.inp.cond)),
                Ok(Ok(x)) => x,
            };
            let (l, u) = (rows_of(&ch.L()), rows_of(&ch.U()));
            mc::outcome(hash_mat(4, &l));
            if o::shape(&l) != (n, n) || o::shape(&u) != (n, n) {
                return cx.viol("chol.factor", "shape", || format!("L {:?}, U {:?}", o::shape(&l), o::shape(&u)));
            }
            if !all_finite(&[&l, &u]) {
                return cx.viol("chol.factor", "non-finite", || format!("L={}", fmt_mat_short(&l)));
            }
            if !lower_exact(&l) {
                cx.viol("chol.factor", "L-not-lower", || format!("L={}", fmt_mat_short(&l)));
            }
            if o::transpose(&l) != u {
                cx.viol("chol.factor", "U!=Lt", || format!("L={} U={}", fmt_mat_short(&l), fmt_mat_short(&u)));
            }
            let d = util::llt_defect_max(a, &l);
            let tol = C_CHOL * cx.k * cx.eps * cx.amax;
            if broken("chol.factor", "A=LLt", d, tol) {
                cx.viol("chol.factor", "A!=LLt", || format!("|A-LL^T|max = {:e} > {:e} = {}*n*eps*|A|max; L={}{}", d, tol, C_CHOL, fmt_mat_short(&l), cx.scale1_note(chol_defect::<T>, C_CHOL)));
            }
            for r in rhs.iter().filter(|r| r.consistent) {
                let bt: DenseMatrix<T> = dm(&r.b);
                let res: Lib<_> = mc::guard(|| at.clone().cholesky_solve_mut(bt));
                cx.judge_solve("chol.solve", r, res, false);
            }
        }
    }
}

fn check_svd<T: RealNumber>(cx: &Cx, at: &DenseMatrix<T>, rhs: &[Rhs]) {
    let inp = cx.inp;
    let (m, n) = (inp.m, inp.n);
    let a = &cx.a;
    let full_col = inp.rank == n;
    let wide_full_row = m < n && inp.rank == m;
    let factor_dom = (full_col || wide_full_row) && inp.cond <= COND_MAX;
    let solve_dom = inp.cond <= COND_MAX && cx.guard_ok();
    count("svd_cases");
    if m < n {
        count("svd_wide");
    } else if m > n {
        count("svd_tall");
    }
    if inp.rank < m.min(n) {
        count("svd_rank_deficient");
    }
    if (0..n).any(|j| (0..m).all(|i| a[i][j] == 0.0)) {
        count("svd_zero_column");
    }
    if (0..m).any(|i| (0..n).all(|j| a[i][j] == 0.0)) {
        count("svd_zero_row");
    }
    if factor_dom {
        count("svd_factor_cases");
        let r: Lib<_> = mc::guard(|| at.svd());
        match r {
            Err(p) => cx.viol_panic("svd.factor", &p, String::new),
            Ok(Err(f)) => cx.viol("svd.factor", "error", || format!("svd() returned Err({})", f)),
            Ok(Ok(svd)) => {
                let (u, v, sm) = (rows_of(&svd.U), rows_of(&svd.V), rows_of(&svd.S()));
                let s: Vec<f64> = svd.s.iter().map(|x| x.to_f64().unwrap()).collect();
                mc::outcome(mc::hash::mix(hash_mat(hash_mat(5, &u), &v), mc::hash::h_f64s(&s)));
                let kk = s.len();
                if o::shape(&u) != (m, kk) || o::shape(&v) != (n, kk) || kk < m.min(n) {
                    return cx.viol("svd.factor", "shape", || format!("U {:?}, V {:?}, {} singular values for a {}x{} matrix", o::shape(&u), o::shape(&v), kk, m, n));
                }
                if !all_finite(&[&u, &v]) || s.iter().any(|x| !x.is_finite()) {
                    return cx.viol("svd.factor", "non-finite", || format!("s={:?} U={} V={}{}", s, fmt_mat_short(&u), fmt_mat_short(&v), cx.scale1_note(svd_defect::<T>, C_SVD)));
                }
                if sm != o::diag(&s) {
                    cx.viol("svd.factor", "S()-not-diag(s)", || format!("s={:?} S()={}", s, fmt_mat_short(&sm)));
                }
                if s.iter().any(|x| *x < 0.0) {
                    cx.viol("svd.factor", "negative-singular-value", || format!("s={:?}", s));
                }
                if s.windows(2).any(|w| w[0] < w[1]) {
                    cx.viol("svd.factor", "s-not-sorted", || format!("s={:?}", s));
                }
                let d = util::usvt_defect_max(a, &u, &s, &v);
                let tol = C_SVD * cx.k * cx.eps * cx.amax;
                if broken("svd.factor", "A=USVt", d, tol) {
                    cx.viol("svd.factor", "A!=USVt", || format!("|A-U*diag(s)*V^T|max = {:e} > {:e} = {}*max(m,n)*eps*|A|max; s={:?} U={} V={}{}", d, tol, C_SVD, s, fmt_mat_short(&u), fmt_mat_short(&v), cx.scale1_note(svd_defect::<T>, C_SVD)));
                }
                let d = util::orth_defect_max(&v);
                let tol = C_SVD * cx.k * cx.eps;
                if broken("svd.factor", "VtV=I", d, tol) {
                    cx.viol("svd.factor", "V-not-orthonormal", || format!("|V^T V - I|max = {:e} > {:e}; s={:?} V={}{}", d, tol, s, fmt_mat_short(&v), cx.scale1_note(svd_defect::<T>, C_SVD)));
                }
                if full_col {
                    let d = util::orth_defect_max(&u);
                    if broken("svd.factor", "UtU=I", d, tol) {
                        cx.viol("svd.factor", "U-not-orthonormal", || format!("|U^T U - I|max = {:e} > {:e}; s={:?} U={}{}", d, tol, s, fmt_mat_short(&u), cx.scale1_note(svd_defect::<T>, C_SVD)));
                    }
                }
                // non-vacuity proxies measured from input and output only
                if u.iter().any(|r| r.iter().any(|x| *x < 0.0)) {
                    count("svd_u_has_negative_entries");
                }
                let colnorm: Vec<f64> = (0..n).map(|j| o::norm2(&o::col(a, j))).collect();
                if colnorm.windows(2).any(|w| w[0] < w[1]) {
                    count("svd_input_columns_not_in_decreasing_norm_order");
                }
            }
        }
    } else {
        count("svd_outside_factor_domain");
    }
    if !solve_dom {
        count("svd_solve_outside_conditioning_domain");
        return;
    }
    if inp.rank < n {
        count("svd_solve_rank_deficient");
    }
    for (i, r) in rhs.iter().enumerate() {
        let bt: DenseMatrix<T> = dm(&r.b);
        let res: Lib<_> = mc::guard(|| at.clone().svd_solve_mut(bt));
        cx.judge_solve("svd.solve", r, res, true);
        if i == 0 {
            // the non-consuming entry point must satisfy the same clause
            let bt: DenseMatrix<T> = dm(&r.b);
            let res: Lib<_> = mc::guard(|| at.svd_solve(bt));
            cx.judge_solve("svd.solve", r, res, true);
        }
    }
}

/// One execution: one input at one scale in one float width.
pub fn run_case(inp: &Input, e: i32, width: u8, mode: RhsMode, chol_only: bool) {
    if width == 32 {
        run_t::<f32>(inp, e, width, mode, chol_only)
    } else {
        run_t::<f64>(inp, e, width, mode, chol_only)
    }
}

fn run_t<T: RealNumber>(inp: &Input, e: i32, width: u8, mode: RhsMode, chol_only: bool) {
    let s = pow2(e);
    let scaled: Mat = inp.base.iter().map(|r| r.iter().map(|x| x * s).collect()).collect();
    let at: DenseMatrix<T> = dm(&scaled);
    let a = rows_of(&at);
    let eps = T::epsilon().to_f64().unwrap();
    let amax = o::max_abs(&a);
    if !amax.is_finite() {
        count("input_not_finite_in_T");
        return;
    }
    let cls = input_class(inp, s, eps);
    let cx = Cx { inp, e, width, afro: util::fro(&a), amax, a, eps, k: inp.m.max(inp.n) as f64, cls };
    let rhs = rhs_list(inp, &cx.a, e, mode);
    let well = inp.cond <= COND_MAX;
    let before = mc::n_violations();
    if chol_only {
        if inp.chol != CholClass::NotSym {
            check_chol::<T>(&cx, &at, &rhs);
        }
        return;
    }
    if inp.m == inp.n && inp.rank == inp.n && well {
        check_lu::<T>(&cx, &at, &rhs);
    }
    if inp.m >= inp.n && inp.rank == inp.n && well {
        check_qr::<T>(&cx, &at, &rhs);
    }
    if inp.chol != CholClass::NotSym {
        check_chol::<T>(&cx, &at, &rhs);
    }
    check_svd::<T>(&cx, &at, &rhs);
    if !well {
        count("cond_above_1e6");
    }
    mc::nontrivial();
    if mc::sampling() {
        let viols = mc::n_violations() - before;
        mc::describe(|| {
            json!({
                "input": inp.label, "float": format!("f{}", cx.width), "scale": format!("2^{}", e),
                "A": cx.a, "rank": inp.rank, "cond": inp.cond, "singular_values_oracle": inp.sv.iter().map(|x| x * s).collect::<Vec<_>>(),
                "cholesky_class": format!("{:?}", inp.chol), "input_class": cls, "right_hand_sides": rhs.len(), "violations_in_this_case": viols,
            })
        });
    }
}
