use smartcore::linalg::naive::dense_matrix::DenseMatrix;
use smartcore::linalg::svd::SVDDecomposableMatrix;
use smartcore::linalg::BaseMatrix;
fn main() {
    let args: Vec<String> = std::env::args().skip(1).collect();
    let m: usize = args[0].parse().unwrap();
    let n: usize = args[1].parse().unwrap();
    let e: i32 = args[2].parse().unwrap();
    let vals: Vec<f64> = args[3..].iter().map(|x| x.parse::<f64>().unwrap() * 2f64.powi(e)).collect();
    let a = DenseMatrix::from_array(m, n, &vals);
    println!("A = {:?}", a);
    let svd = a.svd().unwrap();
    println!("s = {:?}\nU = {:?}\nV = {:?}", svd.s, svd.U, svd.V);
    let us = svd.U.matmul(&svd.S());
    let r = us.matmul(&svd.V.transpose());
    println!("USVt = {:?}", r);
}
