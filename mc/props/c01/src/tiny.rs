//! Matrices whose entries span many orders of magnitude: ordinary small (quarter-)integers mixed with
//! a TINY non-zero entry +-t, t = 2^-s (s = 12, 30, 40).
//!
//! Exact classification. With the common denominator D = den * T, T = 2^s, every entry is
//! (c0 + c1*T)/D with small integers c0 (tiny part) and c1 (ordinary part), i.e. a polynomial of
//! degree <= 1 in T. Every minor of the matrix is therefore a polynomial in T of degree <= 4 with
//! SMALL integer coefficients (exact in i64), although its VALUE needs up to 4*s+20 bits (it would
//! overflow a Bareiss elimination in i128 for s >= 30). Rank, null spaces and the signs of the
//! leading principal minors are decided from these polynomials:
//!   * value: evaluated exactly in i128 with checked arithmetic whenever it fits;
//!   * otherwise sign / vanishing by the leading non-zero coefficient, which is rigorous when every
//!     |coefficient| < T - 1 (asserted): |sum_{k<d} c_k T^k| <= (T-2)(T^d - 1)/(T-1) < T^d <= |c_d T^d|.
//! rank = largest order of a non-vanishing minor; null-space bases by Cramer's rule from the
//! lexicographically first non-vanishing minor of that order. `selfcheck` compares all of it with the
//! i128 toolkit of the engine on complete small alphabets (where the toolkit cannot overflow).

use crate::gen::{self, CholClass, Input};
use mc_core::oracle::{self as o, IMat, Mat};

const MAXDEG: usize = 4;
type Poly = [i64; MAXDEG + 1];

/// One matrix entry: ord/den + tiny * 2^-s (at most one of the two parts is non-zero).
#[derive(Clone, Copy, Debug, PartialEq, Eq)]
pub struct Entry {
    pub ord: i64,
    pub tiny: i64,
}

fn pmul(a: &Poly, b: &Poly) -> Poly {
    let mut r = [0i64; MAXDEG + 1];
    for i in 0..=MAXDEG {
        if a[i] == 0 {
            continue;
        }
        for j in 0..=MAXDEG {
            if b[j] != 0 {
                assert!(i + j <= MAXDEG, "tiny oracle: polynomial degree above {}", MAXDEG);
                r[i + j] += a[i] * b[j];
            }
        }
    }
    r
}

/// minor of the polynomial matrix on the given rows x columns (cofactor expansion, order <= 4)
fn minor(a: &[Vec<Poly>], rows: &[usize], cols: &[usize]) -> Poly {
    debug_assert_eq!(rows.len(), cols.len());
    match rows.len() {
        0 => [1, 0, 0, 0, 0],
        1 => a[rows[0]][cols[0]],
        k => {
            let mut acc = [0i64; MAXDEG + 1];
            let mut sub = [0usize; 4];
            for (c, &cc) in cols.iter().enumerate() {
                let e = &a[rows[0]][cc];
                if e.iter().all(|x| *x == 0) {
                    continue;
                }
                let mut w = 0;
                for (d, &dd) in cols.iter().enumerate() {
                    if d != c {
                        sub[w] = dd;
                        w += 1;
                    }
                }
                let t = pmul(e, &minor(a, &rows[1..], &sub[..k - 1]));
                for i in 0..=MAXDEG {
                    if c % 2 == 0 {
                        acc[i] += t[i];
                    } else {
                        acc[i] -= t[i];
                    }
                }
            }
            acc
        }
    }
}

fn eval(p: &Poly, s: u32) -> Option<i128> {
    let t = 1i128 << s;
    let mut v = 0i128;
    for k in (0..=MAXDEG).rev() {
        v = v.checked_mul(t)?.checked_add(p[k] as i128)?;
    }
    Some(v)
}

fn coefficient_rule_applies(p: &Poly, s: u32) {
    let mx = p.iter().map(|x| x.unsigned_abs()).max().unwrap() as u128;
    assert!(mx < (1u128 << s) - 1, "tiny oracle: coefficient {} too large for the leading-coefficient rule at T=2^{}", mx, s);
}

/// sign of p(2^s), exact
fn sign(p: &Poly, s: u32) -> i32 {
    if p.iter().all(|x| *x == 0) {
        return 0;
    }
    if let Some(v) = eval(p, s) {
        return v.signum() as i32;
    }
    coefficient_rule_applies(p, s);
    p.iter().rev().find(|x| **x != 0).unwrap().signum() as i32
}

/// p(2^s) rounded to f64 (exact value rounded once when it fits i128, else a few ulps)
fn to_f64(p: &Poly, s: u32) -> f64 {
    if let Some(v) = eval(p, s) {
        return v as f64;
    }
    coefficient_rule_applies(p, s);
    let t = 2f64.powi(s as i32);
    (0..=MAXDEG).rev().fold(0.0, |acc, k| acc + p[k] as f64 * t.powi(k as i32))
}

fn subsets(n: usize, r: usize) -> Vec<Vec<usize>> {
    (0u32..1 << n).filter(|b| b.count_ones() as usize == r).map(|b| (0..n).filter(|i| b >> i & 1 == 1).collect()).collect()
}

/// (rank, rows, cols) with a non-vanishing minor of order rank on rows x cols
fn rank_of(a: &[Vec<Poly>], s: u32) -> (usize, Vec<usize>, Vec<usize>) {
    let m = a.len();
    let n = a[0].len();
    for r in (1..=m.min(n)).rev() {
        let cs = subsets(n, r);
        for rows in subsets(m, r) {
            for cols in &cs {
                if sign(&minor(a, &rows, cols), s) != 0 {
                    return (r, rows, cols.clone());
                }
            }
        }
    }
    (0, Vec::new(), Vec::new())
}

/// Basis of {x : A x = 0} as polynomial vectors (Cramer): for every column f outside `cols`,
/// x_f = det A[rows, cols], x_cols[k] = -det A[rows, cols with the k-th column replaced by f].
fn null_polys(a: &[Vec<Poly>], rows: &[usize], cols: &[usize]) -> Vec<Vec<Poly>> {
    let n = a[0].len();
    let d = minor(a, rows, cols);
    let mut basis = Vec::new();
    for f in (0..n).filter(|j| !cols.contains(j)) {
        let mut x = vec![[0i64; MAXDEG + 1]; n];
        x[f] = d;
        for k in 0..cols.len() {
            let mut c2 = cols.to_vec();
            c2[k] = f;
            let mk = minor(a, rows, &c2);
            x[cols[k]] = mk.map(|v| -v);
        }
        basis.push(x);
    }
    basis
}

/// polynomial vector -> f64 vector scaled by a power of two so that its largest entry is in [1, 2)
fn null_f64(basis: &[Vec<Poly>], s: u32) -> Vec<Vec<f64>> {
    basis
        .iter()
        .map(|x| {
            let v: Vec<f64> = x.iter().map(|p| to_f64(p, s)).collect();
            let mx = v.iter().fold(0.0f64, |m, y| m.max(y.abs()));
            let sc = 2f64.powi(-(mx.log2().floor() as i32));
            v.iter().map(|y| y * sc).collect()
        })
        .collect()
}

fn polys_of(c: &[Vec<Entry>], den: i64) -> Vec<Vec<Poly>> {
    c.iter().map(|r| r.iter().map(|e| [e.tiny * den, e.ord, 0, 0, 0]).collect()).collect()
}

fn ptranspose(a: &[Vec<Poly>]) -> Vec<Vec<Poly>> {
    (0..a[0].len()).map(|j| (0..a.len()).map(|i| a[i][j]).collect()).collect()
}

pub fn value(e: &Entry, s: u32, den: i64) -> f64 {
    assert!(e.ord == 0 || e.tiny == 0);
    e.ord as f64 / den as f64 + e.tiny as f64 * 2f64.powi(-(s as i32))
}

/// Exact preparation of the matrix with entries c[i][j].ord/den + c[i][j].tiny * 2^-s.
pub fn prepare_tiny(label: String, c: &[Vec<Entry>], s: u32, den: i64) -> Input {
    let m = c.len();
    let n = c[0].len();
    assert!(m <= 4 && n <= 4);
    let base: Mat = c.iter().map(|r| r.iter().map(|e| value(e, s, den)).collect()).collect();
    let a = polys_of(c, den);
    let (rank, rows, cols) = rank_of(&a, s);
    let null = null_f64(&null_polys(&a, &rows, &cols), s);
    // null(A^T): the same minor, transposed
    let lnull = null_f64(&null_polys(&ptranspose(&a), &cols, &rows), s);
    assert_eq!(null.len() + rank, n);
    assert_eq!(lnull.len() + rank, m);
    let sv = o::singular_values(&base);
    let cond = if rank == 0 { 1.0 } else { sv[0] / sv[rank - 1] };
    let mut chol_cls = "not-symmetric";
    let (chol, lam_min, lam_max_abs) = if m == n && crate::util::is_symmetric(&base) {
        let idx: Vec<usize> = (0..n).collect();
        let minors: Vec<i32> = (1..=n).map(|k| sign(&minor(&a, &idx[..k], &idx[..k]), s)).collect();
        chol_cls = match minors.iter().find(|d| **d <= 0) {
            None => "positive-definite",
            Some(0) => "first-nonpositive-leading-minor-is-zero",
            Some(_) => "first-nonpositive-leading-minor-is-negative",
        };
        if minors.iter().all(|d| *d > 0) {
            (CholClass::Spd, sv[n - 1], sv[0])
        } else {
            let (cl, lo, hi) = gen::chol_class_float(&base, false);
            (if cl == CholClass::Spd { CholClass::Unconstrained } else { cl }, lo, hi)
        }
    } else {
        (CholClass::NotSym, 0.0, 0.0)
    };
    Input { label, m, n, base, rank, null, null_exact: true, lnull: Some(lnull), sv, cond, chol, lam_min, lam_max_abs, chol_cls }
}

/// The exact Gram matrix G^T G of a full-column-rank `c` as integers over (den * 2^s)^2
/// (entries are polynomials of degree 2 in T: at most 2*40+12 bits).
pub fn gram_int(c: &[Vec<Entry>], s: u32, den: i64) -> (IMat, i128) {
    let a = polys_of(c, den);
    let n = a[0].len();
    let g: IMat = (0..n)
        .map(|i| {
            (0..n)
                .map(|j| {
                    let mut acc = [0i64; MAXDEG + 1];
                    for row in &a {
                        let t = pmul(&row[i], &row[j]);
                        for k in 0..=MAXDEG {
                            acc[k] += t[k];
                        }
                    }
                    eval(&acc, s).expect("tiny oracle: Gram entry does not fit i128")
                })
                .collect()
        })
        .collect();
    let d = den as i128 * (1i128 << s);
    (g, d * d)
}

// ------------------------------------------------------------------------------------------------

/// Start-up self-check: the polynomial-minor machinery against the engine's i128 toolkit.
///  * T = 2^12 (no overflow possible in the toolkit): every 3x3 matrix over {0,1,t} and {1,-1,-t},
///    every 2x3 and 3x2 matrix over {0,1,-1,t}: same rank, A z = 0 exactly for every null vector
///    (evaluated in i128), same signs of the leading principal minors;
///  * T = 2^30 and 2^40: sign of the 3x3 determinant over {0,1,t} against Bareiss (2^30; fits i128)
///    and agreement of the rank at 2^30 and 2^40 with the rank at 2^12 (generic rank over Q(T)).
pub fn selfcheck() -> Result<(), String> {
    let al1 = [Entry { ord: 0, tiny: 0 }, Entry { ord: 1, tiny: 0 }, Entry { ord: 0, tiny: 1 }];
    let al2 = [Entry { ord: 1, tiny: 0 }, Entry { ord: -1, tiny: 0 }, Entry { ord: 0, tiny: -1 }];
    let al4 = [Entry { ord: 0, tiny: 0 }, Entry { ord: 1, tiny: 0 }, Entry { ord: -1, tiny: 0 }, Entry { ord: 0, tiny: 1 }];
    let specs: [(usize, usize, &[Entry]); 4] = [(3, 3, &al1), (3, 3, &al2), (2, 3, &al4), (3, 2, &al4)];
    for (m, n, al) in specs {
        let mut err: Option<String> = None;
        o::for_each_tuple(al, m * n, |t| {
            if err.is_some() {
                return;
            }
            let c: Vec<Vec<Entry>> = (0..m).map(|i| t[i * n..(i + 1) * n].to_vec()).collect();
            let s = 12u32;
            let ai: IMat = c.iter().map(|r| r.iter().map(|e| e.ord as i128 * (1 << s) + e.tiny as i128).collect()).collect();
            let a = polys_of(&c, 1);
            let (rank, rows, cols) = rank_of(&a, s);
            if rank != o::irank(&ai) {
                err = Some(format!("rank {} != toolkit rank {} for {:?}", rank, o::irank(&ai), c));
                return;
            }
            for (basis, mat) in [(null_polys(&a, &rows, &cols), ai.clone()), (null_polys(&ptranspose(&a), &cols, &rows), gen::itranspose(&ai))] {
                for z in &basis {
                    let zi: Vec<i128> = z.iter().map(|p| eval(p, s).unwrap()).collect();
                    if zi.iter().all(|x| *x == 0) || mat.iter().any(|r| r.iter().zip(&zi).map(|(x, y)| x * y).sum::<i128>() != 0) {
                        err = Some(format!("null vector {:?} is wrong for {:?}", zi, c));
                        return;
                    }
                }
            }
            if m == n {
                let idx: Vec<usize> = (0..n).collect();
                let mine: Vec<i32> = (1..=n).map(|k| sign(&minor(&a, &idx[..k], &idx[..k]), s)).collect();
                let theirs: Vec<i32> = o::ileading_minors(&ai).iter().map(|d| d.signum() as i32).collect();
                if mine != theirs {
                    err = Some(format!("leading minor signs {:?} != {:?} for {:?}", mine, theirs, c));
                    return;
                }
                for s2 in [30u32, 40] {
                    if rank_of(&a, s2).0 != rank {
                        err = Some(format!("rank at T=2^{} differs from rank at 2^12 for {:?}", s2, c));
                        return;
                    }
                }
                let a30: IMat = c.iter().map(|r| r.iter().map(|e| e.ord as i128 * (1 << 30) + e.tiny as i128).collect()).collect();
                if o::idet(&a30).signum() as i32 != sign(&minor(&a, &idx, &idx), 30) {
                    err = Some(format!("determinant sign at T=2^30 differs from Bareiss for {:?}", c));
                }
            }
        });
        if let Some(e) = err {
            return Err(format!("tiny oracle: {}", e));
        }
    }
    Ok(())
}
