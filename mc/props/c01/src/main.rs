//! C01 — LU, QR, Cholesky and SVD factors multiply back to the input and solve A*X = B.
//!
//! E1 (stateless choice-tree exploration) over
//!   * the lattice: EVERY m x n matrix over a small integer alphabet (general, symmetric, 4x4
//!     Hessenberg/ternary), at power-of-two scales 2^-40 .. 2^40, in f64 and f32;
//!   * the structured families of DESIGN §3 for n up to 40 in six aspects (square, three tall,
//!     two wide), every member, every scale, both widths;
//!   * a catalogue of right-hand sides B = A*X0 (+ a part outside range(A)) with 1..4 columns.
//! One execution = one (matrix, scale, float width); the right-hand-side catalogue is an inner
//! loop of that execution. The oracle (check.rs) is definition-level: residuals, exact
//! triangularity, permutation, orthonormality, ordering, normal equations, orthogonality to the
//! exact null space. Rank, null spaces and definiteness come from exact integer elimination.

mod check;
mod gen;
mod util;

use check::RhsMode;
use gen::{Input, Perturb};
use mc_core::oracle::IMat;
use mc_core::{self as mc, json, Harness, Job, Plan, Tier, Value};
use std::cell::RefCell;

struct C01;

const S2: &[i64] = &[0, 1];
const S2PM: &[i64] = &[1, -1];
const S3: &[i64] = &[0, 1, -1];
const S4: &[i64] = &[0, 1, -1, 2];
const S5: &[i64] = &[0, 1, -1, 2, -2];
const D6: &[i64] = &[0, 1, -1, 2, 3, 4];
const D3: &[i64] = &[1, 2, 0];

thread_local! {
    static FAM_CACHE: RefCell<Option<(String, Option<Input>)>> = RefCell::new(None);
}

fn rhs_mode(job: &Job) -> RhsMode {
    match job.params["rhs"].as_str() {
        Some("full") => RhsMode::Full,
        Some("two") => RhsMode::Two,
        _ => RhsMode::PerWidth,
    }
}

fn ints(v: &Value) -> Vec<i64> {
    v.as_array().map(|a| a.iter().map(|x| x.as_i64().unwrap()).collect()).unwrap_or_default()
}

/// positions of a lattice job that are free (not structurally zero)
fn free_positions(job: &Job, m: usize, n: usize) -> Vec<(usize, usize)> {
    let shape = job.params["pattern"].as_str().unwrap_or("full");
    let mut v = Vec::new();
    for i in 0..m {
        for j in 0..n {
            let keep = match shape {
                "full" => true,
                "sym" => j <= i,
                // upper Hessenberg: entries below the first subdiagonal are zero
                "hess" => i <= j + 1,
                other => panic!("unknown pattern {}", other),
            };
            if keep {
                v.push((i, j));
            }
        }
    }
    v
}

fn lattice_case(job: &Job) {
    let (m, n) = (job.u("m"), job.u("n"));
    let alpha = ints(&job.params["alpha"]);
    let dalpha = {
        let d = ints(&job.params["dalpha"]);
        if d.is_empty() {
            alpha.clone()
        } else {
            d
        }
    };
    let pre = ints(&job.params["pre"]);
    let pert = Perturb { mul: job.i("mul") as i128, add_q: job.i("add") as i128 };
    let sym = job.params["pattern"].as_str() == Some("sym");
    let pos = free_positions(job, m, n);
    let mut q: IMat = vec![vec![pert.apply(0); n]; m];
    if job.params["pattern"].as_str() == Some("hess") {
        // structural zeros stay exact zeros under every perturbation
        q = vec![vec![0; n]; m];
    }
    for (idx, &(i, j)) in pos.iter().enumerate() {
        let al = if sym && i == j { &dalpha } else { &alpha };
        let k = if idx < pre.len() { pre[idx] as usize } else { mc::choose(al.len()) };
        let v = pert.apply(al[k]);
        q[i][j] = v;
        if sym {
            q[j][i] = v;
        }
    }
    let e = job.i("e") as i32;
    let w = job.u("w") as u8;
    let inp = gen::prepare_int(format!("lattice({}x{},{})", m, n, job.params["pattern"].as_str().unwrap_or("full")), &q, pert.den());
    check::run_case(&inp, e, w, rhs_mode(job), false);
    // the Gram matrix of a full-column-rank lattice matrix is an exactly known SPD input for Cholesky
    if job.b("gram") && inp.rank == n && n >= 2 {
        let mut g: IMat = vec![vec![0; n]; n];
        for i in 0..n {
            for j in 0..n {
                g[i][j] = (0..m).map(|k| q[k][i] * q[k][j]).sum();
            }
        }
        let gi = gen::prepare_gram(format!("gram-of-lattice({}x{})", m, n), &g, pert.den() * pert.den(), &inp);
        check::run_case(&gi, e, w, rhs_mode(job), true);
    }
}

fn family_case(job: &Job) {
    let fam = gen::family(job.s("fam"));
    let n = job.u("n");
    let variant = mc::choose((fam.variants)(n));
    let aspect = mc::pick(fam.aspects);
    let scales: Vec<i32> = ints(&job.params["scales"]).into_iter().map(|x| x as i32).collect();
    let key = format!("{}|{}|{}|{}", fam.name, n, variant, aspect);
    let hit = FAM_CACHE.with(|c| c.borrow().as_ref().map(|(k, _)| *k == key).unwrap_or(false));
    if !hit {
        let built = gen::build(fam.name, n, variant, aspect);
        FAM_CACHE.with(|c| *c.borrow_mut() = Some((key, built)));
    }
    let inp = FAM_CACHE.with(|c| c.borrow().as_ref().unwrap().1.clone());
    let Some(inp) = inp else {
        util::count("family_member_absent");
        return;
    };
    let e = mc::pick(&scales);
    let w = mc::pick(&[64u8, 32u8]);
    let mode = if inp.m * inp.n <= 36 { RhsMode::Full } else { RhsMode::PerWidth };
    util::count("family_cases");
    check::run_case(&inp, e, w, mode, false);
}

fn lattice_jobs(jobs: &mut Vec<Job>, pert: Perturb, m: usize, n: usize, pattern: &str, alpha: &[i64], dalpha: &[i64], scales: &[i32], widths: &[u8], shard: usize, rhs: &str, gram: bool) {
    let probe = Job::new("", json!({"pattern": pattern}));
    let npos = free_positions(&probe, m, n).len();
    let sym = pattern == "sym";
    let shard = shard.min(npos);
    // alphabet sizes of the leading `shard` positions
    let pos = free_positions(&probe, m, n);
    let sizes: Vec<usize> = pos.iter().take(shard).map(|&(i, j)| if sym && i == j && !dalpha.is_empty() { dalpha.len() } else { alpha.len() }).collect();
    let mut prefixes: Vec<Vec<i64>> = vec![vec![]];
    for s in sizes {
        prefixes = prefixes.into_iter().flat_map(|p| (0..s as i64).map(move |k| { let mut q = p.clone(); q.push(k); q })).collect();
    }
    for &e in scales {
        for &w in widths {
            for pre in &prefixes {
                let name = format!("lat-{}-{}x{}-a{}{}-f{}-e{}-p{}", pattern, m, n, alpha.len(), if alpha.contains(&0) { "" } else { "nz" }, w, e, pre.iter().map(|k| k.to_string()).collect::<String>());
                jobs.push(Job::new(
                    name,
                    json!({"kind": "lat", "m": m, "n": n, "pattern": pattern, "alpha": alpha, "dalpha": dalpha, "pre": pre, "e": e, "w": w,
                           "mul": pert.mul as i64, "add": pert.add_q as i64, "rhs": rhs, "gram": gram}),
                ));
            }
        }
    }
}

impl Harness for C01 {
    fn id(&self) -> &'static str {
        "C01"
    }

    fn plan(&self, tier: Tier, seed: u64) -> Plan {
        let t = tier.is_thorough();
        let pert = gen::perturb_of_seed(seed);
        let scales: Vec<i32> = if t { gen::ALL_SCALES.to_vec() } else { gen::quick_scales(seed) };
        let both = [64u8, 32u8];
        let mut jobs = Vec::new();
        let alpha = if t { S5 } else { S4 };
        let rhs_lat = if t { "pw" } else { "two" };
        // 1. the general lattice, every shape up to 3x3
        let mut shapes: Vec<(usize, usize)> = (1..=3).flat_map(|m| (1..=3).map(move |n| (m, n))).collect();
        shapes.sort_by_key(|&(m, n)| (m * n, m));
        for &(m, n) in &shapes {
            let shard = if m * n == 9 { 2 } else { 0 };
            lattice_jobs(&mut jobs, pert, m, n, "full", alpha, &[], &scales, &both, shard, rhs_lat, true);
        }
        // 2. symmetric lattice (Cholesky: positive definite must succeed, clearly indefinite must be refused)
        for n in 1..=3 {
            lattice_jobs(&mut jobs, pert, n, n, "sym", S5, D6, &scales, &both, if n == 3 { 1 } else { 0 }, "pw", false);
        }
        if t {
            lattice_jobs(&mut jobs, pert, 4, 4, "sym", S3, D6, &scales, &both, 2, "pw", false);
            lattice_jobs(&mut jobs, pert, 4, 4, "sym", S5, D6, &scales[..1], &both, 4, "two", false);
            lattice_jobs(&mut jobs, pert, 5, 5, "sym", S3, D3, &scales[..1], &[64], 5, "two", false);
        } else {
            lattice_jobs(&mut jobs, pert, 4, 4, "sym", S3, D3, &scales[..1], &both, 2, "two", false);
        }
        // 3. 4-row / 4-column shapes
        for &(m, n) in &[(4usize, 1usize), (1, 4)] {
            lattice_jobs(&mut jobs, pert, m, n, "full", alpha, &[], &scales, &both, 0, rhs_lat, true);
        }
        for &(m, n) in &[(4usize, 2usize), (2, 4)] {
            lattice_jobs(&mut jobs, pert, m, n, "full", if t { S5 } else { S3 }, &[], &scales, &both, if t { 2 } else { 0 }, rhs_lat, true);
        }
        lattice_jobs(&mut jobs, pert, 4, 4, "full", S2, &[], &scales[..1], &both, 2, "two", true);
        lattice_jobs(&mut jobs, pert, 4, 4, "full", S2PM, &[], &scales[..1], &both, 2, "two", true);
        if t {
            for &(m, n) in &[(4usize, 3usize), (3, 4)] {
                lattice_jobs(&mut jobs, pert, m, n, "full", S3, &[], &scales, &both, 3, "two", true);
            }
            lattice_jobs(&mut jobs, pert, 4, 4, "hess", S3, &[], &scales[1..], &both, 3, "two", true);
            lattice_jobs(&mut jobs, pert, 4, 4, "full", S3, &[], &scales[..1], &both, 6, "two", true);
        } else {
            for &(m, n) in &[(4usize, 3usize), (3, 4)] {
                lattice_jobs(&mut jobs, pert, m, n, "full", S2, &[], &scales, &both, 0, "two", true);
            }
        }
        // 4. structured families
        let nmax = if t { 40 } else { 12 };
        // quick tier: every order up to 12, plus a few orders well beyond (iteration limits, block
        // sizes and sweep counters only show at larger orders)
        let orders: Vec<usize> = if t { (1..=40).collect() } else { (1..=12).chain([16usize, 20, 24, 32, 40]).collect() };
        for n in orders {
            for f in gen::FAMILIES {
                if n >= f.min_n && n <= f.max_n {
                    jobs.push(Job::new(format!("fam-{}-n{}", f.name, n), json!({"kind": "fam", "fam": f.name, "n": n, "scales": scales})));
                }
            }
        }
        Plan {
            jobs,
            budget_s: if t { 2700 } else { 40 },
            case_deadline_ms: 20_000,
            floors: vec![
                ("lu_cases", 100_000),
                ("lu_pivoted", 50_000),
                ("qr_cases", 100_000),
                ("qr_tall", 10_000),
                ("qr_negative_diagonal_branch", 50_000),
                ("qr_positive_diagonal_branch", 50_000),
                ("chol_spd", 100_000),
                ("chol_must_refuse", 10_000),
                ("chol_refused", 10_000),
                ("svd_factor_cases", 100_000),
                ("svd_wide", 10_000),
                ("svd_tall", 10_000),
                ("svd_solve_rank_deficient", 10_000),
                ("svd_zero_column", 500),
                ("svd_zero_row", 500),
                ("svd_input_columns_not_in_decreasing_norm_order", 10_000),
                ("svd_u_has_negative_entries", 10_000),
                ("ls_checked", 100_000),
                ("min_norm_checked", 10_000),
                ("family_cases", 10_000),
            ],
            bounds: json!({
                "alphabet_perturbation_of_seed": pert.describe(),
                "scales_log2": scales,
                "float_widths": ["f64", "f32"],
                "lattice_general": format!("every m x n matrix, 1<=m,n<=3, over {:?}; 4x1,1x4 over the same; 4x2,2x4 over {:?}; 4x4 over {{0,1}} and {{1,-1}} (scale 1){}", alpha, if t { S5 } else { S3 }, if t { "; 4x3, 3x4 over {0,1,-1}; 4x4 over {0,1,-1} (scale 1); 4x4 upper Hessenberg over {0,1,-1} at the other scales" } else { "; 4x3, 3x4 over {0,1}" }),
                "lattice_symmetric": format!("every symmetric n x n, n<=3, off-diagonal over {:?}, diagonal over {:?}; {}", S5, D6, if t { "4x4 off-diagonal {0,1,-1} x diagonal {0,1,-1,2,3,4} at all scales; 4x4 off-diagonal {0,1,-1,2,-2} x the same diagonal (scale 1); 5x5 off-diagonal {0,1,-1} diagonal {1,2,0} (scale 1, f64)" } else { "4x4 off-diagonal {0,1,-1} diagonal {1,2,0} (scale 1)" }),
                "gram": "for every full-column-rank lattice matrix G also the SPD matrix G^T G (Cholesky clauses only)",
                "families": format!("{} structured families, n = 1..{} (quick: also 16, 20, 24, 32, 40), every variant, aspects sq/t1/t5/t2n/w1/w5, every scale, both widths", gen::FAMILIES.len(), nmax),
                "right_hand_sides": "B = A*X0, X0 over {0,1,-1} patterns with 1..4 columns (full catalogue: 3 patterns per width; 'pw': one per width; 'two': p=1 and p=3), each also with a component outside range(A) for tall / rank-deficient A",
                "conditioning": "clauses demanded only for cond_2(A) <= 1e6 (oracle one-sided Jacobi); cond-sensitive clauses additionally only when max(m,n)*eps_T*cond <= 1/64",
            }),
        }
    }

    fn run(&self, job: &Job) {
        match job.kind() {
            "lat" => lattice_case(job),
            "fam" => family_case(job),
            other => panic!("unknown job kind {}", other),
        }
    }

    fn rule(&self) -> String {
        "one execution = one (matrix, scale, float width) with its right-hand-side catalogue; every execution is non-trivial (at least the SVD is computed); distinct = distinct digest of the bits of all returned factors and solutions".into()
    }

    fn assumptions(&self) -> Vec<String> {
        vec![
            "rank, null spaces, definiteness of lattice inputs come from exact i128 elimination; condition numbers from the oracle's one-sided Jacobi SVD".into(),
            "for tall A the solvers return B overwritten (m rows); the solution is read from the leading n rows, as the library's own callers do".into(),
            "power-of-two scaling and the integer / quarter-integer alphabets are exact in f32 and f64".into(),
            "no RNG is involved in the code under test (DenseMatrix::rand is not on any explored path)".into(),
        ]
    }
}

fn main() {
    // the parent process checks the harness' own exact arithmetic before anything is explored
    if !std::env::args().any(|a| a == "--worker" || a == "--replay") {
        if let Err(e) = gen::selfcheck() {
            eprintln!("MACHINERY-ERROR: C01 oracle self-check failed: {}", e);
            std::process::exit(2);
        }
    }
    mc::main(C01)
}
