//! C01 — LU, QR, Cholesky and SVD factors multiply back to the input and solve A*X = B.
//!
//! E1 (stateless choice-tree exploration) over
//!   * the lattice: EVERY m x n matrix over a small integer alphabet (general, symmetric, 4x4
//!     Hessenberg/ternary), at power-of-two scales 2^-40 .. 2^40, in f64 and f32;
//!   * the structured families of DESIGN §3 for n up to 40 in six aspects (square, three tall,
//!     two wide), every member, every scale, both widths;
//!   * matrices whose entries span many orders of magnitude (round-2 extension): every 3x3 matrix over
//!     {0,1,-1,t} and {0,1,2,-t} with a TINY entry t = 2^-30 (f64) / 2^-12 (f32) (thorough: also
//!     2^-40, 3x4 / 4x3 over {0,1,t}, {1,-1,-t}) and 4x4 matrices P*(I + extra + tiny fill);
//!   * a catalogue of right-hand sides B = A*X0 (+ a part outside range(A)) with 1..4 columns.
//! One execution = one (matrix, scale, float width); the right-hand-side catalogue is an inner
//! loop of that execution. The oracle (check.rs) is definition-level: residuals, exact
//! triangularity, permutation, orthonormality, ordering, normal equations, orthogonality to the
//! exact null space. Rank, null spaces and definiteness come from exact integer elimination.

mod check;
mod gen;
mod tiny;
mod util;

use check::RhsMode;
use gen::{Input, Perturb};
use mc_core::oracle::IMat;
use mc_core::{self as mc, json, Harness, Job, Plan, Tier, Value};
use std::cell::RefCell;

struct C01;

const S2: &[i64] = &[0, 1];
const S2PM: &[i64] = &[1, -1];
const S3: &[i64] = &[0, 1, -1];
const S4: &[i64] = &[0, 1, -1, 2];
const S5: &[i64] = &[0, 1, -1, 2, -2];
const D6: &[i64] = &[0, 1, -1, 2, 3, 4];
const D3: &[i64] = &[1, 2, 0];

thread_local! {
    static FAM_CACHE: RefCell<Option<(String, Option<Input>)>> = RefCell::new(None);
}

fn rhs_mode(job: &Job) -> RhsMode {
    match job.params["rhs"].as_str() {
        Some("full") => RhsMode::Full,
        Some("two") => RhsMode::Two,
        _ => RhsMode::PerWidth,
    }
}

fn ints(v: &Value) -> Vec<i64> {
    v.as_array().map(|a| a.iter().map(|x| x.as_i64().unwrap()).collect()).unwrap_or_default()
}

/// positions of a lattice job that are free (not structurally zero)
fn free_positions(job: &Job, m: usize, n: usize) -> Vec<(usize, usize)> {
    let shape = job.params["pattern"].as_str().unwrap_or("full");
    let mut v = Vec::new();
    for i in 0..m {
        for j in 0..n {
            let keep = match shape {
                "full" => true,
                "sym" => j <= i,
                // upper Hessenberg: entries below the first subdiagonal are zero
                "hess" => i <= j + 1,
                other => panic!("unknown pattern {}", other),
            };
            if keep {
                v.push((i, j));
            }
        }
    }
    v
}

fn lattice_case(job: &Job) {
    let (m, n) = (job.u("m"), job.u("n"));
    let alpha = ints(&job.params["alpha"]);
    let dalpha = {
        let d = ints(&job.params["dalpha"]);
        if d.is_empty() {
            alpha.clone()
        } else {
            d
        }
    };
    let pre = ints(&job.params["pre"]);
    let pert = Perturb { mul: job.i("mul") as i128, add_q: job.i("add") as i128 };
    let sym = job.params["pattern"].as_str() == Some("sym");
    let pos = free_positions(job, m, n);
    let mut q: IMat = vec![vec![pert.apply(0); n]; m];
    if job.params["pattern"].as_str() == Some("hess") {
        // structural zeros stay exact zeros under every perturbation
        q = vec![vec![0; n]; m];
    }
    for (idx, &(i, j)) in pos.iter().enumerate() {
        let al = if sym && i == j { &dalpha } else { &alpha };
        let k = if idx < pre.len() { pre[idx] as usize } else { mc::choose(al.len()) };
        let v = pert.apply(al[k]);
        q[i][j] = v;
        if sym {
            q[j][i] = v;
        }
    }
    let e = job.i("e") as i32;
    let w = job.u("w") as u8;
    let inp = gen::prepare_int(format!("lattice({}x{},{})", m, n, job.params["pattern"].as_str().unwrap_or("full")), &q, pert.den());
    check::run_case(&inp, e, w, rhs_mode(job), false);
    // the Gram matrix of a full-column-rank lattice matrix is an exactly known SPD input for Cholesky
    if job.b("gram") && inp.rank == n && n >= 2 {
        let mut g: IMat = vec![vec![0; n]; n];
        for i in 0..n {
            for j in 0..n {
                g[i][j] = (0..m).map(|k| q[k][i] * q[k][j]).sum();
            }
        }
        let gi = gen::prepare_gram(format!("gram-of-lattice({}x{})", m, n), &g, pert.den() * pert.den(), &inp);
        check::run_case(&gi, e, w, rhs_mode(job), true);
    }
}

/// letters of a tiny-lattice alphabet: [0, v] = the ordinary (perturbed) value v, [1, sg] = sg * t
fn tiny_letter(l: &Value, pert: Perturb) -> tiny::Entry {
    let v = l[1].as_i64().unwrap();
    if l[0].as_i64() == Some(1) {
        tiny::Entry { ord: 0, tiny: v }
    } else {
        tiny::Entry { ord: pert.apply(v) as i64, tiny: 0 }
    }
}

/// Judge one matrix of the wide-dynamic-range families (scale 1) and keep the non-vacuity counters.
fn tiny_run(label: String, c: &[Vec<tiny::Entry>], s: u32, den: i64, w: u8, mode: RhsMode, gram: bool) {
    let inp = tiny::prepare_tiny(label, c, s, den);
    let (m, n) = (inp.m, inp.n);
    util::count("tiny_cases");
    if inp.cond <= check::COND_MAX {
        util::count("tiny_cases_cond_le_1e6");
        if m == n && inp.rank == n {
            util::count("tiny_lu_cases");
            // the diagonal candidate of the first column is +-t and an ordinary non-zero entry lies
            // below it: partial pivoting has to look past the tiny non-zero entry
            if c[0][0].tiny != 0 && (1..m).any(|i| c[i][0].ord != 0) {
                util::count("tiny_lu_tiny_diagonal_candidate_must_lose");
            }
        }
        if inp.rank < n {
            util::count("tiny_rank_deficient_in_domain");
        }
    }
    check::run_case(&inp, 0, w, mode, false);
    if gram && inp.rank == n && n >= 2 {
        let (g, d2) = tiny::gram_int(c, s, den);
        let gi = gen::prepare_gram(format!("gram-of-{}", inp.label), &g, d2, &inp);
        check::run_case(&gi, 0, w, mode, true);
    }
}

fn tiny_lattice_case(job: &Job) {
    let (m, n) = (job.u("m"), job.u("n"));
    let pert = Perturb { mul: job.i("mul") as i128, add_q: job.i("add") as i128 };
    let letters: Vec<tiny::Entry> = job.params["letters"].as_array().unwrap().iter().map(|l| tiny_letter(l, pert)).collect();
    let pre = ints(&job.params["pre"]);
    let s = job.u("s") as u32;
    let mut c = vec![vec![letters[0]; n]; m];
    let mut has_tiny = false;
    for idx in 0..m * n {
        let k = if idx < pre.len() { pre[idx] as usize } else { mc::choose(letters.len()) };
        c[idx / n][idx % n] = letters[k];
        has_tiny |= letters[k].tiny != 0;
    }
    if !has_tiny {
        // a matrix without any tiny entry belongs to the plain lattice (same perturbation) already
        util::count("tiny_skipped_no_tiny_entry");
        return;
    }
    tiny_run(format!("tiny-lattice({}x{},t=2^-{})", m, n, s), &c, s, pert.den() as i64, job.u("w") as u8, rhs_mode(job), true);
}

/// 4x4: P * (I + one extra off-diagonal entry in {1,-1,t} + tiny fill), the fill being t at ONE other
/// off-diagonal position (11 choices) or at EVERY other off-diagonal position.
fn tiny_fam4_case(job: &Job) {
    let pert = Perturb { mul: job.i("mul") as i128, add_q: job.i("add") as i128 };
    let s = job.u("s") as u32;
    let perm = &o_permutations4()[job.u("perm")];
    let ord = |v: i64| tiny::Entry { ord: pert.apply(v) as i64, tiny: 0 };
    let t = tiny::Entry { ord: 0, tiny: 1 };
    let off: Vec<(usize, usize)> = (0..4).flat_map(|i| (0..4).filter(move |j| *j != i).map(move |j| (i, j))).collect();
    let ep = mc::choose(off.len());
    let ev = mc::pick(&[0usize, 1, 2]);
    let fill = mc::choose(off.len());
    let mut b = vec![vec![ord(0); 4]; 4];
    for i in 0..4 {
        b[i][i] = ord(1);
    }
    b[off[ep].0][off[ep].1] = [ord(1), ord(-1), t][ev];
    let others: Vec<(usize, usize)> = off.iter().copied().filter(|p| *p != off[ep]).collect();
    if fill < others.len() {
        b[others[fill].0][others[fill].1] = t;
    } else {
        for &(i, j) in &others {
            b[i][j] = t;
        }
    }
    let c: Vec<Vec<tiny::Entry>> = (0..4).map(|i| b[perm[i]].clone()).collect();
    util::count("tiny_fam4_cases");
    tiny_run(format!("tiny-perm4(perm={:?},extra={:?}:{},fill={},t=2^-{})", perm, off[ep], ["1", "-1", "t"][ev], if fill < others.len() { format!("{:?}", others[fill]) } else { "all".into() }, s), &c, s, pert.den() as i64, job.u("w") as u8, RhsMode::Full, true);
}

fn o_permutations4() -> Vec<Vec<usize>> {
    mc_core::oracle::permutations(4)
}

/// (t exponent s, width) pairs of the wide-dynamic-range families
fn tiny_exponents(thorough: bool) -> Vec<(u32, u8)> {
    if thorough {
        vec![(30, 64), (12, 32), (40, 64), (40, 32)]
    } else {
        vec![(30, 64), (12, 32)]
    }
}

fn tiny_jobs(jobs: &mut Vec<Job>, pert: Perturb, thorough: bool) {
    // letters: [0, v] ordinary value v, [1, sg] = sg*t
    let a1 = json!([[0, 0], [0, 1], [0, -1], [1, 1]]);
    let a2 = json!([[0, 0], [0, 1], [0, 2], [1, -1]]);
    let b1 = json!([[0, 0], [0, 1], [1, 1]]);
    let b2 = json!([[0, 1], [0, -1], [1, -1]]);
    let mut spaces: Vec<(usize, usize, &str, &Value, usize, &str)> = vec![(3, 3, "01mt", &a1, 2, if thorough { "pw" } else { "two" }), (3, 3, "012mt", &a2, 2, if thorough { "pw" } else { "two" })];
    if thorough {
        for &(m, n) in &[(4usize, 3usize), (3, 4)] {
            spaces.push((m, n, "01t", &b1, 3, "two"));
            spaces.push((m, n, "1m1mt", &b2, 3, "two"));
        }
    }
    for &(m, n, tag, letters, shard, rhs) in &spaces {
        let k = letters.as_array().unwrap().len();
        let mut prefixes: Vec<Vec<i64>> = vec![vec![]];
        for _ in 0..shard {
            prefixes = prefixes.into_iter().flat_map(|p| (0..k as i64).map(move |x| { let mut q = p.clone(); q.push(x); q })).collect();
        }
        for &(s, w) in &tiny_exponents(thorough) {
            for pre in &prefixes {
                let name = format!("tiny-lat-{}x{}-{}-f{}-t{}-p{}", m, n, tag, w, s, pre.iter().map(|x| x.to_string()).collect::<String>());
                jobs.push(Job::new(name, json!({"kind": "tiny", "m": m, "n": n, "letters": letters, "pre": pre, "s": s, "w": w, "mul": pert.mul as i64, "add": pert.add_q as i64, "rhs": rhs})));
            }
        }
    }
    for &(s, w) in &tiny_exponents(thorough) {
        for perm in 0..24 {
            jobs.push(Job::new(format!("tiny-perm4-f{}-t{}-perm{}", w, s, perm), json!({"kind": "tiny4", "perm": perm, "s": s, "w": w, "mul": pert.mul as i64, "add": pert.add_q as i64})));
        }
    }
}

fn family_case(job: &Job) {
    let fam = gen::family(job.s("fam"));
    let n = job.u("n");
    let variant = mc::choose((fam.variants)(n));
    let aspect = mc::pick(fam.aspects);
    let scales: Vec<i32> = ints(&job.params["scales"]).into_iter().map(|x| x as i32).collect();
    let key = format!("{}|{}|{}|{}", fam.name, n, variant, aspect);
    let hit = FAM_CACHE.with(|c| c.borrow().as_ref().map(|(k, _)| *k == key).unwrap_or(false));
    if !hit {
        let built = gen::build(fam.name, n, variant, aspect);
        FAM_CACHE.with(|c| *c.borrow_mut() = Some((key, built)));
    }
    let inp = FAM_CACHE.with(|c| c.borrow().as_ref().unwrap().1.clone());
    let Some(inp) = inp else {
        util::count("family_member_absent");
        return;
    };
    let e = mc::pick(&scales);
    let w = mc::pick(&[64u8, 32u8]);
    let mode = if inp.m * inp.n <= 36 { RhsMode::Full } else { RhsMode::PerWidth };
    util::count("family_cases");
    check::run_case(&inp, e, w, mode, false);
}

fn lattice_jobs(jobs: &mut Vec<Job>, pert: Perturb, m: usize, n: usize, pattern: &str, alpha: &[i64], dalpha: &[i64], scales: &[i32], widths: &[u8], shard: usize, rhs: &str, gram: bool) {
    let probe = Job::new("", json!({"pattern": pattern}));
    let npos = free_positions(&probe, m, n).len();
    let sym = pattern == "sym";
    let shard = shard.min(npos);
    // alphabet sizes of the leading `shard` positions
    let pos = free_positions(&probe, m, n);
    let sizes: Vec<usize> = pos.iter().take(shard).map(|&(i, j)| if sym && i == j && !dalpha.is_empty() { dalpha.len() } else { alpha.len() }).collect();
    let mut prefixes: Vec<Vec<i64>> = vec![vec![]];
    for s in sizes {
        prefixes = prefixes.into_iter().flat_map(|p| (0..s as i64).map(move |k| { let mut q = p.clone(); q.push(k); q })).collect();
    }
    for &e in scales {
        for &w in widths {
            for pre in &prefixes {
                let name = format!("lat-{}-{}x{}-a{}{}-f{}-e{}-p{}", pattern, m, n, alpha.len(), if alpha.contains(&0) { "" } else { "nz" }, w, e, pre.iter().map(|k| k.to_string()).collect::<String>());
                jobs.push(Job::new(
                    name,
                    json!({"kind": "lat", "m": m, "n": n, "pattern": pattern, "alpha": alpha, "dalpha": dalpha, "pre": pre, "e": e, "w": w,
                           "mul": pert.mul as i64, "add": pert.add_q as i64, "rhs": rhs, "gram": gram}),
                ));
            }
        }
    }
}

impl Harness for C01 {
    fn id(&self) -> &'static str {
        "C01"
    }

    fn plan(&self, tier: Tier, seed: u64) -> Plan {
        let t = tier.is_thorough();
        let pert = gen::perturb_of_seed(seed);
        let scales: Vec<i32> = if t { gen::ALL_SCALES.to_vec() } else { gen::quick_scales(seed) };
        let both = [64u8, 32u8];
        let mut jobs = Vec::new();
        let alpha = if t { S5 } else { S4 };
        let rhs_lat = if t { "pw" } else { "two" };
        // 1. the general lattice, every shape up to 3x3
        let mut shapes: Vec<(usize, usize)> = (1..=3).flat_map(|m| (1..=3).map(move |n| (m, n))).collect();
        shapes.sort_by_key(|&(m, n)| (m * n, m));
        for &(m, n) in &shapes {
            let shard = if m * n == 9 { 2 } else { 0 };
            lattice_jobs(&mut jobs, pert, m, n, "full", alpha, &[], &scales, &both, shard, rhs_lat, true);
        }
        // 2. symmetric lattice (Cholesky: positive definite must succeed, clearly indefinite must be refused)
        for n in 1..=3 {
            lattice_jobs(&mut jobs, pert, n, n, "sym", S5, D6, &scales, &both, if n == 3 { 1 } else { 0 }, "pw", false);
        }
        if t {
            lattice_jobs(&mut jobs, pert, 4, 4, "sym", S3, D6, &scales, &both, 2, "pw", false);
            lattice_jobs(&mut jobs, pert, 4, 4, "sym", S5, D6, &scales[..1], &both, 4, "two", false);
            lattice_jobs(&mut jobs, pert, 5, 5, "sym", S3, D3, &scales[..1], &[64], 5, "two", false);
        } else {
            lattice_jobs(&mut jobs, pert, 4, 4, "sym", S3, D3, &scales[..1], &both, 2, "two", false);
        }
        // 3. 4-row / 4-column shapes
        for &(m, n) in &[(4usize, 1usize), (1, 4)] {
            lattice_jobs(&mut jobs, pert, m, n, "full", alpha, &[], &scales, &both, 0, rhs_lat, true);
        }
        for &(m, n) in &[(4usize, 2usize), (2, 4)] {
            lattice_jobs(&mut jobs, pert, m, n, "full", if t { S5 } else { S3 }, &[], &scales, &both, if t { 2 } else { 0 }, rhs_lat, true);
        }
        lattice_jobs(&mut jobs, pert, 4, 4, "full", S2, &[], &scales[..1], &both, 2, "two", true);
        lattice_jobs(&mut jobs, pert, 4, 4, "full", S2PM, &[], &scales[..1], &both, 2, "two", true);
        if t {
            for &(m, n) in &[(4usize, 3usize), (3, 4)] {
                lattice_jobs(&mut jobs, pert, m, n, "full", S3, &[], &scales, &both, 3, "two", true);
            }
            lattice_jobs(&mut jobs, pert, 4, 4, "hess", S3, &[], &scales[1..], &both, 3, "two", true);
            lattice_jobs(&mut jobs, pert, 4, 4, "full", S3, &[], &scales[..1], &both, 6, "two", true);
        } else {
            for &(m, n) in &[(4usize, 3usize), (3, 4)] {
                lattice_jobs(&mut jobs, pert, m, n, "full", S2, &[], &scales, &both, 0, "two", true);
            }
        }
        // 3b. wide dynamic range: a tiny non-zero entry among ordinary ones (round-2 extension)
        tiny_jobs(&mut jobs, pert, t);
        // 4. structured families
        let nmax = if t { 40 } else { 12 };
        // quick tier: every order up to 12, plus a few orders well beyond (iteration limits, block
        // sizes and sweep counters only show at larger orders)
        let orders: Vec<usize> = if t { (1..=40).collect() } else { (1..=12).chain([16usize, 20, 24, 32, 40]).collect() };
        for n in orders {
            for f in gen::FAMILIES {
                if n >= f.min_n && n <= f.max_n {
                    jobs.push(Job::new(format!("fam-{}-n{}", f.name, n), json!({"kind": "fam", "fam": f.name, "n": n, "scales": scales})));
                }
            }
        }
        Plan {
            jobs,
            budget_s: if t { 2700 } else { 40 },
            case_deadline_ms: 20_000,
            floors: vec![
                ("lu_cases", 100_000),
                ("lu_pivoted", 50_000),
                ("qr_cases", 100_000),
                ("qr_tall", 10_000),
                ("qr_negative_diagonal_branch", 50_000),
                ("qr_positive_diagonal_branch", 50_000),
                ("chol_spd", 100_000),
                ("chol_must_refuse", 10_000),
                ("chol_refused", 10_000),
                ("svd_factor_cases", 100_000),
                ("svd_wide", 10_000),
                ("svd_tall", 10_000),
                ("svd_solve_rank_deficient", 10_000),
                ("svd_zero_column", 500),
                ("svd_zero_row", 500),
                ("svd_input_columns_not_in_decreasing_norm_order", 10_000),
                ("svd_u_has_negative_entries", 10_000),
                ("ls_checked", 100_000),
                ("min_norm_checked", 10_000),
                ("family_cases", 10_000),
                // round-2 extension: tiny non-zero entries among ordinary ones
                ("tiny_cases", 500_000),
                ("tiny_lu_cases", 250_000),
                ("tiny_lu_tiny_diagonal_candidate_must_lose", 50_000),
                ("tiny_rank_deficient_in_domain", 30_000),
                ("tiny_fam4_cases", 10_000),
            ],
            bounds: json!({
                "alphabet_perturbation_of_seed": pert.describe(),
                "scales_log2": scales,
                "float_widths": ["f64", "f32"],
                "lattice_general": format!("every m x n matrix, 1<=m,n<=3, over {:?}; 4x1,1x4 over the same; 4x2,2x4 over {:?}; 4x4 over {{0,1}} and {{1,-1}} (scale 1){}", alpha, if t { S5 } else { S3 }, if t { "; 4x3, 3x4 over {0,1,-1}; 4x4 over {0,1,-1} (scale 1); 4x4 upper Hessenberg over {0,1,-1} at the other scales" } else { "; 4x3, 3x4 over {0,1}" }),
                "lattice_symmetric": format!("every symmetric n x n, n<=3, off-diagonal over {:?}, diagonal over {:?}; {}", S5, D6, if t { "4x4 off-diagonal {0,1,-1} x diagonal {0,1,-1,2,3,4} at all scales; 4x4 off-diagonal {0,1,-1,2,-2} x the same diagonal (scale 1); 5x5 off-diagonal {0,1,-1} diagonal {1,2,0} (scale 1, f64)" } else { "4x4 off-diagonal {0,1,-1} diagonal {1,2,0} (scale 1)" }),
                "gram": "for every full-column-rank lattice matrix G (plain and wide-dynamic-range) also the SPD matrix G^T G (Cholesky clauses only)",
                "wide_dynamic_range": format!("tiny entry t = 2^-s among ordinary (perturbed) entries, scale 1, (s, width) in {:?}: every 3x3 matrix over {{0,1,-1,t}} and over {{0,1,2,-t}} that contains at least one tiny entry (those without are in lattice_general){}; 4x4: P*(I + one extra off-diagonal entry in {{1,-1,t}} + t at one other off-diagonal position or at every other off-diagonal position), all 24 P x 12 positions x 3 values x 12 fills; rank / null spaces / leading-minor signs exactly from the minors as integer polynomials in 2^s (no i128 overflow); LU additionally max|L_ij| <= 1 (all LU cases of every family)", tiny_exponents(t), if t { "; every 3x4 and 4x3 matrix over {0,1,t} and over {1,-1,-t}" } else { "" }),
                "families": format!("{} structured families, n = 1..{} (quick: also 16, 20, 24, 32, 40), every variant, aspects sq/t1/t5/t2n/w1/w5, every scale, both widths", gen::FAMILIES.len(), nmax),
                "right_hand_sides": "B = A*X0, X0 over {0,1,-1} patterns with 1..4 columns (full catalogue: 3 patterns per width; 'pw': one per width; 'two': p=1 and p=3), each also with a component outside range(A) for tall / rank-deficient A",
                "conditioning": "clauses demanded only for cond_2(A) <= 1e6 (oracle one-sided Jacobi); cond-sensitive clauses additionally only when max(m,n)*eps_T*cond <= 1/64",
            }),
        }
    }

    fn run(&self, job: &Job) {
        match job.kind() {
            "lat" => lattice_case(job),
            "fam" => family_case(job),
            "tiny" => tiny_lattice_case(job),
            "tiny4" => tiny_fam4_case(job),
            other => panic!("unknown job kind {}", other),
        }
    }

    fn rule(&self) -> String {
        "one execution = one (matrix, scale, float width) with its right-hand-side catalogue; every execution is non-trivial (at least the SVD is computed); distinct = distinct digest of the bits of all returned factors and solutions".into()
    }

    fn assumptions(&self) -> Vec<String> {
        vec![
            "rank, null spaces, definiteness of lattice inputs come from exact i128 elimination; condition numbers from the oracle's one-sided Jacobi SVD".into(),
            "for tall A the solvers return B overwritten (m rows); the solution is read from the leading n rows, as the library's own callers do".into(),
            "power-of-two scaling and the integer / quarter-integer alphabets are exact in f32 and f64".into(),
            "no RNG is involved in the code under test (DenseMatrix::rand is not on any explored path)".into(),
        ]
    }
}

fn main() {
    // the parent process checks the harness' own exact arithmetic before anything is explored
    if !std::env::args().any(|a| a == "--worker" || a == "--replay") {
        if let Err(e) = gen::selfcheck().and_then(|_| tiny::selfcheck()) {
            eprintln!("MACHINERY-ERROR: C01 oracle self-check failed: {}", e);
            std::process::exit(2);
        }
    }
    mc::main(C01)
}
