//! Input spaces of C01: the exact classification of an input matrix (rank, null spaces, singular
//! values, definiteness — all by the oracle toolkit, never by the code under test) and the
//! structured matrix families of DESIGN §3.

use mc_core::oracle::{self as o, IMat, Mat};

#[derive(Clone, Copy, Debug, PartialEq, Eq)]
pub enum CholClass {
    NotSym,
    /// symmetric positive definite (exact leading minors > 0, or by construction)
    Spd,
    /// symmetric with lambda_min <= -0.1 * max|lambda|
    ClearlyIndefinite,
    /// symmetric, neither of the above: the statement promises nothing
    Unconstrained,
}

/// An input matrix at scale 1 together with everything the oracle knows about it.
#[derive(Clone, Debug)]
pub struct Input {
    pub label: String,
    pub m: usize,
    pub n: usize,
    pub base: Mat,
    pub rank: usize,
    /// basis of null(A), vectors of length n
    pub null: Vec<Vec<f64>>,
    /// the basis is exact (integer elimination / by construction) rather than computed in f64
    pub null_exact: bool,
    /// basis of null(A^T), vectors of length m, when known exactly
    pub lnull: Option<Vec<Vec<f64>>>,
    /// oracle singular values, non-increasing
    pub sv: Vec<f64>,
    /// sigma_1 / sigma_rank (1 for the zero matrix)
    pub cond: f64,
    pub chol: CholClass,
    pub lam_min: f64,
    pub lam_max_abs: f64,
    /// input class for Cholesky site keys: what the first non-positive leading minor looks like
    pub chol_cls: &'static str,
}

fn ivecs_to_f64(v: Vec<Vec<i128>>) -> Vec<Vec<f64>> {
    v.into_iter().map(|x| x.into_iter().map(|y| y as f64).collect()).collect()
}

pub fn itranspose(a: &IMat) -> IMat {
    let r = a.len();
    let c = if r == 0 { 0 } else { a[0].len() };
    (0..c).map(|j| (0..r).map(|i| a[i][j]).collect()).collect()
}

pub(crate) fn chol_class_float(base: &Mat, spd_hint: bool) -> (CholClass, f64, f64) {
    if !crate::util::is_symmetric(base) {
        return (CholClass::NotSym, 0.0, 0.0);
    }
    let (lam, _) = o::jacobi_eig(base);
    let lmin = *lam.last().unwrap();
    let lmaxabs = lam.iter().fold(0.0f64, |m, x| m.max(x.abs()));
    let c = if spd_hint || (lmin > 0.0 && lmin >= 1e-7 * lmaxabs) {
        CholClass::Spd
    } else if lmaxabs > 0.0 && lmin <= -0.1 * lmaxabs {
        CholClass::ClearlyIndefinite
    } else {
        CholClass::Unconstrained
    };
    (c, lmin, lmaxabs)
}

fn gcd64(a: i64, b: i64) -> i64 {
    let (mut a, mut b) = (a.abs(), b.abs());
    while b != 0 {
        let t = a % b;
        a = b;
        b = t;
    }
    a
}

/// Exact integer basis of null(A) by fraction-free Gauss-Jordan elimination in i64 with every row
/// kept primitive (overflow checks are on in the harness profile: an overflow would panic, not wrap).
/// Cross-checked against `oracle::inullspace` on every 3x3 / 2x4 / 4x2 ternary matrix at start-up
/// (`selfcheck`).
pub fn null_basis_i64(a: &[Vec<i64>]) -> Vec<Vec<i64>> {
    let r = a.len();
    let c = if r == 0 { 0 } else { a[0].len() };
    let mut m: Vec<Vec<i64>> = a.to_vec();
    let mut piv: Vec<usize> = Vec::new();
    let mut row = 0;
    for colj in 0..c {
        if row >= r {
            break;
        }
        let Some(p) = (row..r).find(|&i| m[i][colj] != 0) else { continue };
        m.swap(row, p);
        let d = m[row].iter().fold(0, |d, x| gcd64(d, *x));
        if d > 1 {
            m[row].iter_mut().for_each(|x| *x /= d);
        }
        for i in 0..r {
            if i != row && m[i][colj] != 0 {
                let (f, g) = (m[row][colj], m[i][colj]);
                let l = gcd64(f, g);
                let (f, g) = (f / l, g / l);
                for j in 0..c {
                    m[i][j] = m[i][j] * f - m[row][j] * g;
                }
                let d = m[i].iter().fold(0, |d, x| gcd64(d, *x));
                if d > 1 {
                    m[i].iter_mut().for_each(|x| *x /= d);
                }
            }
        }
        piv.push(colj);
        row += 1;
    }
    let mut basis = Vec::new();
    for f in (0..c).filter(|j| !piv.contains(j)) {
        let mut l = 1i64;
        for (row, &p) in piv.iter().enumerate() {
            if m[row][f] != 0 {
                let d = m[row][p].abs();
                l = l / gcd64(l, d) * d;
            }
        }
        let mut x = vec![0i64; c];
        x[f] = l;
        for (row, &p) in piv.iter().enumerate() {
            x[p] = -m[row][f] * (l / m[row][p].abs()) * m[row][p].signum();
        }
        basis.push(x);
    }
    basis
}

/// Exact preparation of a matrix with entries q[i][j]/den (small integers).
pub fn prepare_int(label: String, q: &IMat, den: i128) -> Input {
    let m = q.len();
    let n = q[0].len();
    let base: Mat = q.iter().map(|r| r.iter().map(|x| *x as f64 / den as f64).collect()).collect();
    let small = m.max(n) <= 6 && q.iter().all(|r| r.iter().all(|x| x.abs() < 1 << 20));
    let (null, lnull): (Vec<Vec<f64>>, Vec<Vec<f64>>) = if small {
        let q64: Vec<Vec<i64>> = q.iter().map(|r| r.iter().map(|x| *x as i64).collect()).collect();
        let qt64: Vec<Vec<i64>> = (0..n).map(|j| (0..m).map(|i| q64[i][j]).collect()).collect();
        let f = |v: Vec<Vec<i64>>| -> Vec<Vec<f64>> { v.into_iter().map(|x| x.into_iter().map(|y| y as f64).collect()).collect() };
        (f(null_basis_i64(&q64)), f(null_basis_i64(&qt64)))
    } else {
        (ivecs_to_f64(o::inullspace(q)), ivecs_to_f64(o::inullspace(&itranspose(q))))
    };
    let rank = n - null.len();
    assert_eq!(m - lnull.len(), rank, "oracle: row rank != column rank");
    let sv = o::singular_values(&base);
    let cond = if rank == 0 { 1.0 } else { sv[0] / sv[rank - 1] };
    let mut chol_cls = "not-symmetric";
    let (chol, lam_min, lam_max_abs) = if m == n && crate::util::is_symmetric(&base) {
        let minors = o::ileading_minors(q);
        chol_cls = match minors.iter().find(|d| **d <= 0) {
            None => "positive-definite",
            Some(0) => "first-nonpositive-leading-minor-is-zero",
            Some(_) => "first-nonpositive-leading-minor-is-negative",
        };
        if minors.iter().all(|d| *d > 0) {
            // eigenvalues of an SPD matrix are the singular values
            (CholClass::Spd, sv[n - 1], sv[0])
        } else {
            let (c, lo, hi) = chol_class_float(&base, false);
            // exact minors say "not positive definite": never call it Spd on float evidence
            (if c == CholClass::Spd { CholClass::Unconstrained } else { c }, lo, hi)
        }
    } else {
        (CholClass::NotSym, 0.0, 0.0)
    };
    Input { label, m, n, base, rank, null, null_exact: true, lnull: Some(lnull), sv, cond, chol, lam_min, lam_max_abs, chol_cls }
}

/// The Gram matrix G^T G of an exactly full-column-rank integer matrix G: positive definite by
/// construction, singular values = squares of those of G.
pub fn prepare_gram(label: String, g: &IMat, den: i128, of: &Input) -> Input {
    let n = g.len();
    let base: Mat = g.iter().map(|r| r.iter().map(|x| *x as f64 / den as f64).collect()).collect();
    let sv: Vec<f64> = of.sv.iter().map(|x| x * x).collect();
    let cond = sv[0] / sv[n - 1];
    Input { label, m: n, n, base, rank: n, null: Vec::new(), null_exact: true, lnull: Some(Vec::new()), lam_min: sv[n - 1], lam_max_abs: sv[0], sv, cond, chol: CholClass::Spd, chol_cls: "positive-definite" }
}

/// Preparation of a matrix whose rank and null space are known by construction (`null` empty =
/// full column rank; for wide matrices the caller passes the null space or None to have it
/// treated as unknown, in which case the minimum-norm clause is not checked).
pub fn prepare_known(label: String, base: Mat, rank: usize, null: Vec<Vec<f64>>, spd_hint: bool) -> Option<Input> {
    let (m, n) = o::shape(&base);
    let sv = o::singular_values(&base);
    if rank > 0 && !(sv[rank - 1] > 1e-9 * sv[0]) {
        return None; // numerically not of the claimed rank: outside every clause
    }
    if rank < sv.len() && sv[rank] > 1e-12 * sv[0] {
        return None; // numerically of higher rank than claimed
    }
    let (null, null_exact) = if null.len() + rank == n { (null, true) } else { (float_nullspace(&base, rank)?, false) };
    let cond = if rank == 0 { 1.0 } else { sv[0] / sv[rank - 1] };
    let (chol, lam_min, lam_max_abs) = if m == n { chol_class_float(&base, spd_hint) } else { (CholClass::NotSym, 0.0, 0.0) };
    let chol_cls = if chol == CholClass::NotSym { "not-symmetric" } else { pivot_class_float(&base) };
    Some(Input { label, m, n, base, rank, null, null_exact, lnull: None, sv, cond, chol, lam_min, lam_max_abs, chol_cls })
}

/// Sign of the first non-positive leading minor, from the pivots of unpivoted symmetric elimination
/// in f64 (pivot k = minor_k / minor_{k-1}); exact for the 0/1/small-integer families it is used on.
fn pivot_class_float(a: &Mat) -> &'static str {
    let n = a.len();
    let mut w = a.clone();
    for k in 0..n {
        let p = w[k][k];
        if p == 0.0 {
            return "first-nonpositive-leading-minor-is-zero";
        }
        if p < 0.0 {
            return "first-nonpositive-leading-minor-is-negative";
        }
        for i in k + 1..n {
            let f = w[i][k] / p;
            if f != 0.0 {
                for j in k..n {
                    w[i][j] -= f * w[k][j];
                }
            }
        }
    }
    "positive-definite"
}

/// Null-space basis of a full-row-rank (wide) matrix by Gauss-Jordan elimination with complete
/// pivoting in f64 (accuracy ~ eps * cond; used only where no exact basis is available).
pub fn float_nullspace(a: &Mat, rank: usize) -> Option<Vec<Vec<f64>>> {
    let (m, n) = o::shape(a);
    let mut w = a.clone();
    let mut colperm: Vec<usize> = (0..n).collect();
    for k in 0..rank {
        let (mut pi, mut pj, mut best) = (k, k, 0.0);
        for i in k..m {
            for j in k..n {
                if w[i][j].abs() > best {
                    best = w[i][j].abs();
                    pi = i;
                    pj = j;
                }
            }
        }
        if best == 0.0 {
            return None;
        }
        w.swap(k, pi);
        if pj != k {
            for row in w.iter_mut() {
                row.swap(k, pj);
            }
            colperm.swap(k, pj);
        }
        let p = w[k][k];
        for j in 0..n {
            w[k][j] /= p;
        }
        for i in 0..m {
            if i != k && w[i][k] != 0.0 {
                let f = w[i][k];
                for j in 0..n {
                    w[i][j] -= f * w[k][j];
                }
            }
        }
    }
    // rows 0..rank now read [I | H] in permuted column order: basis vectors (-H e_j ; e_j)
    let mut basis = Vec::new();
    for j in rank..n {
        let mut x = vec![0.0; n];
        for i in 0..rank {
            x[colperm[i]] = -w[i][j];
        }
        x[colperm[j]] = 1.0;
        basis.push(x);
    }
    Some(basis)
}

// ------------------------------------------------------------------------------------------------
// lattice

/// The seed's perturbation of the integer alphabet: value v becomes (v*mul*den + add)/den with
/// den = 4 when add != 0. Seed 0 is the plain alphabet.
#[derive(Clone, Copy, Debug)]
pub struct Perturb {
    pub mul: i128,
    pub add_q: i128,
}

pub fn perturb_of_seed(seed: u64) -> Perturb {
    const T: [(i128, i128); 8] = [(1, 0), (1, 1), (3, 0), (1, -1), (1, 2), (5, 0), (3, 1), (7, 0)];
    let (mul, add_q) = T[(seed % 8) as usize];
    Perturb { mul, add_q }
}

impl Perturb {
    pub fn den(&self) -> i128 {
        if self.add_q != 0 {
            4
        } else {
            1
        }
    }
    pub fn apply(&self, v: i64) -> i128 {
        v as i128 * self.mul * self.den() + self.add_q
    }
    pub fn describe(&self) -> String {
        format!("v -> v*{} + {}/4", self.mul, self.add_q)
    }
}

/// Quick-tier scale exponents selected by the seed (thorough uses all of P).
pub fn quick_scales(seed: u64) -> Vec<i32> {
    match (seed / 8) % 3 {
        0 => vec![0, -40, 40],
        1 => vec![0, -20, 20],
        _ => vec![0, -40, 20],
    }
}

pub const ALL_SCALES: [i32; 5] = [0, -40, 40, -20, 20];

// ------------------------------------------------------------------------------------------------
// structured families

fn extra_rows(k: usize, n: usize, mag: f64) -> Mat {
    (0..k).map(|i| (0..n).map(|j| (((3 * i + 5 * j + i * j + 1) % 7) as f64 - 3.0) * mag).collect()).collect()
}

/// Give a square n x n matrix the requested aspect: tall by appending deterministic dense rows
/// (the square part on top keeps full column rank), wide by transposing the tall one.
fn with_aspect(s: Mat, aspect: &str, mag: f64) -> Mat {
    let n = s.len();
    let k = match aspect {
        "sq" => 0,
        "t1" | "w1" => 1,
        "t5" | "w5" => 5,
        "t2n" => n,
        _ => unreachable!(),
    };
    let mut t = s;
    t.extend(extra_rows(k, n, mag));
    if aspect.starts_with('w') {
        o::transpose(&t)
    } else {
        t
    }
}

fn dense_mod(m: usize, n: usize, v: usize) -> Mat {
    let boost = [0usize, 0, n / 2, n][v % 4] as f64;
    (0..m).map(|i| (0..n).map(|j| ((3 * i * i + 7 * j + 5 * i * j + v) % 11) as f64 - 5.0 + if i == j { boost } else { 0.0 }).collect()).collect()
}

fn is_pow2(n: usize) -> bool {
    n >= 1 && n & (n - 1) == 0
}

fn hadamard(n: usize) -> Mat {
    let mut h = vec![vec![1.0]];
    while h.len() < n {
        let k = h.len();
        let mut g = o::zeros(2 * k, 2 * k);
        for i in 0..k {
            for j in 0..k {
                g[i][j] = h[i][j];
                g[i][j + k] = h[i][j];
                g[i + k][j] = h[i][j];
                g[i + k][j + k] = -h[i][j];
            }
        }
        h = g;
    }
    h
}

fn householder(v: &[f64]) -> Mat {
    let n = v.len();
    let vv = o::dot(v, v);
    let mut h = o::eye(n);
    for i in 0..n {
        for j in 0..n {
            h[i][j] -= 2.0 * v[i] * v[j] / vv;
        }
    }
    h
}

pub struct Family {
    pub name: &'static str,
    /// number of variants for size n
    pub variants: fn(usize) -> usize,
    pub aspects: &'static [&'static str],
    pub min_n: usize,
    pub max_n: usize,
}

fn v1(_: usize) -> usize {
    1
}
fn v2(_: usize) -> usize {
    2
}
fn v3(_: usize) -> usize {
    3
}
fn v4(_: usize) -> usize {
    4
}
fn v5(_: usize) -> usize {
    5
}
fn v_perm(n: usize) -> usize {
    2 * n.max(1)
}

const ALL_ASPECTS: &[&str] = &["sq", "t1", "t5", "t2n", "w1", "w5"];
const SQ_T1_W1: &[&str] = &["sq", "t1", "w1"];
const SQ_ONLY: &[&str] = &["sq"];

pub const FAMILIES: &[Family] = &[
    Family { name: "diag-graded", variants: v3, aspects: ALL_ASPECTS, min_n: 1, max_n: 40 },
    Family { name: "bidiag", variants: v3, aspects: ALL_ASPECTS, min_n: 1, max_n: 40 },
    Family { name: "tri-dominant", variants: v3, aspects: ALL_ASPECTS, min_n: 1, max_n: 40 },
    Family { name: "perm", variants: v_perm, aspects: SQ_T1_W1, min_n: 1, max_n: 40 },
    Family { name: "hadamard", variants: v2, aspects: ALL_ASPECTS, min_n: 1, max_n: 32 },
    Family { name: "householder", variants: v3, aspects: ALL_ASPECTS, min_n: 1, max_n: 40 },
    Family { name: "hh-cols", variants: v2, aspects: &["t1", "t5", "t2n", "w1", "w5"], min_n: 1, max_n: 40 },
    Family { name: "toeplitz", variants: v3, aspects: ALL_ASPECTS, min_n: 1, max_n: 40 },
    Family { name: "minij", variants: v3, aspects: ALL_ASPECTS, min_n: 1, max_n: 40 },
    Family { name: "lowrank-ridge", variants: v3, aspects: ALL_ASPECTS, min_n: 1, max_n: 40 },
    Family { name: "dense-mod", variants: v4, aspects: ALL_ASPECTS, min_n: 1, max_n: 40 },
    Family { name: "zero-embedded", variants: v4, aspects: ALL_ASPECTS, min_n: 2, max_n: 40 },
    Family { name: "rot-sum", variants: v2, aspects: ALL_ASPECTS, min_n: 2, max_n: 40 },
    Family { name: "hilbert", variants: v1, aspects: SQ_T1_W1, min_n: 2, max_n: 5 },
    Family { name: "balanced-bad", variants: v2, aspects: SQ_T1_W1, min_n: 2, max_n: 40 },
    Family { name: "sym-indef", variants: v3, aspects: SQ_ONLY, min_n: 2, max_n: 40 },
    Family { name: "index-coded", variants: v4, aspects: ALL_ASPECTS, min_n: 3, max_n: 40 },
    Family { name: "rankdef", variants: v5, aspects: ALL_ASPECTS, min_n: 2, max_n: 40 },
];

pub fn family(name: &str) -> &'static Family {
    FAMILIES.iter().find(|f| f.name == name).unwrap_or_else(|| panic!("unknown family {}", name))
}

fn all_integer(a: &Mat) -> bool {
    a.iter().all(|r| r.iter().all(|x| x.fract() == 0.0 && x.abs() < 1e6))
}

/// Build member (n, variant, aspect) of a family. None = the member does not exist (e.g. Hadamard
/// for n not a power of two) or is numerically not of the rank it claims.
pub fn build(fam: &str, n: usize, variant: usize, aspect: &str) -> Option<Input> {
    let label = format!("{}(n={},variant={},aspect={})", fam, n, variant, aspect);
    let nf = n as f64;
    let graded = |i: usize, decades: f64| -> f64 {
        if n == 1 {
            1.0
        } else {
            10f64.powf(-decades * i as f64 / (nf - 1.0))
        }
    };
    let mut spd = false;
    // families that are not "square base + aspect"
    match fam {
        "hh-cols" => {
            // first n columns of an m x m Householder reflector: orthonormal columns, tall
            let k = match aspect {
                "t1" | "w1" => 1,
                "t5" | "w5" => 5,
                _ => n,
            };
            let m = n + k;
            let v: Vec<f64> = (0..m).map(|i| if variant == 0 { 1.0 } else { (i + 1) as f64 * if i % 2 == 0 { 1.0 } else { -1.0 } }).collect();
            let h = householder(&v);
            let t: Mat = h.iter().map(|r| r[..n].to_vec()).collect();
            let a = if aspect.starts_with('w') { o::transpose(&t) } else { t };
            let (mm, nn) = o::shape(&a);
            let rank = mm.min(nn);
            return prepare_known(label, a, rank, Vec::new(), false);
        }
        "index-coded" => {
            let k = match aspect {
                "sq" => 0,
                "t1" | "w1" => 1,
                "t5" | "w5" => 5,
                _ => n,
            };
            let (m0, n0) = (n + k, n);
            let mut q: IMat = vec![vec![0; n0]; m0];
            for r in 0..m0 {
                for c in 0..n0 {
                    let sign: i128 = match variant {
                        0 => 1,
                        1 => -1,
                        2 => {
                            if (r + c) % 2 == 0 {
                                1
                            } else {
                                -1
                            }
                        }
                        _ => {
                            if r % 2 == 0 {
                                1
                            } else {
                                -1
                            }
                        }
                    };
                    q[r][c] = sign * (1 + (r as i128) * 64 + c as i128);
                }
            }
            let q = if aspect.starts_with('w') { itranspose(&q) } else { q };
            // rank 2: exact elimination stays tiny at every size
            return Some(prepare_int(label, &q, 1));
        }
        "rankdef" => {
            let k = match aspect {
                "sq" => 0,
                "t1" | "w1" => 1,
                "t5" | "w5" => 5,
                _ => n,
            };
            let m0 = n + k; // rows of the tall/square version; n columns in total
            // number of dependent columns
            let dep = match variant {
                4 => n - 1,
                _ => [1usize, 2, n / 2][(n + variant) % 3].clamp(1, n - 1),
            };
            let r = n - dep;
            let f = dense_mod(m0, r, 3);
            let mut f = f;
            if variant == 4 {
                for i in 0..m0 {
                    f[i][0] = ((i % 5) as f64) - 2.0 + if i == 0 { 3.0 } else { 0.0 };
                }
            }
            let h: Mat = (0..r)
                .map(|i| {
                    (0..dep)
                        .map(|j| match variant {
                            0 => {
                                if i == j % r {
                                    1.0
                                } else {
                                    0.0
                                }
                            }
                            1 => 0.0,
                            _ => ((i + 2 * j + 1) % 3) as f64 - 1.0,
                        })
                        .collect()
                })
                .collect();
            let fh = o::matmul(&f, &h);
            // column order: variants 0..2 independent columns first, variants 3,4 dependent first
            let dep_first = variant >= 3;
            let mut a = o::zeros(m0, n);
            let col_of = |c: usize| -> usize {
                if dep_first {
                    (c + dep) % n
                } else {
                    c
                }
            };
            for i in 0..m0 {
                for c in 0..r {
                    a[i][col_of(c)] = f[i][c];
                }
                for c in 0..dep {
                    a[i][col_of(r + c)] = fh[i][c];
                }
            }
            let mut null = Vec::new();
            for j in 0..dep {
                let mut x = vec![0.0; n];
                for i in 0..r {
                    x[col_of(i)] = h[i][j];
                }
                x[col_of(r + j)] = -1.0;
                null.push(x);
            }
            if aspect.starts_with('w') {
                // wide: transpose; the null space of the transpose is not the one above -> exact
                // elimination when small, else skip the member
                let t = o::transpose(&a);
                if n + k <= 12 {
                    let q = o::to_imat(&t)?;
                    return Some(prepare_int(label, &q, 1));
                }
                return None;
            }
            return prepare_known(label, a, r, null, false);
        }
        _ => {}
    }
    let mut mag = 1.0;
    let s: Mat = match fam {
        "diag-graded" => {
            let mut d: Vec<f64> = (0..n).map(|i| graded(i, 5.0)).collect();
            match variant {
                0 => {}
                1 => d.reverse(),
                _ => {
                    // interleaved order with alternating signs
                    let mut e = vec![0.0; n];
                    let (mut lo, mut hi) = (0usize, n);
                    for i in 0..n {
                        if i % 2 == 0 {
                            e[i] = d[lo];
                            lo += 1;
                        } else {
                            hi -= 1;
                            e[i] = -d[hi];
                        }
                    }
                    d = e;
                }
            }
            o::diag(&d)
        }
        "bidiag" => {
            let mut a = o::zeros(n, n);
            for i in 0..n {
                match variant {
                    0 => {
                        a[i][i] = 2.0 + (i % 3) as f64;
                        if i + 1 < n {
                            a[i][i + 1] = 1.0;
                        }
                    }
                    1 => {
                        a[i][i] = -2.0 - (i % 3) as f64;
                        if i + 1 < n {
                            a[i + 1][i] = if i % 2 == 0 { 1.0 } else { -1.0 };
                        }
                    }
                    _ => {
                        a[i][i] = graded(i, 4.0);
                        if i + 1 < n {
                            a[i][i + 1] = graded(i, 4.0) / 2.0;
                        }
                    }
                }
            }
            a
        }
        "tri-dominant" => {
            let mut a = o::zeros(n, n);
            mag = nf;
            for i in 0..n {
                for j in 0..n {
                    let off = ((i + 2 * j) % 3) as f64 - 1.0;
                    let v = if i == j {
                        if variant == 2 {
                            1.0
                        } else {
                            nf + 1.0
                        }
                    } else if variant == 2 {
                        if i > j && i - j <= 2 {
                            off * 0.5
                        } else {
                            0.0
                        }
                    } else {
                        off
                    };
                    let keep = match variant {
                        0 => j >= i,
                        _ => i >= j,
                    };
                    if keep {
                        a[i][j] = v;
                    }
                }
            }
            if variant == 2 {
                mag = 1.0;
            }
            a
        }
        "perm" => {
            let signed = variant >= n;
            let v = variant % n.max(1);
            let mut a = o::zeros(n, n);
            for i in 0..n {
                let j = if v + 1 < n { (i + v + 1) % n } else { n - 1 - i };
                a[i][j] = if signed && i % 2 == 1 { -1.0 } else { 1.0 };
            }
            a
        }
        "hadamard" => {
            if !is_pow2(n) {
                return None;
            }
            let h = hadamard(n);
            if variant == 0 {
                h
            } else {
                o::scale(&h, 1.0 / nf.sqrt())
            }
        }
        "householder" => {
            let v: Vec<f64> = (0..n)
                .map(|i| match variant {
                    0 => 1.0,
                    1 => (i + 1) as f64,
                    _ => (i + 1) as f64 * if i % 2 == 0 { 1.0 } else { -1.0 },
                })
                .collect();
            householder(&v)
        }
        "toeplitz" => {
            let (d, e) = match variant {
                0 => (2.0, -1.0),
                1 => (-2.0, 1.0),
                _ => (2.0, 1.0),
            };
            spd = variant != 1;
            let mut a = o::zeros(n, n);
            for i in 0..n {
                a[i][i] = d;
                if i + 1 < n {
                    a[i][i + 1] = e;
                    a[i + 1][i] = e;
                }
            }
            a
        }
        "minij" => {
            mag = nf;
            let mut a = o::zeros(n, n);
            for i in 0..n {
                for j in 0..n {
                    a[i][j] = match variant {
                        0 => (i.min(j) + 1) as f64,
                        1 => -((i.min(j) + 1) as f64),
                        _ => (i.max(j) + 1) as f64,
                    };
                }
            }
            spd = variant == 0;
            a
        }
        "lowrank-ridge" => {
            let u: Vec<f64> = (0..n)
                .map(|i| match variant {
                    0 => 1.0,
                    1 => (i + 1) as f64,
                    _ => ((i % 4) as f64 + 1.0) * if i % 2 == 0 { 1.0 } else { -1.0 },
                })
                .collect();
            let delta = if variant == 2 { 2.0 } else { 1.0 };
            mag = u.iter().fold(0.0f64, |m, x| m.max(x * x));
            spd = true;
            let mut a = o::zeros(n, n);
            for i in 0..n {
                for j in 0..n {
                    a[i][j] = u[i] * u[j] + if i == j { delta } else { 0.0 };
                }
            }
            a
        }
        "dense-mod" => {
            mag = 3.0;
            dense_mod(n, n, variant)
        }
        "zero-embedded" => {
            mag = 3.0;
            let mut a = dense_mod(n, n, 3);
            match variant {
                0 => {
                    // zero leading entry, negative alternatives below it
                    a[0][0] = 0.0;
                    a[1][0] = -3.0;
                    if n > 2 {
                        a[2][0] = 2.0;
                    }
                }
                1 => {
                    // first column zero except a negative entry in the last row; first row zero except its last entry
                    for i in 0..n {
                        a[i][0] = 0.0;
                    }
                    for j in 0..n {
                        a[0][j] = 0.0;
                    }
                    a[n - 1][0] = -4.0;
                    a[0][n - 1] = 3.0;
                }
                2 => {
                    // zero leading 2x2 block
                    if n < 4 {
                        return None;
                    }
                    a[0][0] = 0.0;
                    a[0][1] = 0.0;
                    a[1][0] = 0.0;
                    a[1][1] = 0.0;
                    a[0][2] = -5.0;
                    a[1][3] = 4.0;
                    a[2][0] = -4.0;
                    a[3][1] = 5.0;
                }
                _ => {
                    // zero rows inside a tall full-rank whole / zero columns inside a wide one
                    if aspect == "sq" {
                        return None;
                    }
                }
            }
            a
        }
        "rot-sum" => {
            let mut a = o::zeros(n, n);
            let mut i = 0;
            let mut which = 0;
            while i + 1 < n {
                let (c, s) = if which % 2 == 0 { (3.0 / 5.0, 4.0 / 5.0) } else { (5.0 / 13.0, 12.0 / 13.0) };
                a[i][i] = c;
                a[i][i + 1] = -s;
                a[i + 1][i] = s;
                a[i + 1][i + 1] = c;
                i += 2;
                which += 1;
            }
            if i < n {
                a[i][i] = 1.0;
            }
            if variant == 1 {
                for r in 0..n {
                    for c in 0..n {
                        a[r][c] *= graded(c, 4.0);
                    }
                }
            }
            a
        }
        "hilbert" => {
            spd = true;
            (0..n).map(|i| (0..n).map(|j| 1.0 / (i + j + 1) as f64).collect()).collect()
        }
        "balanced-bad" => {
            let mut a = o::zeros(n, n);
            for i in 0..n {
                a[i][i] = 2.0;
                if i + 1 < n {
                    a[i][i + 1] = -1.0;
                    a[i + 1][i] = if variant == 0 { -1.0 } else { 1.0 };
                }
            }
            for i in 0..n {
                for j in 0..n {
                    let (ki, kj) = ((i % 3) as i32 * 2, (j % 3) as i32 * 2);
                    a[i][j] *= 2f64.powi(ki - kj);
                }
            }
            mag = 4.0;
            a
        }
        "sym-indef" => {
            // symmetric matrices with clearly negative eigenvalues (Cholesky must refuse them)
            let mut a = o::zeros(n, n);
            match variant {
                0 => {
                    // SPD Toeplitz with the last diagonal entry made strongly negative
                    for i in 0..n {
                        a[i][i] = 2.0;
                        if i + 1 < n {
                            a[i][i + 1] = -1.0;
                            a[i + 1][i] = -1.0;
                        }
                    }
                    a[n - 1][n - 1] = -3.0;
                }
                1 => {
                    // reversal permutation: eigenvalues +-1
                    for i in 0..n {
                        a[i][n - 1 - i] = 1.0;
                    }
                }
                _ => {
                    // diag(+,-,+,...) graded mildly
                    for i in 0..n {
                        a[i][i] = if i % 2 == 0 { 1.0 + i as f64 } else { -(1.0 + i as f64) };
                    }
                }
            }
            a
        }
        other => panic!("unknown family {}", other),
    };
    let mut a = with_aspect(s, aspect, mag);
    if fam == "zero-embedded" && variant == 3 {
        // rows 1 and last of the appended block zeroed (tall) / the same columns (wide)
        let (m, nn) = o::shape(&a);
        if aspect.starts_with('w') {
            for i in 0..m {
                a[i][nn - 1] = 0.0;
            }
        } else {
            for j in 0..nn {
                a[m - 1][j] = 0.0;
            }
        }
        // and one zero row/column in the interior, compensated by the appended dense rows
        if aspect == "t5" || aspect == "t2n" {
            for j in 0..nn {
                a[1][j] = 0.0;
            }
        }
        if aspect == "w5" {
            for i in 0..m {
                a[i][1] = 0.0;
            }
        }
    }
    let (m, nn) = o::shape(&a);
    let exact = all_integer(&a);
    if exact && m.max(nn) <= 6 {
        let q = o::to_imat(&a)?;
        return Some(prepare_int(label, &q, 1));
    }
    let rank = m.min(nn);
    // wide: null space unknown in closed form -> minimum-norm clause checked through the
    // row-space characterisation instead (see check.rs)
    prepare_known(label, a, rank, Vec::new(), spd && aspect == "sq")
}

/// Start-up self-check of the harness' own exact arithmetic: on every 3x3, 2x4 and 4x2 matrix over
/// {0,1,-1} the i64 null-space routine must agree with the i128 toolkit routine on the dimension
/// and must return vectors that A maps to zero exactly.
pub fn selfcheck() -> Result<(), String> {
    for &(m, n) in &[(3usize, 3usize), (2, 4), (4, 2)] {
        let mut err: Option<String> = None;
        o::for_each_tuple(&[0i64, 1, -1], m * n, |t| {
            if err.is_some() {
                return;
            }
            let a: Vec<Vec<i64>> = (0..m).map(|i| t[i * n..(i + 1) * n].to_vec()).collect();
            let basis = null_basis_i64(&a);
            let ai: IMat = a.iter().map(|r| r.iter().map(|x| *x as i128).collect()).collect();
            if basis.len() != n - o::irank(&ai) {
                err = Some(format!("null_basis_i64 dimension {} != n - rank = {} for {:?}", basis.len(), n - o::irank(&ai), a));
                return;
            }
            for z in &basis {
                if a.iter().any(|r| r.iter().zip(z).map(|(x, y)| x * y).sum::<i64>() != 0) || z.iter().all(|x| *x == 0) {
                    err = Some(format!("null_basis_i64 returned {:?} for {:?}", z, a));
                    return;
                }
            }
        });
        if let Some(e) = err {
            return Err(e);
        }
    }
    Ok(())
}
